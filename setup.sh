#!/bin/sh
# MANIFEST.setup_cmd: build the Lean model, proofs and driver from the files on disk (offline).
set -e
here="$(cd "$(dirname "$0")" && pwd)"
cd "$here"
if [ -f harness/extract/generate.py ]; then /venv/bin/python harness/extract/generate.py; fi
cd lean
# the driver first (every check needs it), then all proof modules; a proof module that no longer
# checks is reported by the check of its own property, not here
lake build driver 2>&1 | tail -5
lake build 2>&1 | tail -40 || true
test -x .lake/build/bin/driver
