#!/bin/sh
# MANIFEST.setup_cmd: build the Lean model, proofs and driver from the files on disk (offline).
set -e
here="$(cd "$(dirname "$0")" && pwd)"
cd "$here"
if [ -f harness/extract/generate.py ]; then /venv/bin/python harness/extract/generate.py; fi
cd lean
lake build 2>&1 | tail -40
test -x .lake/build/bin/driver
