"""A loopback pyftpdlib FTP server for the FTPFS backends (`fsharness.make_backend("ftp" | "ftp-nomlsd")`).

One server = one listening socket on 127.0.0.1 with a port chosen at run time (see `_port_range`) + its own pyftpdlib IOLoop,
polled by a daemon thread of the harness process, serving ONE user whose home is a fresh directory
(under `fsharness.SCRATCH_ROOT`).  Starting one costs ~3 ms, so every backend gets its own server and
its cleanup stops it.  Two variants:

* `mlsd=True`  — pyftpdlib as it comes: FEAT advertises `MLST`, FTPFS lists with MLSD / MLST;
* `mlsd=False` — `MLSD`/`MLST` are removed from the handler's command table, FEAT no longer advertises
  `MLST`, so FTPFS takes its `LIST` parsing path (`fs/_ftp_parse.py`).  This is done on the SERVER side:
  the pinned suite's `TestFTPFSNoMLSD` deletes the feature from `ftp_fs.features` on the client, which
  `FTPFS._open_ftp` silently undoes the next time any connection is opened (every `readbytes`/`openbin`).

Nothing here is a verdict: a server that cannot be created / bound / reached raises `vlib.Infra`
(exit 2).  `TZ=UTC` is forced (./check exports it too): pyftpdlib answers MDTM/MLSD in GMT but prints
`LIST` times through `time.gmtime` only with `use_gmt_times` (the default, kept).

Can also be run by hand:  python harness/ftpserver.py DIR [--nomlsd]   (prints `host port user passwd`)
"""
from __future__ import annotations

import atexit
import os
import random
import socket
import sys
import threading
import time

os.environ.setdefault("TZ", "UTC")
try:
    time.tzset()
except AttributeError:  # pragma: no cover
    pass

USER = "user"
PASSWD = "1234"
HOST = "127.0.0.1"
# e: cwd  l: list  r: retr  a: appe  d: dele/rmd  f: rnfr/rnto  m: mkd  w: stor  M: chmod  T: mfmt
PERM = "elradfmwMT"


def _port_range():
    """Ports for the listening socket and the passive data sockets, OUTSIDE the kernel's ephemeral range.
    Every FTPFS call opens 1-3 short-lived connections; their TIME-WAIT remnants (60 s) sit on the clients'
    ephemeral ports, and a few thousand steps fill the whole ephemeral range — after which bind(port=0) fails
    with EADDRINUSE (seen: 28 000 TIME-WAIT sockets, server start and PASV failing).  Server-side sockets are
    therefore bound explicitly (SO_REUSEADDR, random port, retry) where no client port ever lives; connect()
    only needs a free 4-tuple and is not affected.  `VERIF_FTP_PORTS=lo-hi` overrides the range."""
    env = os.environ.get("VERIF_FTP_PORTS")
    if env:
        lo, hi = [int(x) for x in env.split("-")]
        return lo, hi
    try:
        with open("/proc/sys/net/ipv4/ip_local_port_range") as fh:
            lo, hi = [int(x) for x in fh.read().split()]
    except Exception:
        lo, hi = 32768, 60999
    if lo - 12000 >= 10000:
        return lo - 12000, lo - 1
    if hi + 4000 <= 65535:
        return hi + 1, 65535
    return 10000, max(lo - 1, 14000)


_LIVE = set()
_LIVE_LOCK = threading.Lock()
_LOGGING_MUTED = False


def _infra(msg):
    try:
        import vlib

        return vlib.Infra(msg)
    except ImportError:  # stand-alone use
        return RuntimeError(msg)


def _mute_logging():
    """pyftpdlib logs every session to stderr unless a handler is configured"""
    global _LOGGING_MUTED
    if _LOGGING_MUTED:
        return
    import logging

    lg = logging.getLogger("pyftpdlib")
    lg.addHandler(logging.NullHandler())
    lg.propagate = False
    lg.setLevel(logging.CRITICAL + 1)
    _LOGGING_MUTED = True


class FtpServer:
    """`with FtpServer(root) as s: FTPFS(s.host, s.user, s.passwd, port=s.port)`"""

    def __init__(self, root, mlsd=True, user=USER, passwd=PASSWD, verbose=False):
        self.root = os.path.realpath(root)
        self.mlsd = mlsd
        self.user, self.passwd = user, passwd
        self.host, self.port = HOST, None
        self.verbose = verbose
        self._server = None
        self._ioloop = None
        self._thread = None
        self._stop = threading.Event()
        self._pid = None
        self.error = None  # exception that killed the polling thread, if any

    # ------------------------------------------------------------------ start
    def start(self):
        try:
            from pyftpdlib.authorizers import DummyAuthorizer
            from pyftpdlib.handlers import FTPHandler, proto_cmds
            from pyftpdlib.ioloop import IOLoop
            from pyftpdlib.servers import FTPServer
        except Exception as e:  # noqa
            raise _infra("pyftpdlib cannot be imported (%r): no FTP server for the FTPFS backends" % (e,))
        if not self.verbose:
            _mute_logging()
        if not os.path.isdir(self.root):
            raise _infra("FTP root %s is not a directory" % self.root)
        try:
            auth = DummyAuthorizer()
            auth.add_user(self.user, self.passwd, self.root, perm=PERM)
            plo, phi = _port_range()
            attrs = {"authorizer": auth, "timeout": 600, "banner": "verif loopback", "use_sendfile": False,
                     "passive_ports": range(plo, phi + 1), "masquerade_address": None, "max_login_attempts": 1000,
                     "use_gmt_times": True}
            if not self.mlsd:
                attrs["proto_cmds"] = {k: v for k, v in proto_cmds.items() if k not in ("MLSD", "MLST")}
            handler = type("VerifFTPHandler", (FTPHandler,), attrs)
            last = None
            rnd = random.Random(os.getpid() * 1000003 + int(time.time() * 1e6) % 1000003)
            for _attempt in range(200):
                sock = socket.socket(socket.AF_INET, socket.SOCK_STREAM)
                self._ioloop = IOLoop()
                try:
                    sock.setsockopt(socket.SOL_SOCKET, socket.SO_REUSEADDR, 1)
                    sock.bind((HOST, rnd.randint(plo, phi)))
                    self._server = FTPServer(sock, handler, ioloop=self._ioloop)   # listen() happens here
                    break
                except OSError as e:   # port taken (another check's server is listening there): next one
                    last = e
                    self._close_loop()
                    sock.close()
            else:
                raise last
            self._server.max_cons = 0
            self.port = self._server.socket.getsockname()[1]
        except Exception as e:  # noqa
            self._close_loop()
            raise _infra("cannot start the loopback FTP server on %s: %r" % (HOST, e))
        self._pid = os.getpid()
        self._thread = threading.Thread(target=self._run, name="verif-ftpd-%d" % self.port, daemon=True)
        self._thread.start()
        with _LIVE_LOCK:
            _LIVE.add(self)
        self._probe()
        return self

    def _run(self):
        try:
            while not self._stop.is_set():
                self._ioloop.loop(timeout=0.2, blocking=False)
        except Exception as e:  # noqa  (a dead server shows up as connection errors = infrastructure)
            self.error = e
        finally:
            self._close_loop()

    def _close_loop(self):
        try:
            if self._ioloop is not None:
                self._ioloop.close()   # closes the acceptor and every live session / data channel
        except Exception:
            pass

    def _probe(self):
        """the server must greet us, else it is an infrastructure failure"""
        try:
            with socket.create_connection((self.host, self.port), timeout=5) as s:
                s.settimeout(5)
                hello = s.recv(64)
                s.sendall(b"QUIT\r\n")
            if not hello.startswith(b"220"):
                raise OSError("unexpected greeting %r" % hello)
        except Exception as e:  # noqa
            self.stop()
            raise _infra("loopback FTP server on %s:%s does not answer: %r" % (self.host, self.port, e))

    # ------------------------------------------------------------------ stop
    def stop(self):
        with _LIVE_LOCK:
            _LIVE.discard(self)
        if self._thread is None:
            return
        self._stop.set()
        if os.getpid() != self._pid:
            # forked child: the polling thread does not exist here; just drop our copies of the sockets
            self._close_loop()
            self._thread = None
            return
        try:
            # wake the poller at once instead of waiting for its timeout
            socket.create_connection((self.host, self.port), timeout=1).close()
        except OSError:
            pass
        self._thread.join(5)
        if self._thread.is_alive():  # never seen; do not hang the check on it
            self._close_loop()
        self._thread = None

    def alive(self):
        return self._thread is not None and self._thread.is_alive() and self.error is None

    def __enter__(self):
        return self.start()

    def __exit__(self, *a):
        self.stop()


def stop_all():
    with _LIVE_LOCK:
        live = list(_LIVE)
    for s in live:
        s.stop()


atexit.register(stop_all)


def os_snapshot(root):
    """The tree below `root` as the OS shows it, in `fsharness.snapshot` form (sorted, parents first):
    the independent observation the FTPFS-side snapshot is cross-checked against.  Symbolic links and
    special files would be reported as ("?", path) — FTPFS never creates any."""
    out = []

    def rec(d, rel):
        for name in sorted(os.listdir(d)):
            p = os.path.join(d, name)
            r = (rel + "/" + name) if rel else name
            if os.path.islink(p):
                out.append(("?", r))
            elif os.path.isdir(p):
                out.append(("D", r))
                rec(p, r)
            elif os.path.isfile(p):
                with open(p, "rb") as fh:
                    out.append(("F", r, fh.read()))
            else:
                out.append(("?", r))
    rec(root, "")
    return out


if __name__ == "__main__":
    if len(sys.argv) < 2:
        sys.exit(__doc__)
    srv = FtpServer(sys.argv[1], mlsd="--nomlsd" not in sys.argv[2:], verbose="-v" in sys.argv[2:]).start()
    print(srv.host, srv.port, srv.user, srv.passwd, flush=True)
    try:
        while srv.alive():
            time.sleep(0.5)
    except KeyboardInterrupt:
        pass
    finally:
        srv.stop()
