"""Deterministic scheduler for REAL threads (C08).

Exactly one worker thread runs at a time (a baton).  A worker gives the baton back to the
scheduler logic at every *yield point*:

* every `line` event (sys.settrace) of a frame whose code lives under `<repo>/fs/`,
* every acquire and every release of a cooperative lock (`CoopRLock`).

At a yield point the *policy* decides which runnable thread continues, so a schedule is a
replayable list of thread ids (one entry per yield point at which more than one choice existed
is enough, but the full trace is recorded).  Locks are cooperative: `CoopRLock.acquire` never
blocks the OS thread while holding the baton — when another worker owns the lock the acquiring
worker is marked blocked and the baton goes to somebody else; "no runnable worker while some are
unfinished" is a deadlock and is reported as such.

Installing: `install(repo_fs_dir)` patches the names through which `fs.base` and `fs.memoryfs`
create their locks (`fs.base.threading.RLock`, `fs.memoryfs.RLock`) so that every filesystem
object and every `_DirEntry` created afterwards carries a `CoopRLock`.  Outside a scheduled run
(set-up, snapshots, sequential reference runs) a `CoopRLock` behaves like a plain re-entrant
lock used by one thread.
"""
from __future__ import annotations

import gc
import importlib
import os
import sys
import threading
import types

_real_RLock = threading.RLock


class Deadlock(BaseException):
    """raised inside workers to unwind them when the scheduler found a deadlock / aborts"""


class ScheduleError(Exception):
    """the forced schedule cannot be followed (names the step)"""


_current = None  # the active Run, if any
_lock_ids = [0]


class CoopRLock(object):
    """Scheduler-aware re-entrant lock."""

    def __init__(self, kind="lock"):
        self.owner = None  # worker id, or "ext" (a thread outside the scheduler)
        self.count = 0
        self.kind = kind
        _lock_ids[0] += 1
        self.ident = _lock_ids[0]

    # -- outside a run: trivial
    def _ext_acquire(self):
        self.owner = "ext" if self.owner is None else self.owner
        self.count += 1
        return True

    def acquire(self, blocking=True, timeout=-1):
        run = _current
        tid = run.tid() if run is not None else None
        if tid is None:
            return self._ext_acquire()
        if self.owner == tid:
            self.count += 1
            return True
        run.yield_point(tid, ("acq", self.kind, self.ident))
        while self.owner is not None:
            run.block(tid, self)
        self.owner = tid
        self.count = 1
        run.note(tid, ("got", self.kind, self.ident))
        return True

    def release(self):
        run = _current
        tid = run.tid() if run is not None else None
        self.count -= 1
        if self.count > 0:
            return
        self.count = 0
        self.owner = None
        if tid is not None:
            run.unblock(self)
            if not run.aborted:
                run.yield_point(tid, ("rel", self.kind, self.ident))

    def __enter__(self):
        self.acquire()
        return self

    def __exit__(self, *a):
        self.release()

    def _is_owned(self):
        return self.owner is not None


def _make_lock_factory(kind):
    def factory(*a, **k):
        return CoopRLock(kind)

    return factory


class _ThreadingShim(types.ModuleType):
    """`threading` as seen by fs.base: everything real except RLock"""

    def __init__(self):
        types.ModuleType.__init__(self, "threading")
        self.__dict__.update(threading.__dict__)
        self.RLock = _make_lock_factory("fs")


_installed = {}


def install(fs_dir):
    """make fs.base / fs.memoryfs create cooperative locks from now on"""
    import fs.base
    import fs.memoryfs

    if not _installed:
        _installed["base.threading"] = fs.base.threading
        _installed["memoryfs.RLock"] = fs.memoryfs.RLock
    fs.base.threading = _ThreadingShim()
    fs.memoryfs.RLock = _make_lock_factory("entry")
    _installed["fs_dir"] = os.path.join(os.path.abspath(fs_dir), "")
    # function-level imports (`from .move import move_dir` inside FS.movedir, ...) would execute
    # module bodies under the tracer the first time only: import everything up front so that
    # the number of yield points of a call does not depend on what ran before
    for name in sorted(os.listdir(fs_dir)):
        if name.endswith(".py") and not name.startswith("_") and name not in ("test.py",):
            try:
                importlib.import_module("fs." + name[:-3])
            except Exception:
                pass


def uninstall():
    import fs.base
    import fs.memoryfs

    if "base.threading" in _installed:
        fs.base.threading = _installed["base.threading"]
        fs.memoryfs.RLock = _installed["memoryfs.RLock"]


# ----------------------------------------------------------------------------- policies


class Policy(object):
    """decides who runs next.  `choose(run, cur, runnable, event)` returns a worker id from
    `runnable`; `cur` is the worker that reached the yield point (None at the start or when it
    finished / blocked)."""

    def choose(self, run, cur, runnable, event):
        raise NotImplementedError


class Replay(Policy):
    """follow a recorded list of decisions `[(step_index, tid)]` = "at yield point number
    step_index switch to tid"; everywhere else keep running the current thread (lowest id when
    the current one cannot continue)."""

    def __init__(self, switches, start=0):
        self.switches = dict((int(k), int(v)) for k, v in switches)
        self.start = start

    def choose(self, run, cur, runnable, event):
        want = self.switches.get(run.steps)
        if want is not None and want in runnable:
            return want
        if cur is None and run.steps == 0 and self.start in runnable:
            return self.start
        if cur is not None and cur in runnable:
            return cur
        return min(runnable)


class Explore(Policy):
    """stateless DFS with a preemption bound: follows `prefix` (a list of choices, one per
    *choice point* = yield point with more than one runnable worker), then the default
    (continue the current worker).  Records, for every choice point it passes after the prefix,
    the alternatives not taken, so the caller can extend the search."""

    def __init__(self, prefix):
        self.prefix = list(prefix)
        self.taken = []  # (choice, alternatives, was_preemption_possible, cur)
        self.k = 0

    def choose(self, run, cur, runnable, event):
        if len(runnable) == 1:
            return runnable[0]
        default = cur if (cur is not None and cur in runnable) else min(runnable)
        if self.k < len(self.prefix):
            c = self.prefix[self.k]
            if c not in runnable:
                raise ScheduleError("choice %d: thread %r not runnable (%r)" % (self.k, c, runnable))
        else:
            c = default
        self.taken.append((c, [t for t in runnable if t != c], cur if (cur is not None and cur in runnable) else None,
                           event, run.held(cur) if cur is not None else 0))
        self.k += 1
        return c


class Regions(Policy):
    """segment-level forcing (mode i).  The execution of a worker is cut at its *gates*: the
    points where it asks for a lock while holding none (an outermost region begins).  `order`
    lists worker ids, one entry per region, in the order the regions must be entered.  A worker
    runs without interruption from the gate it is let through to its next gate (or its end).
    Regions of a worker beyond the listed ones ("trailing": no model counterpart, e.g. the close()
    of a file object) are entered immediately."""

    def __init__(self, order, gate=None):
        self.order = list(order)
        self.gate = gate  # optional predicate (run, tid, event) -> bool replacing "outermost acquire"
        self.pos = 0
        self.grant = None
        self.parked = set()
        self.regions_entered = {}
        self.skipped = []

    def _remaining(self, t):
        return sum(1 for x in self.order[self.pos:] if x == t)

    def _enter(self, t):
        self.regions_entered[t] = self.regions_entered.get(t, 0) + 1

    def choose(self, run, cur, runnable, event):
        if cur is not None and cur in runnable:
            if self.gate is not None:
                at_gate = bool(event) and self.gate(run, cur, event)
            else:
                at_gate = bool(event) and event[0] == "acq" and run.held(cur) == 0
            if not at_gate:
                return cur
            if self.grant == cur:
                self.grant = None
                self._enter(cur)
                return cur
            if self._remaining(cur) == 0:
                self._enter(cur)  # trailing region
                return cur
            self.parked.add(cur)
        while self.pos < len(self.order):
            t = self.order[self.pos]
            if t in runnable:
                self.pos += 1
                if t in self.parked:
                    self.parked.discard(t)
                    self._enter(t)  # parked at its gate and next in the order: goes through
                else:
                    self.grant = t  # not yet at its first gate: let through when it gets there
                return t
            if run.finished(t):
                self.pos += 1
                self.skipped.append(t)
                continue
            raise ScheduleError("region %d: thread %r is blocked" % (self.pos, t))
        if cur is not None and cur in runnable:
            self.parked.discard(cur)
            self._enter(cur)
            return cur
        t = min(runnable)
        if t in self.parked:
            self.parked.discard(t)
            self._enter(t)
        return t


# ----------------------------------------------------------------------------- a run


class Run(object):
    def __init__(self, fns, policy, fs_dir=None, max_steps=200000, trace_lines=True):
        self.fns = fns
        self.n = len(fns)
        self.policy = policy
        self.fs_dir = os.path.join(fs_dir or _installed.get("fs_dir"), "")
        self.max_steps = max_steps
        self.trace_lines = trace_lines
        self.steps = 0
        self.trace = []  # tid per step (the schedule)
        self.events = []  # (tid, event) log (bounded)
        self.results = [None] * self.n
        self.state = ["new"] * self.n  # new | ready | blocked | done
        self.waiting_on = [None] * self.n
        self.go = [threading.Semaphore(0) for _ in range(self.n)]
        self.main = threading.Semaphore(0)
        self.idents = {}
        self.aborted = False
        self.deadlock = False
        self.error = None
        self.holds = [0] * self.n
        self.switch_log = []  # (step, tid) whenever the running worker changes

    # -- identification
    def tid(self):
        return self.idents.get(threading.get_ident())

    def held(self, tid):
        return self.holds[tid]

    def finished(self, tid):
        return self.state[tid] == "done"

    def note(self, tid, event):
        if event[0] == "got":
            self.holds[tid] += 1
        if len(self.events) < 4000:
            self.events.append((tid, event))

    # -- baton
    def _runnable(self):
        return [i for i in range(self.n) if self.state[i] == "ready"]

    def _handoff(self, cur, event):
        """called by worker `cur` (or None from the main thread at start) while holding the baton"""
        if self.aborted:
            raise Deadlock()
        runnable = self._runnable()
        if not runnable:
            if all(s == "done" for s in self.state):
                self.main.release()
                return None
            # deadlock: nobody can move
            self.deadlock = True
            self._abort()
            if cur is not None and self.state[cur] != "done":
                raise Deadlock()
            return None
        try:
            nxt = self.policy.choose(self, cur if (cur is not None and self.state[cur] == "ready") else None, runnable, event)
        except ScheduleError as e:
            self.error = e
            self._abort()
            if cur is not None and self.state[cur] != "done":
                raise Deadlock()
            return None
        self.trace.append(nxt)
        if not self.switch_log or self.switch_log[-1][1] != nxt:
            self.switch_log.append((self.steps, nxt))
        self.steps += 1
        if self.steps > self.max_steps:
            self.error = ScheduleError("step limit")
            self._abort()
            if cur is not None and self.state[cur] != "done":
                raise Deadlock()
            return None
        if nxt != cur:
            self.go[nxt].release()
            if cur is not None and self.state[cur] != "done":
                self.go[cur].acquire()
                if self.aborted:
                    raise Deadlock()
        return nxt

    def _abort(self):
        self.aborted = True
        for i in range(self.n):
            if self.state[i] != "done":
                self.go[i].release()
        self.main.release()

    def yield_point(self, tid, event):
        if self.aborted:
            raise Deadlock()
        if event[0] == "rel":
            self.holds[tid] = max(0, self.holds[tid] - 1)
        if len(self.events) < 4000:
            self.events.append((tid, event))
        self._handoff(tid, event)

    def block(self, tid, lock):
        self.state[tid] = "blocked"
        self.waiting_on[tid] = lock
        self._handoff(tid, ("blocked", lock.kind, lock.ident))
        # resumed: either unblocked or aborted
        if self.aborted:
            raise Deadlock()

    def unblock(self, lock):
        for i in range(self.n):
            if self.state[i] == "blocked" and self.waiting_on[i] is lock:
                self.state[i] = "ready"
                self.waiting_on[i] = None

    # -- tracing
    def _tracer(self, tid):
        fs_dir = self.fs_dir
        run = self

        def local(frame, event, arg):
            if event == "line":
                run.yield_point(tid, ("line", frame.f_code.co_filename[len(fs_dir):], frame.f_lineno))
            return local

        def glob(frame, event, arg):
            if event == "call" and frame.f_code.co_filename.startswith(fs_dir):
                return local
            return None

        return glob

    def _worker(self, tid):
        self.idents[threading.get_ident()] = tid
        self.go[tid].acquire()
        if self.aborted:
            self.state[tid] = "done"
            return
        try:
            if self.trace_lines:
                sys.settrace(self._tracer(tid))
            try:
                self.results[tid] = ("ok", self.fns[tid]())
            finally:
                sys.settrace(None)
        except Deadlock:
            self.results[tid] = ("aborted", None)
        except BaseException as e:  # noqa
            self.results[tid] = ("exc", e)
        self.state[tid] = "done"
        if not self.aborted:
            try:
                self._handoff(tid, ("done",))
            except Deadlock:
                pass

    def execute(self, timeout=60):
        global _current
        assert _current is None, "nested scheduled runs"
        threads = [threading.Thread(target=self._worker, args=(i,), daemon=True) for i in range(self.n)]
        _current = self
        # the cyclic collector may run finalizers (generators suspended inside `with self._lock`,
        # file objects) in whichever thread happens to allocate: keep it off while workers run, so
        # that finalisation is by reference count only, i.e. deterministic
        gc_was = gc.isenabled()
        gc.disable()
        try:
            for t in threads:
                t.start()
            for i in range(self.n):
                self.state[i] = "ready"
            self._handoff(None, ("start",))
            if not self.main.acquire(timeout=timeout):
                self.error = ScheduleError("wall-clock timeout")
                self._abort()
            for t in threads:
                t.join(timeout=5)
        finally:
            _current = None
            if gc_was:
                gc.enable()
        return self


def run_threads(fns, policy, **kw):
    return Run(fns, policy, **kw).execute()
