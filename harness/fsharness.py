"""History engine shared by the stateful properties (C01, C05, C06, C10, C11, ...).

Every step is checked on its own: the model is loaded with the *implementation's* tree
snapshot taken before the call, executes the same operation, and its verdict / value /
resulting tree are compared with what the real filesystem did.  Agreement of every step
from identical pre-states gives agreement of whole histories by induction, and a replay
is just (backend, tree, op).
"""
from __future__ import annotations

import datetime
import os
import shutil
import signal
import tempfile

import vlib
from vlib import hx

SCRATCH_ROOT = os.environ.get("VERIF_SCRATCH", "/tmp/verif-scr/%d" % os.getpid())


class Timeout(Exception):
    pass


def _alarm(signum, frame):
    # a wall-clock limit says nothing on a machine that is not giving this process its share of the
    # CPU: with the run queue well beyond the number of cores the event is an infrastructure failure
    # (exit 2), never a verdict about the library
    try:
        load, cpus = os.getloadavg()[0], (os.cpu_count() or 1)
    except OSError:
        load, cpus = 0.0, 1
    if load > 2.0 * cpus:
        raise vlib.Infra("watchdog fired with load average %.1f on %d cores: machine overloaded, no verdict" % (load, cpus))
    raise Timeout()


def with_watchdog(fn, seconds=10):
    old = signal.signal(signal.SIGALRM, _alarm)
    signal.alarm(seconds)
    try:
        return fn()
    finally:
        signal.alarm(0)
        signal.signal(signal.SIGALRM, old)


# ----------------------------------------------------------------------------- snapshot


def snapshot(f, limit=4000, maxdepth=12):
    """Tree of a filesystem as an ordered list of entries [("D", path) | ("F", path, bytes)],
    parents first, in the filesystem's own listing order.  Does not trust the filesystem:
    bounded, and any exception marks the snapshot corrupt (returns None)."""
    out = []
    try:
        def rec(path, depth):
            if depth > maxdepth or len(out) > limit:
                raise RuntimeError("snapshot bound exceeded")
            for name in f.listdir(path or "/"):
                if name == "" or "/" in name:
                    raise RuntimeError("illegal name %r" % name)
                p = (path + "/" + name) if path else name
                if f.isdir(p):
                    out.append(("D", p))
                    rec(p, depth + 1)
                else:
                    out.append(("F", p, f.readbytes(p)))
        with_watchdog(lambda: rec("", 0), 10)
    except vlib.Infra:
        raise
    except Exception:
        return None
    return out


def enc_tree(snap):
    parts = []
    for e in snap:
        if e[0] == "D":
            parts.append("D" + hx(e[1]))
        else:
            parts.append("F" + hx(e[1]) + ":" + hx(e[2]))
    return "T" + ";".join(parts)


def dec_tree(s):
    assert s.startswith("T"), s
    body = s[1:]
    out = []
    if not body:
        return out
    for e in body.split(";"):
        if e[0] == "D":
            out.append(("D", vlib.unhx(e[1:])))
        else:
            ph, bh = e[1:].split(":")
            out.append(("F", vlib.unhx(ph), vlib.unhxb(bh)))
    return out


def canon_tree(snap):
    return sorted(snap)


# ----------------------------------------------------------------------------- operations

QUERIES = ["exists", "isdir", "isfile", "listdir", "getsize", "gettype", "isempty", "getinfo", "readbytes"]
MUT1 = ["makedir", "makedirs", "writebytes", "appendbytes", "create", "touch", "settimes", "openbin",
        "remove", "removedir", "removetree"]
MUT2 = ["move", "copy", "movedir", "copydir"]
SINGLE_RESOURCE = {"makedir", "openbin", "remove", "removedir", "settimes", "move", "copy", "writebytes",
                   "appendbytes", "create", "touch", "makedirs"}
MODES = ["r", "rb", "r+", "w", "wb", "w+", "a", "ab", "a+", "x", "xb", "x+", "", "z", "rt", "br", "wt", "+r"]


def op_request(op, closed, tree_enc, cmd="ref.step"):
    name = op[0]
    a = [name]
    for x in op[1:]:
        if isinstance(x, bool):
            a.append("1" if x else "0")
        elif isinstance(x, (bytes, str)):
            a.append(hx(x))
        else:
            raise AssertionError(op)
    return "%s %s %s %s" % (cmd, "1" if closed else "0", tree_enc, " ".join(a))


def exc_name(e):
    import fs.errors as E

    if isinstance(e, Timeout):
        return "Leak:Timeout"
    if isinstance(e, E.FSError) or type(e).__module__ == "fs.errors":
        return type(e).__name__
    if isinstance(e, (ValueError,)) and type(e) is ValueError:
        return "ValueError"
    if type(e) is TypeError:
        return "TypeError"
    return "Leak:" + type(e).__name__


def apply_op(f, op, keep_order=False):
    """Execute on the real filesystem; returns ("ok", canonical value) or ("err", class, exc).
    Listings are sorted unless `keep_order` (the filesystem's own order) is requested."""
    name = op[0]

    def go():
        if name == "exists":
            return "bool:%d" % f.exists(op[1])
        if name == "isdir":
            return "bool:%d" % f.isdir(op[1])
        if name == "isfile":
            return "bool:%d" % f.isfile(op[1])
        if name == "listdir":
            names = f.listdir(op[1])
            return "names:" + vlib.hxlist(names if keep_order else sorted(names))
        if name == "getsize":
            n = f.getsize(op[1])
            return "nat:%d" % (n if f.isfile(op[1]) else 0)
        if name == "gettype":
            return "nat:%d" % int(f.gettype(op[1]))
        if name == "isempty":
            return "bool:%d" % f.isempty(op[1])
        if name == "getinfo":
            i = f.getinfo(op[1], namespaces=["details"])
            return "info:%s:%d:%d" % (hx(i.name), i.is_dir, 0 if i.is_dir else i.size)
        if name == "readbytes":
            return "bytes:" + hx(f.readbytes(op[1]))
        if name == "makedir":
            f.makedir(op[1], recreate=op[2])
            return "unit"
        if name == "makedirs":
            f.makedirs(op[1], recreate=op[2])
            return "unit"
        if name == "writebytes":
            f.writebytes(op[1], op[2])
            return "unit"
        if name == "appendbytes":
            f.appendbytes(op[1], op[2])
            return "unit"
        if name == "create":
            return "bool:%d" % f.create(op[1], wipe=op[2])
        if name == "touch":
            f.touch(op[1])
            return "unit"
        if name == "settimes":
            f.settimes(op[1], modified=datetime.datetime(2001, 2, 3, 4, 5, 6, tzinfo=datetime.timezone.utc))
            return "unit"
        if name == "openbin":
            f.openbin(op[1], op[2]).close()
            return "unit"
        if name == "remove":
            f.remove(op[1])
            return "unit"
        if name == "removedir":
            f.removedir(op[1])
            return "unit"
        if name == "removetree":
            f.removetree(op[1])
            return "unit"
        if name == "move":
            f.move(op[1], op[2], overwrite=op[3])
            return "unit"
        if name == "copy":
            f.copy(op[1], op[2], overwrite=op[3])
            return "unit"
        if name == "movedir":
            f.movedir(op[1], op[2], create=op[3])
            return "unit"
        if name == "copydir":
            f.copydir(op[1], op[2], create=op[3])
            return "unit"
        if name == "close":
            f.close()
            return "unit"
        raise AssertionError(op)

    try:
        return ("ok", with_watchdog(go, 10))
    except BaseException as e:  # noqa
        if isinstance(e, (KeyboardInterrupt, SystemExit, vlib.Infra)):
            raise
        return ("err", exc_name(e), e)


def canon_val(v):
    """order-insensitive form of a canonical value (listing order is unspecified in general)"""
    if isinstance(v, str) and v.startswith("names:"):
        return "names:" + vlib.hxlist(sorted(vlib.unhxlist(v[6:])))
    return v


def parse_reply(line, sort_names=True):
    """`<ok v|err E> | <tree'> | <closed'> | adm=.. | wf=..`"""
    parts = [p.strip() for p in line.split(" | ")]
    out = parts[0]
    tree = parts[1]
    closed = parts[2] == "1"
    adm = [a for a in parts[3][4:].split(",") if a]
    wf = parts[4] == "wf=1"
    if out.startswith("ok "):
        v = out[3:]
        if v.startswith("names:") and sort_names:
            v = "names:" + vlib.hxlist(sorted(vlib.unhxlist(v[6:])))
        return ("ok", v), tree, closed, adm, wf
    return ("err", out[4:]), tree, closed, adm, wf


# ----------------------------------------------------------------------------- generators

NAMES = ["a", "b", "c", "d.e", " f", "g*", "h\n"]


def all_paths(snap):
    return [e[1] for e in snap]


def spell(rng, p):
    """an equivalent spelling of a clean relative path"""
    r = rng.random()
    if r < 0.5:
        return p
    if r < 0.6:
        return "/" + p
    if r < 0.7:
        return p + "/"
    if r < 0.8:
        return "./" + p
    if r < 0.9:
        return "zz/../" + p
    return p.replace("/", "//") if "/" in p else "//" + p


def gen_path(rng, snap, names=NAMES, spelling=True):
    paths = all_paths(snap)
    r = rng.random()
    if paths and r < 0.5:
        p = rng.choice(paths)
    elif r < 0.8:
        base = rng.choice(paths) if paths and rng.random() < 0.7 else ""
        k = rng.random()
        if k < 0.6:
            p = (base + "/" if base else "") + rng.choice(names)
        elif k < 0.8 and "/" in base:
            p = base.rsplit("/", 1)[0]
        else:
            p = (base + "/" if base else "") + rng.choice(names) + "/" + rng.choice(names)
    elif r < 0.9:
        p = rng.choice(["", "/", ".", "a/..", "a/b/../.."])
        return p
    else:
        p = rng.choice(["..", "a/../..", "x\0y", "../a", "a/./b/../../../c", "/../"])
        return p
    return spell(rng, p) if spelling else p


def gen_bytes(rng):
    return rng.choice([b"", b"x", b"hello", b"\x00\xff\n", bytes(rng.randrange(256) for _ in range(rng.randint(0, 12)))])


def gen_op(rng, snap, names=NAMES, weights=None, spelling=True):
    P = lambda: gen_path(rng, snap, names, spelling)  # noqa
    r = rng.random()
    if r < 0.22:
        return (rng.choice(QUERIES), P())
    if r < 0.70:
        name = rng.choice(MUT1)
        if name in ("makedir", "makedirs"):
            return (name, P(), rng.random() < 0.4)
        if name in ("writebytes", "appendbytes"):
            return (name, P(), gen_bytes(rng))
        if name == "create":
            return (name, P(), rng.random() < 0.5)
        if name == "openbin":
            return (name, P(), rng.choice(MODES))
        return (name, P())
    name = rng.choice(MUT2)
    return (name, P(), P(), rng.random() < 0.5)


# ----------------------------------------------------------------------------- backends


class Backend:
    """A filesystem under test plus what is needed to rebuild / dispose of it."""

    def __init__(self, kind, fs_obj, cleanup=None, ordered=False, inner=None):
        self.kind = kind
        self.fs = fs_obj
        self._cleanup = cleanup
        self.ordered = ordered
        self.inner = inner or []

    def close(self):
        try:
            self.fs.close()
        except Exception:
            pass
        for i in self.inner:
            try:
                i.close()
            except Exception:
                pass
        if self._cleanup:
            self._cleanup()


def _tmpdir():
    os.makedirs(SCRATCH_ROOT, exist_ok=True)
    return tempfile.mkdtemp(dir=SCRATCH_ROOT)


def make_backend(kind):
    from fs.memoryfs import MemoryFS
    from fs.osfs import OSFS

    if kind == "mem":
        return Backend(kind, MemoryFS(), ordered=True)
    if kind == "os":
        d = _tmpdir()
        return Backend(kind, OSFS(d), cleanup=lambda: rm_rf(d))
    if kind == "os-links":
        d = _tmpdir()
        o = OSFS(d)
        o.makedirs("real/sub")
        o.writebytes("real/f.txt", b"target")
        o.writebytes("top.txt", b"t")
        os.symlink(os.path.join(d, "real", "f.txt"), os.path.join(d, "flink"))
        os.symlink(os.path.join(d, "real"), os.path.join(d, "dlink"))
        os.symlink(os.path.join(d, "real", "f.txt"), os.path.join(d, "real", "sub", "inner-link"))
        return Backend(kind, o, cleanup=lambda: rm_rf(d))
    if kind == "sub-mem":
        m = MemoryFS()
        m.makedirs("x/y")
        m.writebytes("outside", b"canary")
        return Backend(kind, m.opendir("x/y"), inner=[m])
    if kind == "sub-os":
        d = _tmpdir()
        o = OSFS(d)
        o.makedirs("x/y")
        o.writebytes("outside", b"canary")
        return Backend(kind, o.opendir("x/y"), cleanup=lambda: rm_rf(d), inner=[o])
    if kind == "wrap-mem":
        from fs.wrapfs import WrapFS

        m = MemoryFS()
        return Backend(kind, WrapFS(m), inner=[m])
    if kind == "cachedir-mem":
        from fs.wrap import cache_directory

        m = MemoryFS()
        return Backend(kind, cache_directory(m), inner=[m])
    if kind == "cachedir-os":
        from fs.wrap import cache_directory

        d = _tmpdir()
        o = OSFS(d)
        return Backend(kind, cache_directory(o), cleanup=lambda: rm_rf(d), inner=[o])
    if kind == "mount":
        from fs.mountfs import MountFS

        mfs = MountFS()
        a, b = MemoryFS(), MemoryFS()
        mfs.mount("m1", a)
        mfs.mount("m2/deep", b)
        return Backend(kind, mfs, inner=[a, b])
    if kind == "mount-root":
        from fs.mountfs import MountFS

        mfs = MountFS()
        a = MemoryFS()
        mfs.mount("/", a)
        return Backend(kind, mfs, inner=[a])
    if kind == "multi":
        from fs.multifs import MultiFS

        mu = MultiFS()
        w = MemoryFS()
        mu.add_fs("w", w, write=True)
        return Backend(kind, mu, inner=[w])
    if kind == "multi2":
        from fs.multifs import MultiFS

        mu = MultiFS()
        w, lo, hi = MemoryFS(), MemoryFS(), MemoryFS()
        for m, nm in ((lo, "lo"), (hi, "hi")):
            m.makedirs("a/b")
            m.writebytes("a/" + nm, nm.encode())
            m.writebytes("c", nm.encode())
            m.writebytes("only-" + nm, b"x")
            m.writebytes("a/b/c", b"deep")
        # the same name as a directory in a shadowed layer and a file in the winning one (and vice versa)
        lo.makedirs("k/inner")
        hi.writebytes("k", b"file wins")
        hi.makedirs("j/inner")
        lo.writebytes("j", b"dir wins")
        mu.add_fs("lo", lo, priority=1)
        mu.add_fs("hi", hi, priority=5)
        mu.add_fs("w", w, write=True, priority=3)
        return Backend(kind, mu, inner=[w, lo, hi])
    if kind == "mount-nested":
        from fs.mountfs import MountFS

        mfs = MountFS()
        a, b = MemoryFS(), MemoryFS()
        b.writebytes("inb", b"1")
        a.writebytes("ina", b"2")
        mfs.mount("p/q", b)
        try:
            mfs.mount("p", a)
        except Exception:
            pass
        return Backend(kind, mfs, inner=[a, b])
    if kind == "zip-w":
        from fs.zipfs import ZipFS
        import io

        z = ZipFS(io.BytesIO(), write=True)
        return Backend(kind, z)
    if kind == "tar-w":
        from fs.tarfs import TarFS
        import io

        z = TarFS(io.BytesIO(), write=True)
        return Backend(kind, z)
    if kind == "temp":
        from fs.tempfs import TempFS

        os.makedirs(SCRATCH_ROOT, exist_ok=True)
        return Backend(kind, TempFS(temp_dir=SCRATCH_ROOT))
    if kind in FTP_KINDS:
        return make_ftp_backend(kind)
    raise ValueError(kind)


FTP_KINDS = ("ftp", "ftp-nomlsd")


def make_ftp_backend(kind):
    """FTPFS against a loopback pyftpdlib server of its own (thread in this process, ephemeral port) whose
    single user's home is a fresh scratch directory: `b.fs` is the FTPFS, `b.root` the backing directory
    (for an independent snapshot through the OS: `ftp_os_snapshot`), `b.server` the server; `b.close()`
    closes the FTPFS, stops the server and removes the directory.  "ftp-nomlsd": the server does not
    offer MLSD/MLST, so FTPFS parses LIST output.  A server that cannot be started is vlib.Infra."""
    import ftpserver
    from fs.ftpfs import FTPFS

    d = _tmpdir()
    srv = ftpserver.FtpServer(d, mlsd=(kind == "ftp")).start()

    def cleanup():
        srv.stop()
        rm_rf(d)

    try:
        f = FTPFS(srv.host, srv.user, srv.passwd, port=srv.port, timeout=8)
        want = kind == "ftp"
        if ("MLST" in f.features) != want:
            raise vlib.Infra("loopback FTP server (%s): MLST advertised=%r, expected %r" % (kind, not want, want))
    except vlib.Infra:
        cleanup()
        raise
    except Exception as e:  # noqa  (connection problems are infrastructure, never a verdict)
        cleanup()
        raise vlib.Infra("cannot connect FTPFS to the loopback server %s:%s: %r" % (srv.host, srv.port, e))
    b = Backend(kind, f, cleanup=cleanup)
    b.root = d
    b.server = srv
    return b


def ftp_os_snapshot(b):
    """what is on disk behind an FTP backend (sorted snapshot form), observed through the OS"""
    import ftpserver

    return ftpserver.os_snapshot(b.root)


def build_state(kind, snap):
    """a fresh backend of `kind` holding exactly the tree `snap`"""
    b = make_backend(kind)
    if kind in FTP_KINDS:
        # straight into the server's directory: no dependence on the library under test, no connections
        for e in snap:
            p = os.path.join(b.root, *e[1].split("/"))
            if e[0] == "D":
                os.makedirs(p, exist_ok=True)
            else:
                os.makedirs(os.path.dirname(p), exist_ok=True)
                with open(p, "wb") as fh:
                    fh.write(e[2])
        return b
    for e in snap:
        if e[0] == "D":
            b.fs.makedirs(e[1], recreate=True)
        else:
            b.fs.writebytes(e[1], e[2])
    return b


def rm_rf(path):
    """robust removal (runaway copies can nest deeper than Python's recursion limit)"""
    import subprocess

    subprocess.run(["rm", "-rf", "--", path], check=False)


def cleanup_scratch():
    rm_rf(SCRATCH_ROOT)


# ----------------------------------------------------------------------------- stepping


class Step:
    __slots__ = ("kind", "pre", "op", "impl", "post", "hist_id", "idx")

    def __init__(self, kind, pre, op, impl, post, hist_id, idx):
        self.kind, self.pre, self.op, self.impl, self.post = kind, pre, op, impl, post
        self.hist_id, self.idx = hist_id, idx


def run_history(kind, rng, n_ops, hist_id, names=NAMES, gen=gen_op, prefix_ops=()):
    """Run one random history on a fresh backend; returns the list of Steps."""
    b = make_backend(kind)
    steps = []
    try:
        pre = snapshot(b.fs)
        planned = list(prefix_ops)
        for i in range(n_ops):
            if pre is None:
                break
            op = planned.pop(0) if planned else gen(rng, pre, names)
            impl = apply_op(b.fs, op, keep_order=True)
            post = snapshot(b.fs)
            steps.append(Step(kind, pre, op, impl, post, hist_id, i))
            pre = post
    finally:
        b.close()
    return steps


def model_replies(drv, steps, closed=False, cmd="ref.step", sort_names=True):
    reqs = [op_request(s.op, closed, enc_tree(s.pre), cmd) for s in steps]
    return [parse_reply(r, sort_names) for r in drv.batch(reqs)]


def op_json(op):
    return [x.decode("latin-1") if isinstance(x, bytes) else x for x in op]


def step_case(s, model=None):
    return {
        "backend": s.kind,
        "pre_tree": [[e[0], e[1]] + ([e[2].decode("latin-1")] if e[0] == "F" else []) for e in s.pre],
        "op": op_json(s.op),
        "impl": [s.impl[0], s.impl[1]] + ([repr(s.impl[2])] if s.impl[0] == "err" else []),
        "impl_post_tree": None if s.post is None else [[e[0], e[1]] + ([e[2].decode("latin-1")] if e[0] == "F" else []) for e in s.post],
        "model": model,
    }


def case_to_step(case):
    pre = [tuple([e[0], e[1]] + ([e[2].encode("latin-1")] if e[0] == "F" else [])) for e in case["pre_tree"]]
    op = tuple(case["op"])
    return case["backend"], pre, op


def fix_op_bytes(op):
    """ops loaded from JSON: data arguments of writebytes/appendbytes back to bytes"""
    if op[0] in ("writebytes", "appendbytes"):
        return (op[0], op[1], op[2].encode("latin-1") if isinstance(op[2], str) else op[2])
    return tuple(op)
