"""C19 — copy_fs / copy_dir / mirror produce exact replicas; conditional copy obeys its rule.

Theorems: lean/FsProofs/C19.lean over lean/FsModel/Copy.lean (transcription of fs/copy.py and
fs/mirror.py on trees whose files carry an optional modification time).

Every case is executed three times:
  * on the real code (fs.copy / fs.mirror between two real filesystems),
  * on the compiled Lean model (driver commands copy.necessary / copy.fileif / copy.dirif /
    copy.mirror)                                     -> the *correspondence*,
  * by the property oracle below, written directly from the property text and the documented
    rules (own walker selection with fnmatch, own condition table), which needs neither the
    model nor fs.walk                                -> the *failing-input search*.
A model<->code disagreement is reported found_input=True when the oracle also rejects what the
real code did, found_input=False otherwise; an oracle failure on which model and code agree is a
genuine violation (the model transcribes the code, the oracle states the property).

Modification times are set explicitly with settimes to whole seconds (1000/2000/3000); every
time that was not set explicitly (a file written by the call) is canonicalised to NOW.
"""
from __future__ import annotations

import datetime
import fnmatch
import itertools
import json
import os
import time

import vlib
import fsharness as H
from vlib import hx

NOW = 4000000000            # what the model is told "now" is; later than every explicit time
CONDS = ["always", "newer", "older", "exists", "not_exists"]
TIMES = {"older": 1000, "equal": 2000, "newer": 3000}
LEANCHECKER_MODULES = ["FsProofs.C19", "FsProofs.Lemmas.CopyDirLemmas", "FsProofs.Lemmas.MirrorLemmas"]


# ----------------------------------------------------------------------------- trees
# a tree is a list of entries, parents first: ("D", path) | ("F", path, bytes, mtime|None)


def T(sec):
    return datetime.datetime.fromtimestamp(sec, datetime.timezone.utc)


def tree_json(tree):
    return [[e[0], e[1]] + ([e[2].decode("latin-1"), e[3]] if e[0] == "F" else []) for e in tree]


def tree_unjson(j):
    return [tuple([e[0], e[1]] + ([e[2].encode("latin-1"), e[3]] if e[0] == "F" else [])) for e in j]


def enc_tree(tree):
    parts = []
    for e in tree:
        if e[0] == "D":
            parts.append("D" + hx(e[1]))
        else:
            parts.append("F%s:%s:%s" % (hx(e[1]), hx(e[2]), "-" if e[3] is None else e[3]))
    return "T" + ";".join(parts)


def dec_tree(s):
    assert s.startswith("T"), s
    out = []
    if s == "T":
        return out
    for e in s[1:].split(";"):
        if e[0] == "D":
            out.append(("D", vlib.unhx(e[1:])))
        else:
            ph, bh, th = e[1:].split(":")
            out.append(("F", vlib.unhx(ph), vlib.unhxb(bh), None if th == "-" else int(th)))
    return out


def canon(tree):
    return sorted(tree)


def tree_maps(tree):
    files, dirs = {}, set()
    for e in tree:
        if e[0] == "F":
            files[e[1]] = (e[2], e[3])
        else:
            dirs.add(e[1])
    return files, dirs


def from_maps(files, dirs):
    return canon([("D", d) for d in dirs] + [("F", p, b, m) for p, (b, m) in files.items()])


def join(a, b):
    return (a + "/" + b) if a and b else (a or b)


def under(p, root):
    return root == "" or p == root or p.startswith(root + "/")


# ----------------------------------------------------------------------------- backends


def _notimes_class():
    from fs.info import Info
    from fs.wrapfs import WrapFS

    class NoTimes(WrapFS):
        """a filesystem that cannot report modification times (details.modified missing)"""

        @staticmethod
        def _strip(info):
            raw = {k: dict(v) for k, v in info.raw.items()}
            if "details" in raw:
                raw["details"].pop("modified", None)
                raw["details"].pop("metadata_changed", None)
            return Info(raw)

        def getinfo(self, path, namespaces=None):
            return self._strip(super(NoTimes, self).getinfo(path, namespaces=namespaces))

        def scandir(self, path, namespaces=None, page=None):
            for info in super(NoTimes, self).scandir(path, namespaces=namespaces, page=page):
                yield self._strip(info)

    return NoTimes


_NT = None


def make_backend(kind):
    """returns (H.Backend, reports_times)"""
    global _NT
    if kind.startswith("notimes-"):
        if _NT is None:
            _NT = _notimes_class()
        inner = H.make_backend(kind[len("notimes-"):])
        b = H.Backend(kind, _NT(inner.fs), cleanup=inner.close)
        return b, False
    return H.make_backend(kind), True


def build(kind, tree):
    b, times = make_backend(kind)
    under_fs = b.fs
    for e in tree:
        if e[0] == "D":
            under_fs.makedirs(e[1], recreate=True)
        else:
            under_fs.writebytes(e[1], e[2])
            if e[3] is not None:
                under_fs.settimes(e[1], modified=T(e[3]))
    return b, times


def snapshot(f, t0):
    """[("D", path) | ("F", path, bytes, mtime)], sorted; mtimes not set explicitly become NOW.
    Does not use fs.walk.  None when the filesystem cannot be listed."""
    out = []

    def rec(path, depth):
        if depth > 12 or len(out) > 4000:
            raise RuntimeError("snapshot bound")
        for name in f.listdir(path or "/"):
            p = join(path, name)
            info = f.getinfo(p, namespaces=["details"])
            if info.is_dir:
                out.append(("D", p))
                rec(p, depth + 1)
            else:
                m = info.modified
                if m is not None:
                    m = int(m.timestamp())
                    if m >= t0:
                        m = NOW
                out.append(("F", p, f.readbytes(p), m))

    try:
        H.with_watchdog(lambda: rec("", 0), 20)
    except Exception:
        return None
    return canon(out)


def hide_times(tree):
    return [e if e[0] == "D" else (e[0], e[1], e[2], None) for e in tree]


# ----------------------------------------------------------------------------- walkers

WALKERS = {
    "none": {},
    "filter-a": {"filter": ["a"]},
    "filter-txt": {"filter": ["*.txt"]},
    "exclude-txt": {"exclude": ["*.txt"]},
    "exclude-dirs-b": {"exclude_dirs": ["b"]},
    "exclude-dirs-a": {"exclude_dirs": ["a", "e*"]},
    "filter-dirs-a": {"filter_dirs": ["a"]},
    "depth0": {"max_depth": 0},
    "depth1": {"max_depth": 1},
    "depth2": {"max_depth": 2},
    "txt-depth2": {"filter": ["*.txt", "a"], "max_depth": 2},
}


def make_walker(spec):
    from fs.walk import Walker

    return Walker(**spec) if spec else None


def walker_args(spec):
    def pats(k):
        v = spec.get(k)
        return "N" if v is None else vlib.hxlist(v)

    md = spec.get("max_depth")
    return "%s %s %s %s %s" % (pats("filter"), pats("exclude"), pats("filter_dirs"), pats("exclude_dirs"),
                               "-" if md is None else md)


def _match(pats, name):
    """documented: 'match at least one of these patterns' (an empty list matches everything)"""
    return (not pats) or any(fnmatch.fnmatchcase(name, p) for p in pats)


def select(src_tree, root, spec):
    """the oracle's own reading of the walker: (dirs yielded, files yielded, dirs scanned), all
    relative to `root`; None when `root` is not a directory of the source"""
    files, dirs = tree_maps(src_tree)
    if root and root not in dirs:
        return None
    children = {}
    for p in list(files) + list(dirs):
        parent, _, name = p.rpartition("/")
        children.setdefault(parent, []).append(name)
    sd, sf, scanned = set(), {}, {""}
    md = spec.get("max_depth")

    def rec(rel, depth):
        for name in children.get(join(root, rel), []):
            p = join(root, join(rel, name))
            r = join(rel, name)
            if p in dirs:
                if spec.get("exclude_dirs") is not None and _match(spec["exclude_dirs"], name):
                    continue
                if spec.get("filter_dirs") is not None and not _match(spec["filter_dirs"], name):
                    continue
                sd.add(r)
                if md is None or depth + 1 < md:
                    scanned.add(r)
                    rec(r, depth + 1)
            else:
                if spec.get("exclude") is not None and _match(spec["exclude"], name):
                    continue
                if spec.get("filter") is not None and not _match(spec["filter"], name):
                    continue
                sf[r] = files[p]

    rec("", 0)
    return sd, sf, scanned


# ----------------------------------------------------------------------------- the documented rules


def documented_condition(cond, src_m, dst):
    """dst = None (nothing at the destination path) | ("F", mtime) | ("D", mtime).  Returns True/False or
    'ValueError'.  From the docstring of copy_file_if."""
    if cond == "always":
        return True
    if cond in ("newer", "older"):
        if dst is None:
            return True
        dm = dst[1]
        if src_m is None or dm is None:
            return True
        return src_m > dm if cond == "newer" else src_m < dm
    if cond == "exists":
        return dst is not None
    if cond == "not_exists":
        return dst is None
    return "ValueError"


def stamp(preserve, src_m, dst_times):
    if not dst_times:
        return None
    return src_m if (preserve and src_m is not None) else NOW


def chain(path):
    out, cur = [], ""
    for c in [c for c in path.split("/") if c]:
        cur = join(cur, c)
        out.append(cur)
    return out


def oracle_copydir(case, src_times, dst_times):
    """('ok', expected destination tree, expected on_copy set) | ('fail', cause) | ('either', cause)"""
    src, dst = case["src"], case["dst"]
    sroot, droot = case["sroot"], case["droot"]
    dfiles, ddirs = tree_maps(dst)
    if not dst_times:
        dfiles = {p: (b, None) for p, (b, m) in dfiles.items()}
    for d in chain(droot):
        if d in dfiles:
            return ("fail", "destination root is below / at a file")
    sel = select(src, sroot, case["walker"])
    if sel is None:
        return ("fail", "source root is not a directory")
    sd, sf, _ = sel
    files, dirs = dict(dfiles), set(ddirs) | set(chain(droot))
    for r in sd:
        p = join(droot, r)
        if p in dfiles:
            return ("fail", "a file is in the way of directory %r" % p)
        dirs.add(p)
    copied = set()
    for r, (b, m) in sf.items():
        p = join(droot, r)
        sm = m if src_times else None
        at = ("F", dfiles[p][1]) if p in dfiles else (("D", NOW if dst_times else None) if p in dirs else None)
        want = documented_condition(case["cond"], sm, at)
        if want == "ValueError":
            return ("fail", "unknown condition")
        if at is not None and at[0] == "D":
            if want:
                return ("fail", "a directory is in the way of file %r" % p)
            continue
        if want:
            files[p] = (b, stamp(case["preserve"], sm, dst_times))
            copied.add(r)
    return ("ok", from_maps(files, dirs), copied)


def mirror_compare(sb, sm, db, dm):
    """the module's rule for copy_if_newer: copy when sizes differ, a time is unknown, or src is newer"""
    return len(sb) != len(db) or sm is None or dm is None or sm > dm


def oracle_mirror(case, src_times, dst_times, dst=None):
    """expected destination after mirror: the replica of what the walker selects; sub-trees the
    walker does not scan (max_depth) are left alone.  Returns (tree, copied set)."""
    src = case["src"]
    dst = case["dst"] if dst is None else dst
    dfiles, ddirs = tree_maps(dst)
    if not dst_times:
        dfiles = {p: (b, None) for p, (b, m) in dfiles.items()}
    sd, sf, scanned = select(src, "", case["walker"])
    files, dirs, copied = {}, set(), set()
    for r, (b, m) in sf.items():
        sm = m if src_times else None
        if r in dfiles and case["copy_if_newer"] and not mirror_compare(b, sm, dfiles[r][0], dfiles[r][1]):
            files[r] = dfiles[r]
        else:
            files[r] = (b, stamp(case["preserve"], sm, dst_times))
            copied.add(r)
    for r in sd:
        dirs.add(r)
        if r not in scanned and r in ddirs:
            for p, v in dfiles.items():
                if under(p, r) and p != r:
                    files[p] = v
            for p in ddirs:
                if under(p, r):
                    dirs.add(p)
    return from_maps(files, dirs), copied


def oracle_fileif(case, src_times, dst_times):
    sfiles, sdirs = tree_maps(case["src"])
    dfiles, ddirs = tree_maps(case["dst"])
    if not dst_times:
        dfiles = {p: (b, None) for p, (b, m) in dfiles.items()}
    sp, dp = case["sp"], case["dp"]
    at = ("F", dfiles[dp][1]) if dp in dfiles else (("D", NOW if dst_times else None) if (dp in ddirs or dp == "") else None)
    sm = None
    if sp in sfiles:
        sm = sfiles[sp][1] if src_times else None
    elif sp in sdirs or sp == "":
        sm = NOW if src_times else None
    want = documented_condition(case["cond"], sm, at) if (sp in sfiles or sp in sdirs or sp == "") else (
        True if case["cond"] in ("always", "newer", "older") else documented_condition(case["cond"], None, at))
    if want == "ValueError":
        return ("fail", "unknown condition")
    if not want:
        return ("ok", from_maps(dfiles, ddirs), False)
    if sp not in sfiles:
        return ("fail", "source is not a file")
    parent = dp.rpartition("/")[0]
    if dp == "" or (at is not None and at[0] == "D") or (parent and parent not in ddirs):
        return ("fail", "destination is a directory or its parent is missing")
    files = dict(dfiles)
    files[dp] = (sfiles[sp][0], stamp(case["preserve"], sm, dst_times))
    return ("ok", from_maps(files, ddirs), True)


# ----------------------------------------------------------------------------- running the real code


class CopyLog:
    """records every Copier.copy call (the proxy for 'a file was copied' in mirror)"""

    def __init__(self):
        self.calls = []

    def __enter__(self):
        import fs._bulk as B

        self._orig = B.Copier.copy
        log = self.calls
        orig = self._orig

        def copy(self_, src_fs, src_path, dst_fs, dst_path, preserve_time=False):
            log.append(dst_path)
            return orig(self_, src_fs, src_path, dst_fs, dst_path, preserve_time)

        B.Copier.copy = copy
        return self

    def __exit__(self, *a):
        import fs._bulk as B

        B.Copier.copy = self._orig


def rel(path, root):
    p = path.strip("/")
    root = root.strip("/")
    if root:
        assert p == root or p.startswith(root + "/"), (p, root)
        p = p[len(root):].strip("/")
    return p


def run_real(case):
    """executes the case on the real code; returns the outcome dict"""
    import fs.copy as C
    import fs.mirror as M

    sb, src_times = build(case["sk"], case["src"])
    db, dst_times = build(case["dk"], case["dst"])
    out = {"src_times": src_times, "dst_times": dst_times}
    try:
        t0 = int(time.time()) - 5
        pre_dst = snapshot(db.fs, t0)
        pre_src = snapshot(sb.fs, t0)
        out["pre_dst"], out["pre_src"] = pre_dst, pre_src
        walker = make_walker(case.get("walker") or {})
        op = case["op"]
        log = []

        def on_copy(sfs, spath, dfs, dpath):
            log.append((spath, dpath))

        def go():
            if op == "copydir":
                kw = dict(walker=walker, on_copy=on_copy, workers=case["workers"], preserve_time=case["preserve"])
                api = case["api"]
                if api == "copy_fs":
                    return C.copy_fs(sb.fs, db.fs, **kw)
                if api == "copy_fs_if":
                    return C.copy_fs_if(sb.fs, db.fs, case["cond"], **kw)
                if api == "copy_dir":
                    return C.copy_dir(sb.fs, case["sroot_arg"], db.fs, case["droot_arg"], **kw)
                return C.copy_dir_if(sb.fs, case["sroot_arg"], db.fs, case["droot_arg"], case["cond"], **kw)
            if op == "fileif":
                if case["api"] == "copy_file":
                    C.copy_file(sb.fs, case["sp"], db.fs, case["dp"], preserve_time=case["preserve"])
                    return True
                return C.copy_file_if(sb.fs, case["sp"], db.fs, case["dp"], case["cond"], preserve_time=case["preserve"])
            if op == "mirror":
                with CopyLog() as cl:
                    M.mirror(sb.fs, db.fs, walker=walker, copy_if_newer=case["copy_if_newer"],
                             workers=case["workers"], preserve_time=case["preserve"])
                return cl.calls
            raise AssertionError(op)

        try:
            val = H.with_watchdog(go, 30)
            out["res"] = ("ok", val)
        except BaseException as e:  # noqa
            if isinstance(e, (KeyboardInterrupt, SystemExit)):
                raise
            out["res"] = ("err", H.exc_name(e), repr(e)[:200])
        out["post_dst"] = snapshot(db.fs, t0)
        out["post_src"] = snapshot(sb.fs, t0)
        out["on_copy"] = sorted(set(rel(s, case.get("sroot", "")) for s, _ in log))
        out["on_copy_consistent"] = all(rel(s, case.get("sroot", "")) == rel(d, case.get("droot", "")) for s, d in log) \
            and len(log) == len(set(log))
        if op == "mirror" and out["res"][0] == "ok":
            out["copied1"] = sorted(rel(p, "") for p in out["res"][1])
            # second mirror
            with CopyLog() as cl:
                try:
                    H.with_watchdog(lambda: M.mirror(sb.fs, db.fs, walker=walker, copy_if_newer=case["copy_if_newer"],
                                                     workers=case["workers"], preserve_time=case["preserve"]), 30)
                    out["res2"] = ("ok",)
                except BaseException as e:  # noqa
                    if isinstance(e, (KeyboardInterrupt, SystemExit)):
                        raise
                    out["res2"] = ("err", H.exc_name(e), repr(e)[:200])
            out["copied2"] = sorted(rel(p, "") for p in cl.calls)
            out["post_dst2"] = snapshot(db.fs, t0)
        if case["dk"].startswith("sub-") or case["sk"].startswith("sub-"):
            out["canary"] = all(i.readbytes("outside") == b"canary" for bk in (sb, db) for i in bk.inner
                                if bk.kind.startswith("sub-"))
    finally:
        sb.close()
        db.close()
    return out


# ----------------------------------------------------------------------------- model requests


def model_request(case, out, dst=None):
    src = out["pre_src"]
    dst = out["pre_dst"] if dst is None else dst
    dt = "1" if out["dst_times"] else "0"
    st = "1" if out["src_times"] else "0"
    pt = "1" if case["preserve"] else "0"
    if case["op"] == "copydir":
        return "copy.dirif %s %s %s %s %s %s %s %d %s" % (
            enc_tree(src), enc_tree(dst), hx(case["cond"]), pt, walker_args(case["walker"]),
            hx(case["sroot"]), hx(case["droot"]), NOW, dt)
    if case["op"] == "fileif":
        return "copy.fileif %s %s %s %s %s %s %d %s %s" % (
            enc_tree(src), hx(case["sp"]), enc_tree(dst), hx(case["dp"]), hx(case["cond"]), pt, NOW, st, dt)
    if case["op"] == "mirror":
        return "copy.mirror %s %s %s %s %s %d %s" % (
            enc_tree(src), enc_tree(dst), "1" if case["copy_if_newer"] else "0", pt, walker_args(case["walker"]), NOW, dt)
    raise AssertionError(case["op"])


def parse_model(case, line):
    if case["op"] == "mirror":
        tree, copied = line.split(" | ")
        return ("ok", canon(dec_tree(tree)), sorted(vlib.unhxlist(copied)))
    if line.startswith("err "):
        return ("err", line[4:])
    assert line.startswith("ok "), line
    tree, x = line[3:].split(" | ")
    if case["op"] == "fileif":
        return ("ok", canon(dec_tree(tree)), x == "1")
    return ("ok", canon(dec_tree(tree)), sorted(vlib.unhxlist(x)))


# ----------------------------------------------------------------------------- judging


def case_json(case, out=None, model=None):
    c = dict(case)
    c["src"] = tree_json(case["src"])
    c["dst"] = tree_json(case["dst"])
    if out is not None:
        c["impl"] = {
            "res": [str(x) for x in out["res"][:2]],
            "post_dst": None if out.get("post_dst") is None else tree_json(out["post_dst"]),
            "on_copy": out.get("on_copy"),
        }
    if model is not None:
        c["model"] = [model[0]] + ([tree_json(model[1]), model[2]] if model[0] == "ok" else [model[1]])
    return c


def frame_on_failure(case, out, selected_paths):
    """after a failed call: every destination file the call was not asked to write is intact and every
    destination directory is still a directory"""
    bad = []
    if out["post_dst"] is None:
        return ["destination cannot be listed after the failed call"]
    f0, d0 = tree_maps(out["pre_dst"])
    f1, d1 = tree_maps(out["post_dst"])
    for p, v in f0.items():
        if p in selected_paths:
            continue
        if f1.get(p) != v:
            bad.append("bystander file %r changed: %r -> %r" % (p, v, f1.get(p)))
    for p in d0:
        if p not in d1:
            bad.append("directory %r disappeared" % p)
    return bad


def describe(case):
    return "%s[%s->%s] %s" % (
        case.get("api", case["op"]), case["sk"], case["dk"],
        {k: case[k] for k in ("cond", "walker", "preserve", "workers", "copy_if_newer", "sroot", "droot", "sp", "dp")
         if k in case and case[k] not in ({}, "", None)})


def judge(rep, case, out, model, model2=None):
    rep.evaluations += 1
    op = case["op"]
    ok = out["res"][0] == "ok"
    rep.count("%s:%s" % (case.get("api", op), "ok" if ok else out["res"][1]))
    rep.count("backend:%s->%s" % (case["sk"], case["dk"]))
    rep.nontrivial(op, case.get("api"), case["sk"], case["dk"], enc_tree(case["src"]), enc_tree(case["dst"]),
                   json.dumps(case.get("walker"), sort_keys=True), case.get("cond"), case["preserve"],
                   case.get("copy_if_newer"), case.get("sroot"), case.get("droot"), case.get("sp"), case.get("dp"),
                   case["workers"])
    oracle_bad = []      # the property fails on the real code
    corr_bad = []        # model and real code disagree
    post = out["post_dst"]

    if out["pre_src"] is None or out["pre_dst"] is None:
        return
    if out["post_src"] != out["pre_src"]:
        oracle_bad.append("the source filesystem changed")
    if out.get("canary") is False:
        oracle_bad.append("a file outside the SubFS changed")
    if not ok and out["res"][1].startswith("Leak"):
        oracle_bad.append("the call leaked %s" % out["res"][1])

    if op == "copydir":
        exp = oracle_copydir(case, out["src_times"], out["dst_times"])
        rep.count("copydir-oracle:" + exp[0])
        sel = select(case["src"], case["sroot"], case["walker"])
        touched = set(join(case["droot"], r) for r in (sel[1] if sel else {}))
        if ok:
            if exp[0] == "fail":
                oracle_bad.append("the call returned although %s" % exp[1])
            else:
                if not same_tree(exp[1], post):
                    oracle_bad.append("destination differs from the replica the property describes: got %r want %r"
                                      % (brief(post), brief(exp[1])))
                if sorted(exp[2]) != out["on_copy"]:
                    oracle_bad.append("on_copy reported %r, the condition selects %r" % (out["on_copy"], sorted(exp[2])))
                if not out["on_copy_consistent"]:
                    oracle_bad.append("on_copy paths inconsistent or repeated")
        else:
            if exp[0] == "ok":
                oracle_bad.append("the call raised %s although nothing is in the way" % out["res"][1])
            oracle_bad += frame_on_failure(case, out, touched)
        if model[0] == "ok" and ok:
            if not same_tree(model[1], post):
                corr_bad.append("destination tree: model %r, code %r" % (brief(model[1]), brief(post)))
            if model[2] != out["on_copy"]:
                corr_bad.append("copied set: model %r, on_copy %r" % (model[2], out["on_copy"]))
        elif (model[0] == "ok") != ok:
            corr_bad.append("verdict: model %r, code %r" % (model[:1] if model[0] == "ok" else model, out["res"][:2]))
        elif model[0] == "err" and model[1] == "ValueError" and out["res"][1] != "ValueError":
            corr_bad.append("error class: model ValueError, code %s" % out["res"][1])

    elif op == "fileif":
        exp = oracle_fileif(case, out["src_times"], out["dst_times"])
        rep.count("fileif-oracle:" + exp[0])
        if ok:
            if exp[0] == "fail":
                oracle_bad.append("the call returned although %s" % exp[1])
            else:
                if not same_tree(exp[1], post):
                    oracle_bad.append("destination: got %r want %r" % (brief(post), brief(exp[1])))
                if bool(out["res"][1]) != exp[2]:
                    oracle_bad.append("returned %r but %s" % (out["res"][1], "copied" if exp[2] else "did not copy"))
        else:
            if exp[0] == "ok":
                oracle_bad.append("the call raised %s although nothing is in the way" % out["res"][1])
            oracle_bad += frame_on_failure(case, out, {case["dp"]})
        if model[0] == "ok" and ok:
            if not same_tree(model[1], post):
                corr_bad.append("destination tree: model %r, code %r" % (brief(model[1]), brief(post)))
            if model[2] != bool(out["res"][1]):
                corr_bad.append("return value: model %r, code %r" % (model[2], out["res"][1]))
        elif (model[0] == "ok") != ok:
            corr_bad.append("verdict: model %r, code %r" % (model[:1] if model[0] == "ok" else model, out["res"][:2]))
        elif model[0] == "err" and model[1] == "ValueError" and out["res"][1] != "ValueError":
            corr_bad.append("error class: model ValueError, code %s" % out["res"][1])

    elif op == "mirror":
        if not ok:
            oracle_bad.append("mirror raised %s" % (out["res"][1:],))
            corr_bad.append("verdict: model ok, code %r" % (out["res"][:2],))
        else:
            want, want_copied = oracle_mirror(case, out["src_times"], out["dst_times"])
            if not same_tree(want, post):
                oracle_bad.append("destination is not the replica: got %r want %r" % (brief(post), brief(want)))
            if not case["walker"] and not case["copy_if_newer"]:
                # the property text, literally: paths, types and bytes of dst == src
                if [e[:3] for e in post] != [e[:3] for e in canon(case["src"])]:
                    oracle_bad.append("destination is not an exact replica of the source")
                if case["preserve"] and out["dst_times"] and out["src_times"] and post != canon(case["src"]):
                    oracle_bad.append("modification times not preserved")
            if out["copied1"] != sorted(want_copied):
                oracle_bad.append("files copied %r, the rule selects %r" % (out["copied1"], sorted(want_copied)))
            # second mirror changes nothing, and copies exactly what the rule selects from the state
            # the first one left (nothing, when copy_if_newer and every time is known and current)
            if out["res2"][0] != "ok":
                oracle_bad.append("second mirror raised %s" % (out["res2"][1:],))
            else:
                if out["post_dst2"] != post:
                    oracle_bad.append("second mirror changed the destination: %r -> %r" % (brief(post), brief(out["post_dst2"])))
                _, want_copied2 = oracle_mirror(case, out["src_times"], out["dst_times"], dst=post)
                if out["copied2"] != sorted(want_copied2):
                    oracle_bad.append("second mirror copied %r, the rule selects %r" % (out["copied2"], sorted(want_copied2)))
                if case["copy_if_newer"] and not out["copied2"]:
                    rep.count("second-mirror-copied-nothing")
            if not same_tree(model[1], post):
                corr_bad.append("destination tree: model %r, code %r" % (brief(model[1]), brief(post)))
            if model[2] != out["copied1"]:
                corr_bad.append("copied set: model %r, code %r" % (model[2], out["copied1"]))
            if model2 is not None and out["res2"][0] == "ok":
                rep.evaluations += 1
                if not same_tree(model2[1], out["post_dst2"]):
                    corr_bad.append("second mirror, destination tree: model %r, code %r" % (brief(model2[1]), brief(out["post_dst2"])))
                if model2[2] != out["copied2"]:
                    corr_bad.append("second mirror, copied set: model %r, code %r" % (model2[2], out["copied2"]))

    if oracle_bad and len(rep.violations) < 8:
        rep.violation(case_json(case, out, model), "%s — %s" % (describe(case), "; ".join(oracle_bad)[:500]),
                      found_input=True,
                      signature="C19/%s/%s" % (case.get("api", op), oracle_bad[0].split(":")[0][:40]))
    elif corr_bad and len(rep.violations) < 8:
        rep.disagreements_checked += 1
        rep.violation(case_json(case, out, model),
                      "correspondence model vs fs.%s broke on %s — %s; the property oracle accepts what the code did"
                      % ("mirror" if op == "mirror" else "copy", describe(case), "; ".join(corr_bad)[:400]),
                      found_input=False, signature="C19/%s/correspondence" % case.get("api", op))


def same_tree(want, got):
    """equal paths, types, bytes and explicitly set times; a time the call itself stamped (NOW in the
    prediction) is not compared — e.g. MemoryFS keeps the old time when an empty file is written over
    an existing one"""
    if want is None or got is None or len(want) != len(got):
        return False
    for w, g in zip(want, got):
        if w[:3] != g[:3]:
            return False
        if w[0] == "F" and w[3] != NOW and w[3] != g[3]:
            return False
    return True


def brief(tree):
    if tree is None:
        return None
    return [(e[1] + "/") if e[0] == "D" else "%s=%s@%s" % (e[1], e[2].decode("latin-1"), e[3]) for e in tree][:14]


# ----------------------------------------------------------------------------- generators


def forests(budget, names=("a", "b")):
    """all forests with at most `budget` nodes over `names` (unique per directory); a forest is a
    tuple of (name, None | forest)"""
    def rec(ns, budget):
        if not ns:
            return [((), 0)]
        out = []
        for rest, used in rec(ns[1:], budget):
            out.append((rest, used))
            if used + 1 <= budget:
                out.append((((ns[0], None),) + rest, used + 1))
                for sub, u2 in rec(names, budget - used - 1):
                    out.append((((ns[0], sub),) + rest, used + 1 + u2))
        return out

    seen, res = set(), []
    for f, _ in rec(tuple(names), budget):
        if f not in seen:
            seen.add(f)
            res.append(f)
    return res


def forest_tree(f, content, mtime, pre=""):
    out = []
    for name, sub in f:
        p = join(pre, name)
        if sub is None:
            out.append(("F", p, content(p), mtime))
        else:
            out.append(("D", p))
            out += forest_tree(sub, content, mtime, p)
    return out


def random_tree(rng, names, max_nodes, depth=3):
    out = []

    def rec(pre, d, budget):
        ns = [n for n in names if rng.random() < 0.55]
        for n in ns:
            if budget[0] <= 0:
                return
            budget[0] -= 1
            p = join(pre, n)
            if d < depth and not n.endswith(".txt") and rng.random() < 0.5:
                out.append(("D", p))
                rec(p, d + 1, budget)
            else:
                # (0 = the epoch itself: a legal, falsy timestamp)
                out.append(("F", p, rng.choice([b"", b"x", b"yy", b"zz", b"hello", bytes([rng.randrange(256)]) * 2]),
                            rng.choice([0, 1000, 2000, 3000])))

    rec("", 0, [max_nodes])
    return out


def derive_dst(rng, src, names):
    """a destination related to the source: shared entries (same / different content, older / equal /
    newer), flipped types, extras"""
    out = []
    dropped = []
    for e in src:
        if any(under(e[1], d) for d in dropped):
            continue
        r = rng.random()
        if r < 0.35:
            dropped.append(e[1])
            continue
        if r < 0.50:                         # flipped type
            dropped.append(e[1])
            if e[0] == "D":
                out.append(("F", e[1], b"was-dir", rng.choice([1000, 2000, 3000])))
            else:
                out.append(("D", e[1]))
                if rng.random() < 0.5:
                    out.append(("F", e[1] + "/inner", b"in", 2000))
            continue
        if e[0] == "D":
            out.append(e)
        else:
            b = e[2] if rng.random() < 0.4 else rng.choice([b"q" * len(e[2]), e[2] + b"+", b""])
            out.append(("F", e[1], b, rng.choice([1000, 2000, 3000])))
    dirs = [""] + [e[1] for e in out if e[0] == "D"]
    have = set(e[1] for e in out)
    for _ in range(rng.randint(0, 3)):
        p = join(rng.choice(dirs), rng.choice(names + ["extra", "x.txt"]))
        if p in have:
            continue
        have.add(p)
        if rng.random() < 0.3:
            out.append(("D", p))
            dirs.append(p)
        else:
            out.append(("F", p, b"extra", rng.choice([1000, 2000, 3000])))
    out.sort(key=lambda e: (e[1].count("/"), e[1]))
    # parents first
    return sorted(out, key=lambda e: e[1].split("/"))


def api_for(cond, rooted, i):
    if rooted:
        return "copy_dir" if (cond == "always" and i % 2 == 0) else "copy_dir_if"
    return "copy_fs" if (cond == "always" and i % 2 == 0) else "copy_fs_if"


def copydir_case(sk, dk, src, dst, walker, cond, preserve, workers, i, sroot="", droot="", spell=None):
    rooted = bool(sroot or droot)
    return {"op": "copydir", "api": api_for(cond, rooted, i), "sk": sk, "dk": dk, "src": src, "dst": dst,
            "walker": WALKERS[walker], "cond": cond, "preserve": preserve, "workers": workers,
            "sroot": sroot, "droot": droot,
            "sroot_arg": (spell or (lambda p: p))(sroot or "/"), "droot_arg": (spell or (lambda p: p))(droot or "/")}


def mirror_case(sk, dk, src, dst, walker, cin, preserve, workers):
    return {"op": "mirror", "api": "mirror", "sk": sk, "dk": dk, "src": src, "dst": dst, "walker": WALKERS[walker],
            "copy_if_newer": cin, "preserve": preserve, "workers": workers}


def fileif_case(sk, dk, src, dst, sp, dp, cond, preserve, i):
    return {"op": "fileif", "api": "copy_file" if (cond == "always" and i % 2) else "copy_file_if", "sk": sk, "dk": dk,
            "src": src, "dst": dst, "sp": sp, "dp": dp, "cond": cond, "preserve": preserve, "workers": 0}


def small_pairs():
    fs3 = forests(3)
    return list(itertools.product(fs3, fs3))


def directed_cases():
    """one minimal case per past failure (runs first, does not depend on the seed)"""
    cases = []
    # fixed finding (/repo c47cb90): a destination file in the way of a source directory that the walker
    # yields but does not scan — the directory must exist after the first mirror, the second changes nothing
    src = [("D", "a"), ("F", "a/b", b"1", 2000)]
    for dk in ("mem", "os", "sub-mem"):
        for cin in (False, True):
            for w in ("depth1", "depth0"):
                cases.append(mirror_case("mem", dk, src, [("F", "a", b"file in the way", 1000)], w, cin, False, 0))
    cases.append(mirror_case("mem", "mem", [("D", "a"), ("D", "a/q"), ("F", "a/q/b", b"1", 2000)],
                             [("D", "a"), ("F", "a/q", b"x", 3000), ("F", "a/keep", b"k", 1000)], "depth2", False, True, 0))
    return cases


def gen_cases(tier, seed, deep):
    rng = vlib.rng_for(seed, "c19")
    quick = tier == "quick"
    cases = directed_cases()
    pairs = small_pairs()
    small_walkers = ["none", "filter-a", "exclude-dirs-b", "depth1"]
    rels = ["older", "equal", "newer"]
    backends = ["mem", "os", "sub-mem", "sub-os"]
    bpairs = [(a, b) for a in backends for b in backends]

    def src_of(f):
        return forest_tree(f, lambda p: b"s:" + p.encode(), 2000)

    def dst_of(f, relname, same_size):
        return forest_tree(f, (lambda p: b"d:" + p.encode()) if same_size else (lambda p: b"dd:" + p.encode()),
                           TIMES[relname])

    # ---- (1) exhaustive small scope on mem->mem: every pair x every condition (copy), x both
    #          copy_if_newer (mirror); walker / time relation / preserve / size rotate with the index
    #          (thorough: every walker x every time relation)
    i = 0
    for (fa, fb) in pairs:
        i += 1
        if quick:
            combos = [(small_walkers[(i + j) % 4], rels[(i // 4 + j) % 3], bool((i // 2 + j) % 2), bool((i + j) % 3))
                      for j in range(5)]
            for j, cond in enumerate(CONDS):
                w, r, pt, same = combos[j]
                cases.append(copydir_case("mem", "mem", src_of(fa), dst_of(fb, r, same), w, cond, pt, 0, i + j))
            for j, cin in enumerate([False, True]):
                w, r, pt, same = combos[j + 1]
                cases.append(mirror_case("mem", "mem", src_of(fa), dst_of(fb, r, same), w, cin, pt, 0))
        else:
            n = 0
            for w in small_walkers:
                for r in rels:
                    n += 1
                    pt = bool((i + n) % 2)
                    same = bool((i + n // 2) % 2)
                    for j, cond in enumerate(CONDS):
                        cases.append(copydir_case("mem", "mem", src_of(fa), dst_of(fb, r, same), w, cond, pt, 0, i + j))
                    for cin in (False, True):
                        cases.append(mirror_case("mem", "mem", src_of(fa), dst_of(fb, r, not same), w, cin, not pt, 0))

    # ---- (2) the same small pairs spread over the other backend pairs (sampled), workers 0/4
    n2 = 600 if quick else 6000
    extra_dst = [] if quick else ["zip-w", "notimes-mem"]
    for n in range(n2):
        fa, fb = rng.choice(pairs)
        sk, dk = rng.choice(bpairs)
        if extra_dst and rng.random() < 0.25:
            dk = rng.choice(extra_dst)
        if rng.random() < 0.12:
            sk = "notimes-mem"
        if rng.random() < 0.10:
            dk = "notimes-mem"
        w = rng.choice(small_walkers + ["depth0"])
        r = rng.choice(rels)
        pt = rng.random() < 0.5
        same = rng.random() < 0.6
        workers = 4 if rng.random() < 0.12 else 0
        if rng.random() < 0.6:
            cases.append(copydir_case(sk, dk, src_of(fa), dst_of(fb, r, same), w, rng.choice(CONDS), pt, workers, n))
        else:
            cases.append(mirror_case(sk, dk, src_of(fa), dst_of(fb, r, same), w, rng.random() < 0.5, pt, workers))

    # ---- (3) random larger pairs x every walker x roots x unknown conditions
    n3 = 500 if quick else 6000
    if deep:
        n3 *= 3
    names = ["a", "b", "c.txt", "d.txt", "e"]
    spells = [lambda p: p, lambda p: p, lambda p: "/" + p.strip("/"), lambda p: p.strip("/") + "/" if p.strip("/") else "/",
              lambda p: "./" + p.strip("/")]
    for n in range(n3):
        src = random_tree(rng, names, rng.randint(0, 10))
        dst = derive_dst(rng, src, names) if rng.random() < 0.8 else random_tree(rng, names, rng.randint(0, 8))
        sk, dk = rng.choice(bpairs) if rng.random() < 0.5 else ("mem", "mem")
        if extra_dst and rng.random() < 0.15:
            dk = rng.choice(extra_dst)
        if rng.random() < 0.08:
            sk = "notimes-mem"
        if rng.random() < 0.08:
            dk = "notimes-mem"
        w = rng.choice(list(WALKERS))
        pt = rng.random() < 0.5
        workers = 4 if rng.random() < 0.1 else 0
        r = rng.random()
        if r < 0.55:
            cond = rng.choice(CONDS) if rng.random() < 0.93 else rng.choice(["", "Always", "newest", "not exists"])
            sroot = droot = ""
            if rng.random() < 0.35:
                sdirs = [e[1] for e in src if e[0] == "D"]
                ddirs = [e[1] for e in dst if e[0] == "D"]
                sroot = rng.choice(sdirs + ["", "missing"] + [e[1] for e in src if e[0] == "F"][:1])
                droot = rng.choice(ddirs + ["", "new", "new/deeper"] + [e[1] for e in dst if e[0] == "F"][:1])
            cases.append(copydir_case(sk, dk, src, dst, w, cond, pt, workers, n, sroot, droot, rng.choice(spells)))
        else:
            cases.append(mirror_case(sk, dk, src, dst, w, rng.random() < 0.5, pt, workers))

    # ---- (4) copy_file_if / copy_file: every kind of source path x destination path x condition
    n4 = 0
    small = [f for f in forests(2)]
    for fa in small:
        for fb in small:
            src = src_of(fa)
            for relname in rels:
                dst = dst_of(fb, relname, True)
                for sp in ["a", "b", "a/a", ""]:
                    for dp in ["a", "b", "a/b", "b/a/a", ""]:
                        n4 += 1
                        if quick and (n4 % 4):
                            continue
                        cond = (CONDS + ["bogus"])[n4 // 4 % 6] if quick else None
                        sdirs_ = set(e[1] for e in src if e[0] == "D") | {""}
                        ddirs_ = set(e[1] for e in dst if e[0] == "D") | {""}
                        for c in ([cond] if cond else CONDS + ["bogus"]):
                            if c in ("newer", "older") and sp in sdirs_ and dp in ddirs_:
                                continue        # would compare two directory times nobody set
                            sk, dk = ("mem", "mem") if n4 % 5 else rng.choice(bpairs)
                            if n4 % 37 == 0:
                                sk = "notimes-mem"
                            if n4 % 41 == 0:
                                dk = "notimes-mem"
                            cases.append(fileif_case(sk, dk, src, dst, sp, dp, c, bool(n4 % 2), n4))
    return cases


# ----------------------------------------------------------------------------- the condition table


class _StubFS:
    """just enough of a filesystem for _copy_is_necessary: getmodified / exists at one path"""

    def __init__(self, present, mtime):
        self.present, self.mtime = present, mtime

    def getmodified(self, path):
        import fs.errors

        if not self.present:
            raise fs.errors.ResourceNotFound(path)
        return None if self.mtime is None else T(self.mtime)

    def exists(self, path):
        return self.present

    def isfile(self, path):
        return self.present

    def isdir(self, path):
        return False


def condition_table(rep, drv):
    """_copy_is_necessary x model x documented table: five conditions (+ unknown strings) x source time
    {unknown, 2000} / source missing x destination {missing, unknown, older, equal, newer}"""
    import fs.copy as C

    rows = []
    for cond in CONDS + ["", "Always", "newer ", "exist"]:
        for s in [("x", None), ("-", None), ("2000", 2000)]:
            for d in [(False, None), (True, None), (True, 1000), (True, 2000), (True, 3000)]:
                rows.append((cond, s, d))
    reqs = ["copy.necessary %s %s %s %s" % (hx(c), s[0], "1" if d[0] else "0", "-" if d[1] is None else d[1])
            for c, s, d in rows]
    replies = drv.batch(reqs)
    for (cond, s, d), rep_line in zip(rows, replies):
        rep.evaluations += 1
        rep.nontrivial("necessary", cond, s, d)
        try:
            got = C._copy_is_necessary(_StubFS(s[0] != "x", s[1]), "p", _StubFS(d[0], d[1]), "p", cond)
            got = "ok %d" % bool(got)
        except ValueError:
            got = "err ValueError"
        except Exception as e:  # noqa
            got = "err Leak:" + type(e).__name__
        # documented table
        if s[0] == "x" and cond in ("newer", "older"):
            want = True                      # nothing to compare with: the copy is attempted (and fails)
        else:
            want = documented_condition(cond, s[1], ("F", d[1]) if d[0] else None)
        want = "err ValueError" if want == "ValueError" else "ok %d" % want
        rep.count("necessary:%s:%s" % (cond if cond in CONDS else "<other>", got))
        if got != want:
            rep.violation({"op": "necessary", "cond": cond, "src": s[0], "dst": list(d), "impl": got, "documented": want,
                           "model": rep_line},
                          "_copy_is_necessary(%r, src mtime %s, dst %r) = %s, documented rule says %s"
                          % (cond, s[0], d, got, want), found_input=True, signature="C19/necessary/%s" % cond)
        elif rep_line != got:
            rep.disagreements_checked += 1
            rep.violation({"op": "necessary", "cond": cond, "src": s[0], "dst": list(d), "impl": got, "model": rep_line},
                          "correspondence copyIsNecessary vs _copy_is_necessary broke: model %s code %s (documented table still holds)"
                          % (rep_line, got), found_input=False, signature="C19/necessary/correspondence")


# ----------------------------------------------------------------------------- entry points


# ----------------------------------------------------------------------------- one object as source and destination

SAME_KINDS = ["mem", "sub-mem", "wrap-mem", "cachedir-mem", "os", "sub-os"]


def same_object_phase(rep, quick):
    """src_fs IS dst_fs (one object; a plain filesystem, a SubFS view, a WrapFS / WrapCachedDir wrapper): the
    'optimised same-filesystem path' of copy_file_internal (FS.copy / WrapFS.copy) instead of download/upload.
    The Lean model takes two trees; here one tree carries both (S/... -> D/...), so this phase is decided by the
    property's oracle alone: bytes, preserved times, the documented condition, the truthful return value,
    bystanders and the source untouched."""
    import fs.copy as C

    T1, T2 = 1000000000, 981173106
    srcf = {"S/a": (b"new-a", T1), "S/d/b": (b"bb", T2), "S/z": (b"", 0), "S/only": (b"only", T1 + 7)}
    relations = {"absent": {}, "older": {"D/a": (b"old-a", T1 - 10), "D/d/b": (b"old-b", T2 - 1)},
                 "newer": {"D/a": (b"old-a", T1 + 10), "D/d/b": (b"old-b", T2 + 1)},
                 "equal": {"D/a": (b"old-a", T1), "D/d/b": (b"old-b", T2), "D/z": (b"zz", 0)}}
    conds = [None, "always", "newer", "older", "exists", "not_exists"]
    n = 0
    for kind in SAME_KINDS[: (4 if quick else None)] if quick else SAME_KINDS:
        for rname, dstf in relations.items():
            for cond in conds:
                for preserve in (True, False):
                    for api in ("dir", "file"):
                        for workers in ((0,) if (api == "file" or quick and cond not in (None, "newer")) else (0, 2)):
                            b, times = make_backend(kind)
                            f = b.fs
                            # WrapCachedDir never invalidates its listing cache: the state is built and read back
                            # through the wrapped filesystem, only the calls under test go through the wrapper
                            g = f.delegate_fs() if kind.startswith("cachedir") else f
                            try:
                                for d in ("S/d", "S/e", "D/d", "D/keep"):
                                    g.makedirs(d, recreate=True)
                                allf = dict(srcf)
                                allf.update(dstf)
                                allf["D/keep/by"] = (b"bystander", T2 + 5)
                                for q, (data, m) in allf.items():
                                    g.writebytes(q, data)
                                    g.settimes(q, modified=T(m))
                                t0 = int(time.time()) - 5
                                pre = {e[1]: e for e in (snapshot(g, t0) or [])}
                                ret = {}
                                try:
                                    if api == "dir":
                                        if cond is None:
                                            C.copy_dir(f, "S", f, "D", workers=workers, preserve_time=preserve)
                                        else:
                                            C.copy_dir_if(f, "S", f, "D", cond, workers=workers, preserve_time=preserve)
                                    else:
                                        for q in sorted(srcf):
                                            dq = "D" + q[1:]
                                            if cond is None:
                                                C.copy_file(f, q, f, dq, preserve_time=preserve)
                                            else:
                                                ret[q] = C.copy_file_if(f, q, f, dq, cond, preserve_time=preserve)
                                    res = "ok"
                                except Exception as e:  # noqa
                                    res = "err %s %r" % (H.exc_name(e), str(e)[:120])
                                post = {e[1]: e for e in (snapshot(g, t0) or [])}
                            finally:
                                b.close()
                            n += 1
                            rep.evaluations += 1
                            rep.count("same/%s/%s" % (api, cond))
                            rep.nontrivial("same", kind, rname, cond, preserve, api, workers)
                            why = []
                            if res != "ok":
                                why.append("the call failed: " + res)
                            for q, (data, m) in sorted(srcf.items()):
                                dq = "D" + q[1:]
                                at = ("F", dstf[dq][1]) if dq in dstf else None
                                want = True if cond is None else documented_condition(cond, m, at)
                                got = post.get(dq)
                                if post.get(q) != pre.get(q):
                                    why.append("source %s changed: %r -> %r" % (q, pre.get(q), post.get(q)))
                                if want:
                                    if got is None or got[0] != "F" or got[2] != data:
                                        why.append("%s: condition %s holds but the destination holds %r, not the source bytes" % (dq, cond, got and got[2]))
                                    elif preserve and times and got[3] != m:
                                        why.append("%s: preserve_time is set, source mtime %r, destination mtime %r" % (dq, m, got[3]))
                                elif got != pre.get(dq):
                                    why.append("%s: condition %s does not hold (src %r, dst %r) but the destination changed: %r -> %r"
                                               % (dq, cond, m, at, pre.get(dq), got))
                                if q in ret and bool(ret[q]) != bool(want):
                                    why.append("copy_file_if(%s, %s) returned %r, documented condition says %r" % (q, cond, ret[q], want))
                            for q in pre:
                                if q.startswith("D/keep") and post.get(q) != pre[q]:
                                    why.append("bystander %s changed" % q)
                            if why and res == "ok" or (res != "ok" and len(rep.violations) < 3):
                                rep.violation({"same_object": {"kind": kind, "relation": rname, "cond": cond, "preserve": preserve,
                                                               "api": api, "workers": workers}},
                                              "%s on ONE %s object, S -> D (destination %s, condition %s, preserve_time=%s, workers=%d): %s"
                                              % ("copy_dir[_if]" if api == "dir" else "copy_file[_if]", kind, rname, cond, preserve, workers,
                                                 "; ".join(why[:3])),
                                              found_input=True, signature="C19/same/%s/%s" % (api, why[0].split(":")[0][:30]))
    rep.extra["same_object_runs"] = n


def run(rep, tier, seed, deep=False):
    drv = vlib.Driver()
    rep.rule = (
        "all pairs of trees with <=3 nodes over {a,b} (source x destination; disjoint, overlapping, file-vs-directory "
        "conflicts, empty) on mem->mem x five conditions (copy_fs/copy_fs_if) and both copy_if_newer (mirror, run "
        "twice), walker/time relation (older, equal, newer)/preserve_time/size rotating (thorough: every walker x every relation); the "
        "same pairs sampled over {mem, os, sub-mem, sub-os}^2 (+ notimes wrapper; thorough + write-mode ZipFS "
        "destination), workers 0/4; random larger pairs x 11 walkers x sub-directory roots x unknown condition "
        "strings; copy_file_if/copy_file over every source/destination path kind; _copy_is_necessary table with stub "
        "filesystems.  Compared: destination snapshot (paths, types, bytes, explicit mtimes), on_copy set / Copier.copy "
        "calls, return values, second mirror; against the Lean model and against the property oracle.")
    rep.assumptions = [
        "times that were not set explicitly are later than every explicit time and are not compared (canonicalised to NOW)",
        "listing order is unspecified: trees are compared sorted; the walker is breadth-first (search='depth' makes "
        "copy_structure / _mirror create children before parents and fail with ResourceNotFound — outside the model)",
        "directory modification times are not part of the replica",
        "same-object copies (src_fs is dst_fs: the optimised FS.copy / WrapFS.copy path) are outside the two-tree MODEL; a "
        "directed grid (6 kinds of object x 4 time relations x 6 conditions x preserve_time x file/dir API x workers) is "
        "decided by the property oracle alone; overlapping source and destination belong to C05",
        "worker-count independence is C09's; workers=4 is only sampled",
    ]
    try:
        condition_table(rep, drv)
        same_object_phase(rep, tier == "quick")
        cases = gen_cases(tier, seed, deep)
        rep.programs = len(cases)
        sampled = []
        for lo in range(0, len(cases), 8000):
            chunk = cases[lo:lo + 8000]
            outs = [run_real(c) for c in chunk]
            keep = [(c, o) for c, o in zip(chunk, outs) if o.get("pre_src") is not None and o.get("pre_dst") is not None]
            replies = drv.batch([model_request(c, o) for c, o in keep])
            second = [i for i, (c, o) in enumerate(keep)
                      if c["op"] == "mirror" and o["res"][0] == "ok" and o.get("res2", ("err",))[0] == "ok"
                      and o["post_dst"] is not None]
            replies2 = dict(zip(second, drv.batch([model_request(keep[i][0], keep[i][1], dst=keep[i][1]["post_dst"])
                                                   for i in second])))
            for i, ((c, o), line) in enumerate(zip(keep, replies)):
                if line == "bad-op":
                    raise vlib.Infra("driver rejected request for %s" % describe(c))
                judge(rep, c, o, parse_model(c, line), parse_model(c, replies2[i]) if i in replies2 else None)
            sampled += keep[:: max(1, len(keep) // 3)][:2]
        for c, o in sampled[:6]:
            rep.sample({"case": describe(c), "src": brief(canon(c["src"])), "dst": brief(canon(c["dst"])),
                        "result": [str(x) for x in o["res"][:2]][:2], "after": brief(o["post_dst"])})
        rep.extra["small_pairs"] = len(small_pairs())
        rep.extra["cases_by_op"] = {k: sum(1 for c in cases if c["op"] == k) for k in ("copydir", "mirror", "fileif")}
    finally:
        H.cleanup_scratch()


def replay(rep, case):
    drv = vlib.Driver()
    c = case.get("case", case)
    if c.get("op") == "necessary":
        condition_table(rep, drv)
        return 1 if rep.violations else 0
    if c.get("same_object"):
        try:
            same_object_phase(rep, False)
        finally:
            H.cleanup_scratch()
        return 1 if rep.violations else 0
    c = dict(c)
    c["src"] = tree_unjson(c["src"])
    c["dst"] = tree_unjson(c["dst"])
    for k in ("impl", "model"):
        c.pop(k, None)
    try:
        out = run_real(c)
        model = parse_model(c, drv.batch([model_request(c, out)])[0])
        judge(rep, c, out, model)
        print("replay %s: impl=%s after=%s model=%s" % (describe(c), out["res"][:2], brief(out["post_dst"]), model[0]))
    finally:
        H.cleanup_scratch()
    return 1 if rep.violations else 0
