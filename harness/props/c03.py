"""C03 — no path argument escapes a filesystem's root (sandboxing).

Theorems: lean/FsProofs/C03.lean over lean/FsModel/Confine.lean (validatepath, OSFS system
paths, SubFS.delegate_path at any nesting depth, MountFS._delegate, tar/zip name filters) and
over the generated PathFlowTable (every OSFS sink receives validated path data).

Correspondence / oracle (the property itself, evaluated on the real code):

 A. model vs code on every swept path: validatepath, _to_sys_path, getsyspath, SubFS.delegate_path
    (depth 1..3), MountFS._delegate, ReadTarFS._directory_entries, ReadZipFS._directory.
 B. exhaustive sweep: every sequence of <= L components over {.., ., "", foo, a.b, ..x}, with and
    without leading/trailing slash, through EVERY public method and EVERY path-typed argument
    position (found by reflection) of OSFS, TempFS, SubFS depth 1-3 (and ClosingSubFS) of OSFS and
    of MemoryFS, a MountFS and its members, read and write archives.
      * the names os / io / shutil seen by the fs.* modules are replaced by recording proxies:
        every system path handed to the OS must be root ++ clean components, and must agree
        with the model's prediction for the call;
      * a canary tree around the root (parent files, sibling `root2`, same names as inside) is
        snapshotted before/after every method's sweep: nothing outside may change;
      * a climbing path must be refused with an exception defined in fs.errors and must not
        return anything a missing inside path would not return (no disclosure).
 C. the parent of every SubFS / every mounted filesystem is instrumented (logging subclass):
    every (method, path) it receives is clean and lies under the sub-directory / is
    mount-relative, and equals the model's delegate path.
 D. hand-made zip / tar archives with hostile member names under a canary directory: what is
    visible equals the model, is clean, and extraction (copy_fs) stays inside the target.
 thorough: the OSFS sweep is re-run under `strace -f -e trace=%file` and the kernel-level
 paths are checked, independently of the Python proxies.
"""
from __future__ import annotations

import hashlib
import inspect
import io
import itertools
import json
import os
import shutil
import stat as statmod
import subprocess
import sys
import tarfile
import time
import zipfile

import vlib
from vlib import hx, hxlist, unhx, unhxlist
import fsharness as H

NAMES = ["..", ".", "", "foo", "a.b", "..x"]
INSIDE_DIRS = ["foo", "foo/foo", "foo/foo/foo", "..x", "foo/..x", "a.b.d"]
INSIDE_FILES = ["a.b", "foo/a.b", "foo/foo/a.b", "..x/a.b", "..x/foo", "foo/foo/foo/a.b", "foo/..x/a.b"]
BASELINE = "zz.none/missing"
MAXVIOL = 6
LEANCHECKER_MODULES = ["FsProofs.C03", "FsProofs.Lemmas.ConfineLemmas", "FsModel.Confine",
                       "FsModel.Generated.PathFlowTable"]

# ----------------------------------------------------------------------------- references


def sweep_paths(L):
    seen, out = set(), []
    for n in range(L + 1):
        for cs in itertools.product(NAMES, repeat=n):
            body = "/".join(cs)
            for lead in ("", "/"):
                for trail in ("", "/"):
                    p = lead + body + trail
                    if p not in seen:
                        seen.add(p)
                        out.append(p)
    return out


def ref_resolve(p):
    """independent reference: component-wise resolution; None = climbs above the root"""
    out = []
    for c in p.split("/"):
        if c in ("", "."):
            continue
        if c == "..":
            if not out:
                return None
            out.pop()
        else:
            out.append(c)
    return out


def clean(cs):
    return all(c not in ("", ".", "..") and "/" not in c for c in cs)


def is_fs_error(e):
    return type(e).__module__ == "fs.errors"


# ----------------------------------------------------------------------------- recording proxies

PURE = {
    "os": {"fspath", "fsencode", "fsdecode", "getcwd", "getcwdb", "getpid", "strerror", "getenv", "umask",
           "getuid", "getgid", "geteuid", "getegid", "urandom", "cpu_count", "close", "fstat", "get_terminal_size",
           "get_inheritable", "set_inheritable", "isatty", "dup", "write", "read", "lseek", "fsync", "ftruncate",
           "getppid", "times", "uname", "sysconf", "confstr", "putenv", "unsetenv", "kill", "waitpid", "register_at_fork"},
    "os.path": {"join", "split", "splitdrive", "splitext", "normpath", "abspath", "basename", "dirname",
                "expanduser", "expandvars", "normcase", "isabs", "commonpath", "commonprefix", "relpath"},
    "io": {"text_encoding"},
    "shutil": {"get_terminal_size", "which", "disk_usage", "get_archive_formats", "get_unpack_formats"},
}


TWO_PATH = {"rename", "renames", "replace", "link", "symlink", "copy", "copy2", "copyfile", "copytree", "copystat",
            "copymode", "move", "samefile"}
NONPATH_KW = {"mode", "encoding", "errors", "newline", "buffering", "flags", "opener", "closefd", "dir_fd",
              "follow_symlinks", "ns", "times"}


PROBING = [False]   # true while a returned filesystem object is being exercised (see exercise_returned_fs)


class Recorder:
    def __init__(self):
        self.active = False
        self.items = []

    def add(self, fn, x):
        if isinstance(x, bytes):
            x = os.fsdecode(x)
        elif not isinstance(x, str):
            try:
                x = os.fsdecode(os.fspath(x))
            except TypeError:
                return
        self.items.append((("probe:" + fn) if PROBING[0] else fn, x))

    def take(self):
        out, self.items = self.items, []
        return out


class ModProxy(object):
    """Stand-in for a module: every callable that is not a type and not known to be pure records
    its str/bytes/PathLike arguments before calling the real function."""

    def __init__(self, real, name, rec):
        object.__setattr__(self, "_real", real)
        object.__setattr__(self, "_name", name)
        object.__setattr__(self, "_rec", rec)
        object.__setattr__(self, "_cache", {})
        object.__setattr__(self, "_sub", ModProxy(real.path, "os.path", rec) if name == "os" else None)

    def __getattr__(self, attr):
        cache = object.__getattribute__(self, "_cache")
        if attr in cache:
            return cache[attr]
        real = object.__getattribute__(self, "_real")
        name = object.__getattribute__(self, "_name")
        val = getattr(real, attr)
        if name == "os" and attr == "path":
            out = object.__getattribute__(self, "_sub")
        elif isinstance(val, type) or not callable(val) or attr in PURE.get(name, ()) or attr.startswith("_"):
            out = val
        else:
            rec = object.__getattribute__(self, "_rec")
            label = name + "." + attr

            two = attr in TWO_PATH

            def wrapper(*a, **k):
                if rec.active:
                    for i, x in enumerate(a[: 2 if two else 1]):
                        if isinstance(x, (str, bytes)) or hasattr(x, "__fspath__"):
                            rec.add(label, x)
                    for kn, x in k.items():
                        if kn not in NONPATH_KW and (isinstance(x, (str, bytes)) or hasattr(x, "__fspath__")):
                            rec.add(label, x)
                return val(*a, **k)

            wrapper.__name__ = attr
            out = wrapper
        cache[attr] = out
        return out

    def __setattr__(self, attr, value):
        setattr(object.__getattribute__(self, "_real"), attr, value)


class Patched:
    """Replace os / io / shutil (and names imported from os: scandir, sendfile) as seen by every
    loaded fs.* module; restore on exit."""

    def __init__(self, rec):
        self.rec = rec
        self.saved = []

    def __enter__(self):
        import fs  # noqa
        prox = {"os": ModProxy(os, "os", self.rec), "io": ModProxy(io, "io", self.rec),
                "shutil": ModProxy(shutil, "shutil", self.rec)}
        real = {"os": os, "io": io, "shutil": shutil}
        for mname, mod in list(sys.modules.items()):
            if mod is None or not (mname == "fs" or mname.startswith("fs.")):
                continue
            for n, r in real.items():
                if getattr(mod, n, None) is r:
                    self.saved.append((mod, n, r))
                    setattr(mod, n, prox[n])
            for n in ("scandir", "sendfile"):
                v = getattr(mod, n, None)
                if v is not None and v is getattr(os, n, None):
                    self.saved.append((mod, n, v))
                    setattr(mod, n, getattr(prox["os"], n))
        return self

    def __exit__(self, *a):
        for mod, n, v in self.saved:
            setattr(mod, n, v)
        self.saved = []


# ----------------------------------------------------------------------------- logging members


def instrument(member, log, tag):
    """Turn `member` into an instance of a logging subclass of its own class: every public method
    with path parameters, when called from OUTSIDE the object, appends (tag, method, path)."""
    cls = type(member)
    if getattr(cls, "_c03_logged", False):
        return member
    ns = {"_c03_logged": True, "_c03_depth": 0}
    for name in dir(cls):
        if name.startswith("_"):
            continue
        attr = getattr(cls, name, None)
        if not inspect.isfunction(attr):
            continue
        try:
            sig = inspect.signature(attr)
        except (TypeError, ValueError):
            continue
        pnames = [p.name for p in sig.parameters.values() if "path" in p.name]
        if not pnames:
            continue

        def make(attr=attr, sig=sig, pnames=pnames, name=name):
            def logged(self, *a, **k):
                if self._c03_depth == 0:
                    try:
                        b = sig.bind(self, *a, **k)
                        for pn in pnames:
                            if pn in b.arguments:
                                self._c03_log.append((self._c03_tag, name, b.arguments[pn]))
                    except TypeError:
                        pass
                self._c03_depth += 1
                try:
                    return attr(self, *a, **k)
                finally:
                    self._c03_depth -= 1

            logged.__name__ = name
            return logged

        ns[name] = make()
    member.__class__ = type("Logged" + cls.__name__, (cls,), ns)
    member._c03_log = log
    member._c03_tag = tag
    return member


# ----------------------------------------------------------------------------- arenas / canaries


def scratch():
    return os.path.join(H.SCRATCH_ROOT, "c03")


def make_arena(tag, depth_pad):
    """<scratch>/c03/<tag>/p1/…/pN/outer/base/{root, root2, canaries…}.  The padding makes every
    climb of <= depth_pad levels land inside directories this check owns."""
    top = os.path.join(scratch(), tag)
    shutil.rmtree(top, ignore_errors=True)
    d = top
    for i in range(depth_pad + 1):
        d = os.path.join(d, "p%d" % i)
    outer = os.path.join(d, "outer")
    base = os.path.join(outer, "base")
    root = os.path.join(base, "root")
    os.makedirs(root)
    for where in (outer, base):
        os.makedirs(os.path.join(where, "foo", "foo"))
        os.makedirs(os.path.join(where, "..x"))
        for f in ("a.b", "foo/a.b", "..x/a.b", "..x/foo", "canary.txt", "zz.none"):
            with open(os.path.join(where, f), "w") as fh:
                fh.write("outside:" + f)
    os.makedirs(os.path.join(base, "root2", "foo"))
    for f in ("root2/a.b", "root2/foo/a.b", "root2/canary.txt"):
        with open(os.path.join(base, f), "w") as fh:
            fh.write("sibling:" + f)
    os.symlink("canary.txt", os.path.join(base, "link-outside"))
    return {"top": top, "outer": outer, "base": base, "root": root}


def snap_outside(top, exclude):
    """everything below `top` except the excluded directories' contents: (type, size, mtime_ns,
    mode, digest / link target).  atime is not looked at."""
    out = {}
    exclude = set(os.path.normpath(e) for e in exclude)
    for dirpath, dirnames, filenames in os.walk(top):
        if os.path.normpath(dirpath) in exclude:
            dirnames[:] = []
            continue
        for n in dirnames + filenames:
            p = os.path.join(dirpath, n)
            if os.path.normpath(p) in exclude:
                out[p] = ("root",)
                continue
            st = os.lstat(p)
            if statmod.S_ISLNK(st.st_mode):
                out[p] = ("l", os.readlink(p))
            elif statmod.S_ISDIR(st.st_mode):
                out[p] = ("d", st.st_mode, st.st_mtime_ns)
            else:
                with open(p, "rb") as fh:
                    dg = hashlib.sha1(fh.read()).hexdigest()
                out[p] = ("f", st.st_mode, st.st_size, st.st_mtime_ns, dg)
    return out


def diff_snap(a, b):
    out = []
    for k in sorted(set(a) | set(b)):
        if a.get(k) != b.get(k):
            out.append((k, a.get(k), b.get(k)))
    return out


def populate(f):
    """standard inside tree through the FS API (names = the swept names, so that many swept paths
    hit existing resources)"""
    for d in INSIDE_DIRS:
        f.makedirs(d, recreate=True)
    for p in INSIDE_FILES:
        f.writebytes(p, b"inside:" + p.encode())


def reset_inside_os(root):
    for n in os.listdir(root):
        p = os.path.join(root, n)
        if os.path.isdir(p) and not os.path.islink(p):
            shutil.rmtree(p)
        else:
            os.remove(p)
    for d in INSIDE_DIRS:
        os.makedirs(os.path.join(root, d), exist_ok=True)
    for p in INSIDE_FILES:
        with open(os.path.join(root, p), "wb") as fh:
            fh.write(b"inside:" + p.encode())


def reset_inside_fs(f):
    for n in f.listdir("/"):
        if f.isdir(n):
            f.removetree(n)
        else:
            f.remove(n)
    populate(f)


# ----------------------------------------------------------------------------- reflection

SKIP_METHODS = {
    "mount": "changes the MountFS configuration (exercised by the dedicated mount test)",
    "add_fs": "changes the MultiFS configuration",
    "close": "no path",
    "delegate_path": "WrapFS plumbing: maps a path to (delegate fs, path) and accesses nothing; SubFS.delegate_path is "
                     "compared with the model directly (part A) and observed at the parent (part C)",
    "match_glob": "pure string matching of its `path` argument against patterns; resolves no resource",
}
EXACT = {"getinfo", "listdir", "makedir", "openbin", "open", "remove", "removedir", "gettype", "islink",
         "setinfo", "scandir", "exists", "isdir", "isfile", "getsize", "getbasic", "getdetails", "readbytes",
         "getbytes", "readtext", "gettext", "getsyspath", "getospath", "validatepath"}


def path_methods(fsobj):
    out, skipped = [], []
    for name in sorted(dir(fsobj)):
        if name.startswith("_"):
            continue
        try:
            attr = getattr(fsobj, name)
        except Exception:
            continue
        if not callable(attr) or isinstance(attr, type):
            continue
        try:
            sig = inspect.signature(attr)
        except (TypeError, ValueError):
            continue
        pnames = [p.name for p in sig.parameters.values()
                  if "path" in p.name and p.kind in (p.POSITIONAL_OR_KEYWORD, p.KEYWORD_ONLY)]
        if not pnames:
            continue
        if name in SKIP_METHODS:
            skipped.append(name)
            continue
        out.append((name, sig, pnames))
    return out, skipped


def synth(method, pname):
    """argument for a non-path parameter; (found, value)"""
    if pname == "contents":
        return True, ("c" if "text" in method else b"c")
    if pname == "data":
        return True, b"d"
    if pname == "text":
        return True, "t"
    if pname == "file":
        return True, io.BytesIO(b"f")
    if pname == "info":
        return True, {"details": {"modified": 1000000.0}}
    if pname == "mode" and method in ("open", "openbin"):
        return True, "w"
    if pname == "name" and method == "hash":
        return True, "md5"
    if pname in ("patterns",):
        return True, ["*"]
    if pname == "pattern":
        return True, "*"
    if pname == "fs":
        return False, None
    return False, None


def other_path(method, pname):
    dirish = method in ("copydir", "movedir")
    if pname.startswith("src"):
        return "foo/foo" if dirish else "foo/a.b"
    if pname.startswith("dst"):
        return "dst.new"
    return "foo"


def build_call(method, sig, pos, p):
    kwargs, unmapped = {}, []
    for prm in sig.parameters.values():
        if prm.kind in (prm.VAR_POSITIONAL, prm.VAR_KEYWORD):
            continue
        n = prm.name
        if n == pos:
            kwargs[n] = p
        elif "path" in n:
            kwargs[n] = other_path(method, n)
        else:
            ok, v = synth(method, n)
            if ok:
                kwargs[n] = v
            elif prm.default is inspect.Parameter.empty:
                kwargs[n] = None
                unmapped.append(n)
    return kwargs, unmapped


def canon_value(v):
    """comparable rendering of a return value (for the no-disclosure baseline)"""
    import fs.info

    try:
        if v is None or isinstance(v, (bool, int, float, str, bytes)):
            return repr(v)
        if isinstance(v, fs.info.Info):
            raw = dict(v.raw)
            return "Info:" + json.dumps({k: raw[k] for k in sorted(raw) if k in ("basic",)}, sort_keys=True, default=repr)
        if hasattr(v, "read") and hasattr(v, "close"):
            v.close()
            return "file"
        if isinstance(v, (list, tuple)):
            return "[" + ",".join(canon_value(x) for x in v[:50]) + "]"
        if isinstance(v, dict):
            return "dict"
        if hasattr(v, "delegate_path"):
            return "SubFS"
        if hasattr(v, "__next__") or inspect.isgenerator(v):
            return "[" + ",".join(canon_value(x) for x in itertools.islice(v, 50)) + "]"
        if hasattr(v, "__iter__"):
            return "[" + ",".join(canon_value(x) for x in itertools.islice(iter(v), 50)) + "]"
        return type(v).__name__
    except Exception as e:  # consuming a lazy result raised
        raise _Lazy(e)


class _Lazy(Exception):
    def __init__(self, e):
        self.e = e


def exercise_returned_fs(v):
    """a filesystem object handed back by a call (opendir, makedir, makedirs: a SubFS view) must be
    confined like the object it came from: use it a little while the recorders are still active, so
    that every path it sends to its parent / to the OS is judged by the same rules"""
    try:
        from fs.base import FS
    except Exception:  # pragma: no cover
        return
    if not isinstance(v, FS):
        return
    PROBING[0] = True
    try:
        for call in (lambda: v.listdir("/"), lambda: v.exists("zz-probe"), lambda: v.getinfo("/"),
                     lambda: v.isdir("sub"), lambda: v.writebytes("zz-probe", b""), lambda: v.remove("zz-probe"),
                     lambda: v.hassyspath("/") and v.getsyspath("/")):
            try:
                call()
            except Exception:
                pass
    finally:
        PROBING[0] = False


def invoke(fsobj, method, kwargs):
    """('ok', canonical value) | ('err', class name, is-fs.errors)"""
    try:
        v = getattr(fsobj, method)(**kwargs)
        exercise_returned_fs(v)
        return ("ok", canon_value(v))
    except _Lazy as l:
        return ("err", type(l.e).__name__, is_fs_error(l.e))
    except H.Timeout:
        raise
    except Exception as e:
        return ("err", type(e).__name__, is_fs_error(e))


# ----------------------------------------------------------------------------- the sweep


class Config:
    """one filesystem under test + how to observe it"""

    def __init__(self, name, fsobj, reset, root_comps=None, arena=None, exclude=(), rec=None,
                 log=None, log_rules=None, predict=None, closer=None):
        self.name = name
        self.fs = fsobj
        self.reset = reset
        self.root_comps = root_comps      # OS components of the root (syscall oracle) or None
        self.arena = arena
        self.exclude = list(exclude)
        self.rec = rec
        self.log = log                    # shared list filled by instrumented members
        self.log_rules = log_rules or {}  # tag -> function(path) -> (ok, why)
        self.predict = predict            # p -> predicted OS components (list) / None
        self.closer = closer


def os_comps(s):
    return [c for c in s.split("/") if c != ""]


def judge_syscall(cfg, path):
    """a recorded system path must be root ++ clean components"""
    if not path.startswith("/"):
        return False, "relative system path"
    cs = [c for c in path.split("/")]
    body = [c for c in cs if c != ""]
    rc = cfg.root_comps
    if body[: len(rc)] != rc:
        return False, "not under the root"
    rest = body[len(rc):]
    if not clean(rest):
        return False, "component . or .. after the root"
    if "//" in path.rstrip("/")[len("/" + "/".join(rc)):]:
        return False, "empty component inside"
    return True, ""


def report(rep, cfg, method, pos, p, why, kind, detail=None, found=True):
    if len(rep.violations) >= MAXVIOL:
        return
    case = {"config": cfg.name, "method": method, "position": pos, "path": p, "kind": kind, "detail": detail}
    rep.violation(case, "%s.%s(%s=%r): %s" % (cfg.name, method, pos, p, why), found_input=found,
                  signature="C03/%s/%s/%s" % (cfg.name.split(":")[0], method, kind))


def sweep(rep, cfg, paths, per_method_reset=600, only=None):
    f = cfg.fs
    methods, skipped = path_methods(f)
    rep.extra.setdefault("methods", {})[cfg.name] = len(methods)
    rep.extra.setdefault("skipped_methods", {})[cfg.name] = skipped
    top = cfg.arena["top"] if cfg.arena else None
    for (method, sig, pnames) in methods:
        if only and method not in only:
            continue
        for pos in pnames:
            cfg.reset()
            before = snap_outside(top, cfg.exclude) if top else None
            # baseline: what a missing inside path gives
            kw, unmapped = build_call(method, sig, pos, BASELINE)
            if unmapped:
                rep.count("unmapped-param:%s.%s(%s)" % (cfg.name, method, ",".join(unmapped)))
            base_out = invoke(f, method, kw)
            if cfg.rec:
                cfg.rec.take()
            if cfg.log is not None:
                del cfg.log[:]
            n = 0
            for p in paths:
                n += 1
                if n % per_method_reset == 0:
                    cfg.reset()
                kw, _ = build_call(method, sig, pos, p)
                if cfg.rec:
                    cfg.rec.active = True
                try:
                    out = invoke(f, method, kw)
                finally:
                    if cfg.rec:
                        cfg.rec.active = False
                rep.evaluations += 1
                comps = ref_resolve(p)
                climbing = comps is None
                rep.count("%s:%s" % (cfg.name.split(":")[0], "climb" if climbing else out[0]))
                rep.nontrivial(cfg.name, method, pos, p)
                # -- every system path handed to the OS
                if cfg.rec:
                    recs = cfg.rec.take()
                    for (fn, sp) in recs:
                        ok, why = judge_syscall(cfg, sp)
                        if not ok:
                            report(rep, cfg, method, pos, p, "%s received %r: %s" % (fn, sp, why), "syscall-outside-root",
                                   {"syscall": fn, "sys_path": sp})
                            break
                    else:
                        if not climbing and len(pnames) == 1 and cfg.predict:
                            pred = cfg.predict(p)
                            for (fn, sp) in recs:
                                if fn.startswith("probe:"):
                                    continue   # calls made through a returned view: judged for confinement only
                                got = os_comps(sp)
                                k = min(len(got), len(pred))
                                rel_ok = got[:k] == pred[:k]
                                if method in EXACT:
                                    rel_ok = got == pred
                                if not rel_ok:
                                    report(rep, cfg, method, pos, p,
                                           "%s received %r, the model predicts %r" % (fn, sp, "/" + "/".join(pred)),
                                           "syscall-differs-from-model", {"syscall": fn, "sys_path": sp, "model": pred},
                                           found=False)
                                    break
                # -- what the parent / the mounted members received
                if cfg.log is not None:
                    for (tag, m2, lp) in cfg.log:
                        rule = cfg.log_rules.get(tag)
                        if rule is None:
                            continue
                        ok, why = rule(lp, p if len(pnames) == 1 else None)
                        if not ok:
                            report(rep, cfg, method, pos, p, "%s.%s received %r: %s" % (tag, m2, lp, why),
                                   "member-received-outside-path", {"member": tag, "member_method": m2, "received": lp})
                            break
                    del cfg.log[:]
                # -- a climbing path must be refused
                if climbing:
                    if out[0] == "err":
                        if not out[2]:
                            report(rep, cfg, method, pos, p, "climbing path raised %s, which is not an fs.errors exception"
                                   % out[1], "climbing-path-wrong-exception", {"raised": out[1]})
                    elif not (base_out[0] == "ok" and base_out[1] == out[1]):
                        report(rep, cfg, method, pos, p,
                               "climbing path was not refused: returned %s (a missing inside path gives %s)"
                               % (out[1][:80], (base_out[1] if base_out[0] == "ok" else base_out[1])[:80]),
                               "climbing-path-not-refused", {"returned": out[1][:200]})
                    else:
                        rep.count("path-blind:%s" % method)
            if top:
                after = snap_outside(top, cfg.exclude)
                d = diff_snap(before, after)
                if d:
                    culprit = locate_outside_change(cfg, method, sig, pos, paths)
                    report(rep, cfg, method, pos, culprit or "<sweep>",
                           "the canary tree outside the root changed: %r" % (d[:3],), "outside-modified",
                           {"diff": [list(map(repr, x)) for x in d[:6]]})
                    # rebuild the arena canaries so that later methods start clean
                    rebuild_canaries(cfg)
    rep.programs += 1


def locate_outside_change(cfg, method, sig, pos, paths):
    """re-run the method's sweep with a snapshot after every call to name the failing path"""
    top = cfg.arena["top"]
    rebuild_canaries(cfg)
    cfg.reset()
    before = snap_outside(top, cfg.exclude)
    for p in paths:
        kw, _ = build_call(method, sig, pos, p)
        invoke(cfg.fs, method, kw)
        if cfg.rec:
            cfg.rec.take()
        if snap_outside(top, cfg.exclude) != before:
            return p
    return None


def rebuild_canaries(cfg):
    a = cfg.arena
    for where in (a["outer"], a["base"]):
        for n in os.listdir(where):
            p = os.path.join(where, n)
            if any(os.path.normpath(x) == os.path.normpath(p) or os.path.normpath(x).startswith(os.path.normpath(p) + "/")
                   for x in cfg.exclude) or p == a["base"]:
                continue
            if os.path.isdir(p) and not os.path.islink(p):
                shutil.rmtree(p, ignore_errors=True)
            else:
                try:
                    os.remove(p)
                except OSError:
                    pass
        os.makedirs(os.path.join(where, "foo", "foo"), exist_ok=True)
        os.makedirs(os.path.join(where, "..x"), exist_ok=True)
        for f in ("a.b", "foo/a.b", "..x/a.b", "..x/foo", "canary.txt", "zz.none"):
            with open(os.path.join(where, f), "w") as fh:
                fh.write("outside:" + f)
    b = a["base"]
    os.makedirs(os.path.join(b, "root2", "foo"), exist_ok=True)
    for f in ("root2/a.b", "root2/foo/a.b", "root2/canary.txt"):
        with open(os.path.join(b, f), "w") as fh:
            fh.write("sibling:" + f)
    if not os.path.lexists(os.path.join(b, "link-outside")):
        os.symlink("canary.txt", os.path.join(b, "link-outside"))


# ----------------------------------------------------------------------------- part A: model vs code


def model_correspondence(rep, drv, paths, arena):
    from fs.osfs import OSFS
    from fs.memoryfs import MemoryFS
    from fs.subfs import SubFS
    from fs.mountfs import MountFS

    root = arena["root"]
    rc = os_comps(root)
    o = OSFS(root)
    mem = MemoryFS()

    def mism(what, p, model, impl, extra=None):
        if len(rep.violations) >= MAXVIOL:
            return
        # is the property itself broken at this input?
        bad = property_fails_here(what, p, impl, rc, extra)
        rep.disagreements_checked += 1
        rep.violation({"function": what, "path": p, "extra": extra, "model": model, "impl": impl},
                      "%s(%r%s): model %s, code %s%s" % (what, p, (" " + repr(extra)) if extra else "", model, impl,
                                                        (" — " + bad) if bad else ""),
                      found_input=bool(bad), signature="C03/model/%s" % what)

    def impl_call(fn):
        try:
            return "ok " + fn()
        except Exception as e:
            return "err " + type(e).__name__

    extra_paths = ["a\x00b", "\x00", "foo/\x00/..", "x" * 5000, "foo/" * 900 + "a", "é/ü/../ß", "a b/ c ", "foo\n", "..\n",
                   "./\n", "a/..\n/b", "\\..\\x", "foo//..//..//x", "/../", "//", "///a///"]
    allp = list(paths) + extra_paths
    # validatepath on OSFS (invalid "\0", PATH_MAX) and MemoryFS (no invalid chars, no limit)
    maxlen = o.getmeta().get("max_sys_path_length", -1)
    reqs = []
    for p in allp:
        reqs.append("confine.validate %s 0 %s %s %s" % (hx(p), hx("\0"), "-" if maxlen == -1 else str(maxlen), hx(root)))
        reqs.append("confine.validate %s 0 %s - -" % (hx(p), hx("\0")))
        reqs.append("confine.syspath %s %s" % (hxlist(rc), hx(p)))
        reqs.append("confine.getsyspath %s %s" % (hxlist(rc), hx(p)))
    out = drv.batch(reqs)
    for i, p in enumerate(allp):
        m_os, m_mem, m_sys, m_gsp = out[4 * i: 4 * i + 4]
        rep.evaluations += 4
        i_os = impl_call(lambda: hx(o.validatepath(p)))
        i_mem = impl_call(lambda: hx(mem.validatepath(p)))
        if m_os != i_os:
            mism("OSFS.validatepath", p, m_os, i_os)
        if m_mem != i_mem:
            mism("MemoryFS.validatepath", p, m_mem, i_mem)
        if "\0" not in p and len(p) < 3000:
            def sysp():
                q = o.validatepath(p)
                s = os.fsdecode(o._to_sys_path(q))
                return hx(s) + " " + hxlist(os_comps(s))
            i_sys = impl_call(sysp)
            if m_sys != i_sys:
                mism("OSFS._to_sys_path", p, m_sys, i_sys)
            i_gsp = impl_call(lambda: hx(o.getsyspath(p)))
            if m_gsp != i_gsp:
                mism("OSFS.getsyspath", p, m_gsp, i_gsp)
        rep.nontrivial("validate", p)
    # SubFS.delegate_path, depth 1..3
    subsets = [["foo"], ["/foo/foo"], [""], ["/"], ["foo/../a.b.d/"], ["..x"], ["foo", "foo"], ["foo", "..x"],
               ["foo", "foo", "foo"], ["/", "foo", "."], ["foo//foo", "./foo/"]]
    for subs in subsets:
        chain = []
        parent = MemoryFS()
        populate(parent)
        cur = parent
        okc = True
        for s in subs:
            try:
                cur = SubFS(cur, s)
                chain.append(cur)
            except Exception:
                okc = False
        if not okc:
            continue
        # as coded: the parent's invalid characters ("\0" for MemoryFS, OSFS and a SubFS of them) are
        # refused before normpath could remove them (FsModel.Confine.nestedDelegateChk)
        subp = list(paths) + [q for q in extra_paths if len(q) < 3000]
        reqs = ["confine.subnc %s %s %s" % (hx("\0"), hxlist(subs), hx(p)) for p in subp]
        out = drv.batch(reqs)
        for p, m in zip(subp, out):
            rep.evaluations += 1

            def deleg():
                q = p
                for s in reversed(chain):
                    q = s.delegate_path(q)[1]
                return hx(q)
            i = impl_call(deleg)
            if m != i:
                mism("SubFS.delegate_path", p, m, i, subs)
            rep.nontrivial("sub", tuple(subs), p)
    # MountFS._delegate
    for mounts in [[], ["foo"], ["/foo", "foo2"], ["foo/a.b", "a.b"], ["/"], ["foo/", "..x/foo"], ["foo/foo/foo", "foo/..x"]]:
        mf = MountFS()
        members = []
        for mp in mounts:
            x = MemoryFS()
            members.append(x)
            mf.mount(mp, x)
        # as coded (since /repo 48e26ed): the MountFS's own invalid characters ("\0") are refused on the raw path
        # before normpath could remove them (FsModel.Confine.mountDelegateChk)
        nul_mount = ["foo/x\0/../a", "x\0/../foo/a", "foo/a\0", "foo2/\0/..", "\0/../..", "a.b/\0/../c"]
        mpaths = list(paths) + [q for q in extra_paths if len(q) < 3000] + nul_mount
        reqs = ["confine.mountnc %s %s %s" % (hx("\0"), hxlist(mounts), hx(p)) for p in mpaths]
        out = drv.batch(reqs)
        for p, m in zip(mpaths, out):
            rep.evaluations += 1

            def deleg():
                f, r = mf._delegate(p)
                return ("-" if f is mf.default_fs else str(members.index(f))) + " " + hx(r)
            i = impl_call(deleg)
            if m != i:
                mism("MountFS._delegate", p, m, i, mounts)
            rep.nontrivial("mount", tuple(mounts), p)
    o.close()
    rep.programs += 3


def property_fails_here(what, p, impl, rc, extra):
    """the property's own statement for the pure functions, on the real output"""
    if not impl.startswith("ok "):
        if ref_resolve(p) is not None and impl == "err IllegalBackReference":
            return "a path that stays inside the root is refused"
        return None
    if ref_resolve(p) is None and "\0" not in p:
        return "a climbing path is accepted"
    try:
        val = unhx(impl.split()[1]) if what != "MountFS._delegate" else unhx(impl.split()[2])
    except Exception:
        return None
    if what in ("OSFS.validatepath", "MemoryFS.validatepath"):
        if not (val.startswith("/") and clean(os_comps(val)) and val == "/" + "/".join(os_comps(val))):
            return "validatepath returned a path that is not '/' + clean components"
    elif what in ("OSFS._to_sys_path", "OSFS.getsyspath"):
        got = os_comps(val)
        if got[: len(rc)] != rc or not clean(got[len(rc):]):
            return "system path is not root ++ clean components"
    elif what == "SubFS.delegate_path":
        pre = []
        for s in extra:
            pre += ref_resolve(s) or []
        got = os_comps(val)
        if got[: len(pre)] != pre or not clean(got):
            return "delegated path is not under the sub-directory"
    elif what == "MountFS._delegate" and impl.split()[1] != "-":
        if val.startswith("/") or not clean(os_comps(val)):
            return "mount-relative path is not relative and clean"
    return None


# ----------------------------------------------------------------------------- configurations


def cfg_osfs(arena, rec, drv_predict):
    from fs.osfs import OSFS

    root = arena["root"]
    o = OSFS(root)
    rc = os_comps(root)
    return Config("OSFS", o, lambda: reset_inside_os(root), root_comps=rc, arena=arena, exclude=[root], rec=rec,
                  predict=lambda p: rc + ref_resolve(p), closer=o.close)


def cfg_tempfs(arena, rec):
    from fs.tempfs import TempFS

    t = TempFS(identifier="c03", temp_dir=arena["base"])
    root = os.path.normpath(os.fsdecode(t._temp_dir) if isinstance(t._temp_dir, bytes) else t._temp_dir)
    rc = os_comps(root)
    return Config("TempFS", t, lambda: reset_inside_os(root), root_comps=rc, arena=arena, exclude=[arena["root"], root],
                  rec=rec, predict=lambda p: rc + ref_resolve(p), closer=t.close)


def sub_rule(pre):
    def rule(received, user_path):
        if not isinstance(received, str):
            return False, "not a string"
        got = ref_resolve(received)
        if got is None:
            return False, "climbs"
        if received != "/" + "/".join(got) or not clean(got):
            return False, "not a normalised absolute path"
        if got[: len(pre)] != pre:
            return False, "not under the sub-directory /%s" % "/".join(pre)
        if user_path is not None:
            want = ref_resolve(user_path)
            if want is not None:
                k = min(len(got), len(pre) + len(want))
                if got[:k] != (pre + want)[:k]:
                    return False, "differs from the model's delegate path /%s" % "/".join(pre + want)
        return True, ""
    return rule


def cfg_sub_os(arena, rec, depth, closing=False):
    from fs.osfs import OSFS
    from fs.subfs import SubFS, ClosingSubFS

    root = arena["root"]
    o = OSFS(root)
    reset_inside_os(root)
    subs = ["foo", "foo", "foo"][:depth]
    log = []
    rules = {}
    instrument(o, log, "L0")
    cur = o
    pre = []
    rules["L0"] = None
    for i, s in enumerate(subs):
        parent_tag = "L%d" % i
        pre = pre + [s]
        cur = (ClosingSubFS if (closing and i == depth - 1) else SubFS)(cur, s)
        # the parent at level i receives paths that lie under the directory of level i+1,
        # expressed relative to the parent: exactly one more component
        rules[parent_tag] = sub_rule(subs[i:])
        if i < depth - 1:
            instrument(cur, log, "L%d" % (i + 1))
    sub_root = os.path.join(root, *subs)
    rc = os_comps(sub_root)

    reset_inside_os(root)
    os.makedirs(sub_root, exist_ok=True)

    def reset():
        # only below the sub-directory: the rest of the parent's tree is part of the canary
        reset_inside_os(sub_root)
    name = "%s/OSFS:depth%d" % ("ClosingSubFS" if closing else "SubFS", depth)
    return Config(name, cur, reset, root_comps=rc, arena=arena, exclude=[sub_root], rec=rec, log=log, log_rules=rules,
                  predict=lambda p: rc + ref_resolve(p), closer=o.close)


def cfg_sub_mem(depth):
    from fs.memoryfs import MemoryFS
    from fs.subfs import SubFS

    m = MemoryFS()
    subs = ["foo", "foo", "foo"][:depth]
    log = []
    rules = {}
    instrument(m, log, "L0")
    cur = m
    for i, s in enumerate(subs):
        cur = SubFS(cur, s)
        rules["L%d" % i] = sub_rule(subs[i:])
        if i < depth - 1:
            instrument(cur, log, "L%d" % (i + 1))
    sub = cur
    subpath = "/".join(subs)

    def outside_snapshot():
        snap = H.snapshot(m)
        if snap is None:
            return None
        return [e for e in snap if not (e[1] == subpath or e[1].startswith(subpath + "/"))]

    def reset():
        m._c03_depth += 1   # do not log the harness's own calls
        try:
            reset_inside_fs(m)
            m.makedirs(subpath, recreate=True)
            m.writebytes("outside.txt", b"outside")
            m.makedirs("foo2/foo", recreate=True)
            m.writebytes("foo2/a.b", b"sibling")
            for d in INSIDE_DIRS:
                m.makedirs(subpath + "/" + d, recreate=True)
            for p in INSIDE_FILES:
                m.writebytes(subpath + "/" + p, b"inside")
        finally:
            m._c03_depth -= 1
    cfg = Config("SubFS/MemoryFS:depth%d" % depth, sub, reset, log=log, log_rules=rules, closer=m.close)
    cfg.outside_snapshot = outside_snapshot
    cfg.parent = m
    return cfg


def mount_rule(received, user_path):
    if not isinstance(received, str):
        return False, "not a string"
    got = ref_resolve(received)
    if got is None:
        return False, "climbs"
    # (a SubFS handed back by MountFS.makedir/opendir is a view of the *member* and addresses it with
    # absolute member paths: a leading slash is still a path inside that member's own root)
    if received.lstrip("/") != "/".join(got):
        return False, "not a normalised mount-relative path"
    return True, ""


def default_rule(received, user_path):
    if not isinstance(received, str) or ref_resolve(received) is None:
        return False, "the default filesystem received a climbing path"
    return True, ""


def cfg_mount():
    from fs.memoryfs import MemoryFS
    from fs.mountfs import MountFS

    mf = MountFS()
    log = []
    members = {}
    for mp in ("foo", "foo2", "..x/foo"):
        x = MemoryFS()
        members[mp] = x
        mf.mount(mp, x)
    for mp, x in members.items():
        instrument(x, log, "mount:" + mp)
    instrument(mf.default_fs, log, "default")
    rules = {"mount:" + mp: mount_rule for mp in members}
    rules["default"] = default_rule

    def reset():
        for x in list(members.values()):
            x._c03_depth += 1
            try:
                reset_inside_fs(x)
            finally:
                x._c03_depth -= 1
        d = mf.default_fs
        d._c03_depth += 1
        try:
            for n in d.listdir("/"):
                if n not in ("foo", "foo2", "..x"):
                    if d.isdir(n):
                        d.removetree(n)
                    else:
                        d.remove(n)
            d.writebytes("a.b", b"default")
        finally:
            d._c03_depth -= 1
    return Config("MountFS", mf, reset, log=log, log_rules=rules, closer=mf.close)


# ----------------------------------------------------------------------------- part D: archives

HOSTILE = ["../x", "/abs", "a/../../b", "dup", "dup", "a//b", "./a", "ok/file", "ok/", "d/e/f", "..", "../",
           "a/../c", "x/./y/", "//z", "b/../../"]


def mkzip(path, names):
    with zipfile.ZipFile(path, "w") as z:
        for i, n in enumerate(names):
            z.writestr(zipfile.ZipInfo(n), b"member%d" % i)


def mktar(path, names):
    with tarfile.open(path, mode="w") as t:
        for i, n in enumerate(names):
            ti = tarfile.TarInfo(n)
            if n.endswith("/"):
                ti.type = tarfile.DIRTYPE
                t.addfile(ti)
            else:
                data = b"member%d" % i
                ti.size = len(data)
                t.addfile(ti, io.BytesIO(data))


def walk_fs(f, limit=500):
    out = []

    def rec(p, depth):
        if depth > 10 or len(out) > limit:
            return
        try:
            names = f.listdir(p or "/")
        except Exception:      # the filesystem under test may be broken: keep what was seen
            return
        for n in names:
            q = (p + "/" + n) if p else n
            out.append(q)
            try:
                isd = f.isdir(q)
            except Exception:
                isd = False
            if isd:
                rec(q, depth + 1)
    rec("", 0)
    return out


def archives(rep, drv, rng, arena, tier):
    from fs.zipfs import ReadZipFS
    from fs.tarfs import ReadTarFS
    from fs.osfs import OSFS
    from fs.copy import copy_fs

    base = arena["base"]
    adir = os.path.join(base, "archives")
    os.makedirs(adir, exist_ok=True)
    lists = [HOSTILE, ["../x"], ["/abs"], ["a/../../b"], ["dup", "dup"], ["a//b"], ["./a"], ["a", "a/b"], ["a/b", "a"]]
    n_rand = 40 if tier == "quick" else 600
    for _ in range(n_rand):
        lists.append([rng.choice(HOSTILE) for _ in range(rng.randint(1, 7))])
    for k, names in enumerate(lists):
        for kind in ("zip", "tar"):
            ap = os.path.join(adir, "h%d.%s" % (k, kind))
            (mkzip if kind == "zip" else mktar)(ap, names)
            ext = os.path.join(adir, "x%d.%s.d" % (k, kind))
            os.makedirs(ext, exist_ok=True)
            before = snap_outside(arena["top"], [ext])
            case = {"config": "archive:" + kind, "names": names}
            try:
                f = (ReadZipFS if kind == "zip" else ReadTarFS)(ap)
            except Exception as e:
                rep.count("archive-open-failed:%s" % type(e).__name__)
                continue
            rep.programs += 1
            try:
                if kind == "zip":
                    got = list(f._zip.namelist())
                    model = drv.batch(["confine.zipnames " + hxlist(got)])[0]
                    try:
                        dfs = f._directory
                        st = "ok"
                    except Exception as e:
                        st = "err:" + type(e).__name__
                        dfs = f._directory_fs
                    ents = []
                    for q in walk_fs(dfs):
                        ents.append(("D" if dfs.isdir(q) else "F") + hx(q))
                    impl = st + " Z" + ";".join(sorted(ents))
                    mst, mz = model.split(" ", 1)
                    model_c = mst + " Z" + ";".join(sorted(x for x in mz[1:].split(";") if x))
                    visible = [unhx(e[1:]) for e in ents]
                    if model_c != impl and len(rep.violations) < MAXVIOL:
                        bad = [v for v in visible if ref_resolve(v) is None or not clean(v.split("/"))]
                        rep.violation(dict(case, model=model_c, impl=impl),
                                      "ReadZipFS._directory for names %r: model %s, code %s" % (names, model_c, impl),
                                      found_input=bool(bad), signature="C03/model/ReadZipFS._directory")
                else:
                    got = [ti.name for ti in f._tar]
                    model = drv.batch(["confine.tarnames " + hxlist(got)])[0]
                    keys = list(f._directory_entries.keys())
                    _ok, mk, mv = model.split(" ")
                    mvis = unhxlist(mv)
                    visible = sorted(set(walk_fs(f)) | set(keys))
                    def exists(v):
                        try:
                            return f.exists(v)
                        except Exception:
                            return False
                    okv = unhxlist(mk) == keys and set(visible) <= set(mvis) and all(exists(v) for v in mvis)
                    if not okv and len(rep.violations) < MAXVIOL:
                        bad = [v for v in visible if ref_resolve(v) is None or not clean(v.split("/"))]
                        rep.violation(dict(case, model_keys=unhxlist(mk), keys=keys, model_visible=mvis, visible=visible),
                                      "ReadTarFS entries for names %r: model keys %r visible %r, code keys %r visible %r"
                                      % (names, unhxlist(mk), mvis, keys, visible),
                                      found_input=bool(bad), signature="C03/model/ReadTarFS._directory_entries")
                rep.evaluations += 1
                rep.nontrivial("archive", kind, tuple(names))
                # the property on what is visible
                for v in visible:
                    if (not clean(v.split("/"))) and len(rep.violations) < MAXVIOL:
                        rep.violation(dict(case, visible=v), "%s archive with member names %r exposes the path %r"
                                      % (kind, names, v), found_input=True, signature="C03/archive:%s/visible-unclean" % kind)
                # read everything, then extract under the canary directory
                for v in visible:
                    try:
                        if f.isfile(v):
                            f.readbytes(v)
                        f.getinfo(v, namespaces=["details", "access", kind])
                    except Exception as e:
                        rep.count("archive-read:%s" % type(e).__name__)
                try:
                    with OSFS(ext) as dst:
                        copy_fs(f, dst)
                except Exception as e:
                    rep.count("archive-extract:%s" % type(e).__name__)
                after = snap_outside(arena["top"], [ext])
                d = diff_snap(before, after)
                if d and len(rep.violations) < MAXVIOL:
                    rep.violation(dict(case, diff=[list(map(repr, x)) for x in d[:6]]),
                                  "extracting a %s archive with member names %r changed %r outside the target directory"
                                  % (kind, names, d[0][0]), found_input=True, signature="C03/archive:%s/extract-outside" % kind)
            finally:
                try:
                    f.close()
                except Exception:
                    pass
    shutil.rmtree(adir, ignore_errors=True)


def cfg_read_archive(kind, arena):
    from fs.zipfs import ReadZipFS
    from fs.tarfs import ReadTarFS

    adir = os.path.join(arena["base"], "archives-sweep")
    os.makedirs(adir, exist_ok=True)
    ap = os.path.join(adir, "a." + kind)
    names = [d + "/" for d in INSIDE_DIRS] + INSIDE_FILES + ["../a.b", "/foo/abs", "foo/../../canary.txt"]
    (mkzip if kind == "zip" else mktar)(ap, names)
    f = (ReadZipFS if kind == "zip" else ReadTarFS)(ap)
    return Config("Read%sFS" % kind.capitalize(), f, lambda: None, arena=arena, exclude=[arena["root"]], closer=f.close)


def cfg_write_archive(kind, arena):
    from fs.zipfs import WriteZipFS
    from fs.tarfs import WriteTarFS

    adir = os.path.join(arena["base"], "archives-sweep")
    os.makedirs(adir, exist_ok=True)
    ap = os.path.join(adir, "w." + kind)
    f = (WriteZipFS if kind == "zip" else WriteTarFS)(ap, temp_fs="mem://")
    cfg = Config("Write%sFS" % kind.capitalize(), f, lambda: reset_inside_fs(f), arena=arena, exclude=[arena["root"]])
    cfg.archive_path = ap
    cfg.kind = kind
    return cfg


def finish_write_archive(rep, cfg):
    """close (writes the archive) and look at the member names that were written"""
    try:
        reset_inside_fs(cfg.fs)
        cfg.fs.close()
    except Exception as e:
        rep.count("write-archive-close:%s" % type(e).__name__)
        return
    try:
        if cfg.kind == "zip":
            with zipfile.ZipFile(cfg.archive_path) as z:
                names = z.namelist()
        else:
            with tarfile.open(cfg.archive_path) as t:
                names = t.getnames()
    except Exception as e:
        rep.count("write-archive-read:%s" % type(e).__name__)
        return
    for n in names:
        cs = n.rstrip("/").split("/")
        if (n.startswith("/") or not clean(cs)) and len(rep.violations) < MAXVIOL:
            rep.violation({"config": cfg.name, "member": n}, "%s wrote the member name %r" % (cfg.name, n),
                          found_input=True, signature="C03/%s/member-name-unclean" % cfg.name)
    rep.count("written-members:%s" % cfg.kind, len(names))


# ----------------------------------------------------------------------------- strace (thorough)

CHILD = r"""
import sys, os
sys.path.insert(0, %(harness)r)
os.environ["VERIF_REPO"] = %(repo)r
import vlib
vlib.repo_on_path()
from props import c03
from fs.osfs import OSFS
root = %(root)r
o = OSFS(root)
paths = c03.sweep_paths(%(L)d)
methods, _ = c03.path_methods(o)
try:
    os.stat("/C03-SWEEP-BEGIN")
except OSError:
    pass
for (method, sig, pnames) in methods:
    for pos in pnames:
        c03.reset_inside_os(root)
        for p in paths:
            kw, _ = c03.build_call(method, sig, pos, p)
            c03.invoke(o, method, kw)
try:
    os.stat("/C03-SWEEP-END")
except OSError:
    pass
"""


def strace_sweep(rep, L):
    if shutil.which("strace") is None:
        rep.count("strace-missing")
        return
    arena = make_arena("strace", L + 1)
    root = arena["root"]
    reset_inside_os(root)
    before = snap_outside(arena["top"], [root])
    aux = os.path.join(scratch(), "strace-aux")     # outside the arena: the interpreter looks at its script's directory
    os.makedirs(aux, exist_ok=True)
    script = os.path.join(aux, "child.py")
    log = os.path.join(aux, "strace.log")
    with open(script, "w") as fh:
        fh.write(CHILD % {"harness": os.path.dirname(os.path.dirname(os.path.abspath(__file__))), "repo": vlib.REPO,
                          "root": root, "L": L})
    p = subprocess.run(["strace", "-f", "-qq", "-e", "trace=%file", "-o", log, sys.executable, script],
                       stdout=subprocess.PIPE, stderr=subprocess.STDOUT, timeout=3000)
    if p.returncode != 0:
        rep.count("strace-child-rc:%d" % p.returncode)
        rep.extra["strace_tail"] = p.stdout.decode("utf-8", "replace")[-400:]
        return
    import re

    strre = re.compile(r'"((?:[^"\\]|\\.)*)"')
    top = arena["top"]
    n = bad = 0
    seen_bad = []
    in_sweep = False
    with open(log, errors="replace") as fh:
        for line in fh:
            if "/C03-SWEEP-BEGIN" in line:
                in_sweep = True
                continue
            if "/C03-SWEEP-END" in line:
                in_sweep = False
                continue
            if not in_sweep:
                continue
            for m in strre.finditer(line):
                s = m.group(1)
                if not s.startswith("/"):
                    continue
                hit_scratch = s.startswith(top)
                hit_rootnames = any(s == "/" + nm or s.startswith("/" + nm + "/") for nm in ("foo", "a.b", "..x", "dst.new", "zz.none"))
                if not (hit_scratch or hit_rootnames):
                    continue
                if s in (script, log):
                    continue
                n += 1
                inside = (s == root or s.startswith(root + "/")) and clean([c for c in s[len(root):].split("/") if c != ""])
                if not inside:
                    bad += 1
                    if len(seen_bad) < 5:
                        seen_bad.append(line.strip()[:200])
    rep.extra["strace"] = {"kernel_paths_checked": n, "outside": bad, "L": L}
    rep.evaluations += n
    after = snap_outside(arena["top"], [root])
    d = [x for x in diff_snap(before, after) if x[0] not in (script, log)]
    if (bad or d) and len(rep.violations) < MAXVIOL:
        rep.violation({"config": "OSFS/strace", "lines": seen_bad, "diff": [list(map(repr, x)) for x in d[:5]]},
                      "kernel-level file system calls of the OSFS sweep left the root: %r %r" % (seen_bad[:2], d[:2]),
                      found_input=True, signature="C03/OSFS/strace/outside-root")
    shutil.rmtree(arena["top"], ignore_errors=True)



# ----------------------------------------------------------------------------- FTPFS (thorough)


def ftpfs_commands(rep, L):
    """FTPFS against an in-process pyftpdlib server: every command line sent to the server is
    recorded (ftplib's putline); the path argument of each must be '/' + clean components —
    the dynamic counterpart of the FTPFS half of the PathFlowTable."""
    try:
        import logging
        import threading
        from pyftpdlib.authorizers import DummyAuthorizer
        from pyftpdlib.handlers import FTPHandler
        from pyftpdlib.servers import ThreadedFTPServer
    except ImportError:
        rep.count("ftp-server-missing")
        return
    import ftplib
    from fs.ftpfs import FTPFS

    lg = logging.getLogger("pyftpdlib")
    lg.handlers = [logging.NullHandler()]
    lg.propagate = False
    lg.setLevel(logging.CRITICAL)
    arena = make_arena("ftp", L + 1)
    home = arena["root"]
    reset_inside_os(home)
    auth = DummyAuthorizer()
    auth.add_user("u", "p", home, perm="elradfmwMT")

    class Handler(FTPHandler):
        pass
    Handler.authorizer = auth
    try:
        srv = ThreadedFTPServer(("127.0.0.1", 0), Handler)
    except OSError:
        rep.count("ftp-server-cannot-bind")
        return
    port = srv.socket.getsockname()[1]
    th = threading.Thread(target=srv.serve_forever, kwargs={"timeout": 0.05}, daemon=True)
    th.start()
    sent = []
    orig_putline = ftplib.FTP.putline

    def putline(self, line):
        sent.append(line)
        return orig_putline(self, line)
    ftplib.FTP.putline = putline
    PATH_CMDS = {"MLST", "MLSD", "LIST", "NLST", "STOR", "APPE", "RETR", "DELE", "RMD", "MKD", "MDTM", "SIZE", "CWD",
                 "RNFR", "RNTO", "MFMT", "XMKD", "XRMD"}
    before = snap_outside(arena["top"], [home])
    try:
        f = FTPFS("127.0.0.1", user="u", passwd="p", port=port, timeout=10)
        paths = sweep_paths(L)
        methods, _ = path_methods(f)
        rep.extra.setdefault("methods", {})["FTPFS"] = len(methods)
        for (method, sig, pnames) in methods:
            for pos in pnames:
                reset_inside_os(home)
                for p in paths:
                    del sent[:]
                    kw, _u = build_call(method, sig, pos, p)
                    out = invoke(f, method, kw)
                    rep.evaluations += 1
                    climbing = ref_resolve(p) is None
                    rep.count("FTPFS:%s" % ("climb" if climbing else out[0]))
                    rep.nontrivial("FTPFS", method, pos, p)
                    raw_seen = False
                    for line in list(sent):
                        parts = line.split(" ", 1)
                        if parts[0].upper() not in PATH_CMDS or len(parts) < 2:
                            continue
                        arg = parts[1]
                        if parts[0].upper() == "MFMT":
                            arg = arg.split(" ", 1)[1] if " " in arg else ""
                        cs = os_comps(arg)
                        if not (arg.startswith("/") and clean(cs) and arg == "/" + "/".join(cs)):
                            report(rep, Config("FTPFS", f, None), method, pos, p,
                                   "the server was sent %r: the path argument is not '/' + clean components" % line,
                                   "raw-path-sent", {"command": line})
                            raw_seen = True
                            break
                    if climbing and out[0] == "ok" and not raw_seen and method not in ("hassyspath", "hasurl"):
                        report(rep, Config("FTPFS", f, None), method, pos, p,
                               "climbing path was not refused: returned %s" % out[1][:80], "climbing-path-not-refused",
                               {"returned": out[1][:200]})
        f.close()
    finally:
        ftplib.FTP.putline = orig_putline
        srv.close_all()
    after = snap_outside(arena["top"], [home])
    d = diff_snap(before, after)
    if d and len(rep.violations) < MAXVIOL:
        rep.violation({"config": "FTPFS", "diff": [list(map(repr, x)) for x in d[:5]]},
                      "FTPFS sweep changed %r outside the server root" % (d[0][0],), found_input=True,
                      signature="C03/FTPFS/outside-modified")
    shutil.rmtree(arena["top"], ignore_errors=True)

# ----------------------------------------------------------------------------- table cross-check


def table_crosscheck(rep):
    """the generated table must cover what reflection finds: every method that OSFS itself defines
    and that has a path parameter appears in the table (so `decide` really looked at it)"""
    import fs.osfs

    path = os.path.join(vlib.LEAN, "FsModel", "Generated", "PathFlowTable.json")
    try:
        tab = json.load(open(path))
    except Exception as e:
        rep.violation({"table": path, "error": repr(e)}, "the generated PathFlowTable is missing: %r" % e, found_input=False,
                      signature="C03/table/missing")
        return
    names = {r["name"] for r in tab.get("osfsMethods") or []}
    own = []
    for n, v in vars(fs.osfs.OSFS).items():
        if inspect.isfunction(v) or isinstance(v, classmethod):
            fn = v.__func__ if isinstance(v, classmethod) else v
            if n == "__init__":
                continue
            if any("path" in a for a in fn.__code__.co_varnames[: fn.__code__.co_argcount]):
                own.append(n)
    missing = [n for n in own if n not in names]
    rep.extra["table"] = {"osfs_methods": len(names), "own_path_methods": len(own),
                          "raw_or_dead": [(r["name"], s["callee"], s["source"], s["live"])
                                          for k in ("osfsMethods", "ftpfsMethods") for r in (tab.get(k) or [])
                                          for s in r["sinks"] if s["source"] != "validated" or not s["live"]][:40]}
    if missing:
        rep.violation({"missing": missing}, "OSFS methods with path parameters absent from the PathFlowTable: %r" % missing,
                      found_input=False, signature="C03/table/method-missing")


# ----------------------------------------------------------------------------- run / replay


def mem_outside_guard(rep, cfg, paths, only=None):
    """SubFS of MemoryFS: what lies outside the sub-directory in the parent never changes"""
    cfg.parent._c03_depth += 1
    try:
        cfg.reset()
        before = cfg.outside_snapshot()
    finally:
        cfg.parent._c03_depth -= 1
    sweep(rep, cfg, paths, only=only)
    cfg.parent._c03_depth += 1
    try:
        cfg.reset()
        after = cfg.outside_snapshot()
    finally:
        cfg.parent._c03_depth -= 1
    if before is not None and after is not None and H.canon_tree(before) != H.canon_tree(after) and len(rep.violations) < MAXVIOL:
        rep.violation({"config": cfg.name, "before": [e[:2] for e in before], "after": [e[:2] for e in after]},
                      "%s: the parent's tree outside the sub-directory changed" % cfg.name, found_input=True,
                      signature="C03/SubFS/outside-modified")


def relative_root_phase(rep):
    """an OSFS opened on a RELATIVE directory name: the root is fixed when the filesystem is opened; a later
    chdir of the process must not move it (every method would then act outside the directory it was opened on)"""
    import tempfile
    from fs.osfs import OSFS

    base = tempfile.mkdtemp(prefix="relroot-", dir=H.SCRATCH_ROOT if os.path.isdir(H.SCRATCH_ROOT) else None)
    home, other = os.path.join(base, "home"), os.path.join(base, "elsewhere")
    for d in (home, other):
        os.makedirs(os.path.join(d, "jail", "sub"))
    open(os.path.join(home, "jail", "in.txt"), "w").write("inside")
    open(os.path.join(other, "jail", "secret.txt"), "w").write("canary")
    open(os.path.join(other, "jail", "in.txt"), "w").write("canary-in")

    def tree(d):
        out = []
        for r, ds, fs_ in os.walk(d):
            for n in sorted(ds + fs_):
                q = os.path.join(r, n)
                out.append((os.path.relpath(q, d), open(q).read() if os.path.isfile(q) else None))
        return sorted(out)

    cwd0 = os.getcwd()
    bad = []
    try:
        os.chdir(home)
        o = OSFS("jail")
        os.chdir(other)
        before_other = tree(other)
        calls = [("listdir", lambda: sorted(o.listdir("/")), ["in.txt", "sub"]),
                 ("readtext", lambda: o.readtext("in.txt"), "inside"),
                 ("getsyspath", lambda: o.getsyspath("in.txt"), os.path.join(home, "jail", "in.txt")),
                 ("writetext", lambda: o.writetext("new.txt", "n"), None),
                 ("makedirs", lambda: bool(o.makedirs("a/b")), True),
                 ("remove", lambda: o.remove("in.txt"), None),
                 ("removetree", lambda: o.removetree("sub"), None)]
        for name, fn, want in calls:
            rep.evaluations += 1
            try:
                got = fn()
            except Exception as e:  # noqa
                got = "raised " + type(e).__name__
            if got != want:
                bad.append("%s -> %r (the directory it was opened on says %r)" % (name, got, want))
        if tree(other) != before_other:
            bad.append("the directory of the same name below the NEW working directory changed: %r -> %r" % (before_other, tree(other)))
        want_home = [("a", None), (os.path.join("a", "b"), None), ("new.txt", "n")]
        if tree(os.path.join(home, "jail")) != want_home:
            bad.append("the root it was opened on holds %r, expected %r" % (tree(os.path.join(home, "jail")), want_home))
        o.close()
    finally:
        os.chdir(cwd0)
        shutil.rmtree(base, ignore_errors=True)
    rep.nontrivial("relative-root")
    if bad:
        rep.violation({"relative_root": True}, "OSFS('jail') opened from %s, then chdir(%s): %s" % ("<tmp>/home", "<tmp>/elsewhere", "; ".join(bad[:4])),
                      found_input=True, signature="C03/osfs/relative-root-follows-chdir")


def run(rep, tier, seed, deep=False):
    drv = vlib.Driver()
    rng = vlib.rng_for(seed, "c03")
    quick = tier == "quick" and not deep
    L_main, L_side = (4, 3) if quick else (5, 4)
    rep.rule = ("every sequence of <= %d (OSFS) / <= %d (other configurations) components over %r with/without leading and "
                "trailing slash x every public method x every path-typed parameter (reflection); os/io/shutil of all fs.* "
                "modules replaced by recording proxies; canary tree snapshotted around every method's sweep; parents of "
                "SubFS / mounted filesystems instrumented; hostile zip/tar member names; model (Lean driver) vs code on "
                "validatepath/_to_sys_path/getsyspath/delegate_path/_delegate/archive directories for every swept path"
                % (L_main, L_side, NAMES))
    rep.assumptions = [
        "POSIX: os.sep == '/', posixpath.join; Windows-only / Python-2-only branches are dead (listed in the table)",
        "symbolic links stored inside the root are followed by the kernel (escape by content, not by path string: C05)",
        "names returned by os.listdir/os.scandir are single components",
        "lone surrogates in path strings are outside the model",
        "FTPFS: confinement below the server root is the server's; the commands FTPFS sends are checked (thorough tier)",
        "walker / globber sub-objects (fs.walk.files, fs.glob(...).remove) are reached only through walk/glob themselves",
    ]
    paths_main = sweep_paths(L_main)
    paths_side = sweep_paths(L_side)
    rep.extra["paths"] = {"main": len(paths_main), "side": len(paths_side)}
    t0 = time.time()
    try:
        table_crosscheck(rep)
        arena = make_arena("main", L_main + 1)
        model_correspondence(rep, drv, paths_main, arena)
        relative_root_phase(rep)
        rep.extra["t_model"] = round(time.time() - t0, 1)
        rec = Recorder()
        with Patched(rec):
            cfg = cfg_osfs(arena, rec, None)
            H.with_watchdog(lambda: sweep(rep, cfg, paths_main), 3000)
            cfg.closer()
            rep.extra["t_osfs"] = round(time.time() - t0, 1)
            cfg = cfg_tempfs(arena, rec)
            H.with_watchdog(lambda: sweep(rep, cfg, paths_side), 3000)
            # TempFS.close removes its directory and nothing else
            before = snap_outside(arena["top"], cfg.exclude)
            cfg.closer()
            after = snap_outside(arena["top"], cfg.exclude)
            # (the parent directory's mtime changes when the temporary directory is removed)
            d = [x for x in diff_snap(before, after)
                 if x[0] not in cfg.exclude and not (x[0] == arena["base"] and x[1] and x[2] and x[1][:2] == x[2][:2])]
            if d and len(rep.violations) < MAXVIOL:
                rep.violation({"config": "TempFS", "diff": [list(map(repr, x)) for x in d[:5]]},
                              "TempFS.close changed %r outside its directory" % (d[0][0],), found_input=True,
                              signature="C03/TempFS/close/outside-modified")
            for depth in (1, 2, 3):
                cfg = cfg_sub_os(arena, rec, depth)
                H.with_watchdog(lambda: sweep(rep, cfg, paths_side if depth == 1 else paths_side[: len(sweep_paths(L_side - 1))]), 3000)
                cfg.closer()
            cfg = cfg_sub_os(arena, rec, 1, closing=True)
            H.with_watchdog(lambda: sweep(rep, cfg, paths_side[: len(sweep_paths(L_side - 1))]), 3000)
            cfg.closer()
            rep.extra["t_sub_os"] = round(time.time() - t0, 1)
        for depth in (1, 2, 3):
            cfg = cfg_sub_mem(depth)
            H.with_watchdog(lambda: mem_outside_guard(rep, cfg, paths_side if depth == 1 else paths_side[: len(sweep_paths(L_side - 1))]), 3000)
        cfg = cfg_mount()
        H.with_watchdog(lambda: sweep(rep, cfg, paths_side), 3000)
        rep.extra["t_mem"] = round(time.time() - t0, 1)
        archives(rep, drv, rng, arena, tier)
        short = sweep_paths(L_side - 1)
        for kind in ("zip", "tar"):
            cfg = cfg_read_archive(kind, arena)
            H.with_watchdog(lambda: sweep(rep, cfg, short), 3000)
            cfg.closer()
            cfg = cfg_write_archive(kind, arena)
            H.with_watchdog(lambda: sweep(rep, cfg, short), 3000)
            finish_write_archive(rep, cfg)
        rep.extra["t_archives"] = round(time.time() - t0, 1)
        if not quick:
            strace_sweep(rep, 3 if tier == "quick" else 4)
            rep.extra["t_strace"] = round(time.time() - t0, 1)
            H.with_watchdog(lambda: ftpfs_commands(rep, 2), 1500)
            rep.extra["t_ftp"] = round(time.time() - t0, 1)
        rep.sample({"config": "OSFS", "call": "gettype('../a.b')", "result": "IllegalBackReference"})
        rep.sample({"config": "SubFS/OSFS:depth2", "call": "getinfo('foo/../a.b')", "parent_received": "/foo/a.b"})
        rep.extra["exhaustive"] = True
    finally:
        shutil.rmtree(scratch(), ignore_errors=True)
        H.cleanup_scratch()


def replay(rep, case):
    c = case["case"]
    if c.get("relative_root"):
        relative_root_phase(rep)
        return 1 if rep.violations else 0
    if "function" in c:
        drv = vlib.Driver()
        print("model-vs-code case:", json.dumps(c)[:400])
        arena = make_arena("replay", 6)
        try:
            model_correspondence(rep, drv, [c["path"]], arena)
        finally:
            shutil.rmtree(scratch(), ignore_errors=True)
        return 1 if rep.violations else 0
    if "names" in c:
        drv = vlib.Driver()
        arena = make_arena("replay", 6)
        global HOSTILE
        try:
            saved = HOSTILE
            HOSTILE = c["names"]

            class _R:
                def choice(self, l):
                    return l[0]

                def randint(self, a, b):
                    return a
            archives(rep, drv, _R(), arena, "quick")
            HOSTILE = saved
        finally:
            shutil.rmtree(scratch(), ignore_errors=True)
        return 1 if rep.violations else 0
    name = c["config"]
    if name == "OSFS/strace":
        strace_sweep(rep, 3)
        print("violations now: %d" % len(rep.violations))
        shutil.rmtree(scratch(), ignore_errors=True)
        return 1 if rep.violations else 0
    if name == "FTPFS":
        ftpfs_commands(rep, 2)
        print("violations now: %d, known findings hit: %r" % (len(rep.violations), sorted(set(rep.known_hits))))
        shutil.rmtree(scratch(), ignore_errors=True)
        return 1 if (rep.violations or rep.known_hits) else 0
    arena = make_arena("replay", 7)
    rec = Recorder()
    try:
        with Patched(rec):
            if name == "OSFS":
                cfg = cfg_osfs(arena, rec, None)
            elif name == "TempFS":
                cfg = cfg_tempfs(arena, rec)
            elif name.startswith("SubFS/OSFS") or name.startswith("ClosingSubFS/OSFS"):
                cfg = cfg_sub_os(arena, rec, int(name[-1]), closing=name.startswith("Closing"))
            elif name.startswith("SubFS/MemoryFS"):
                cfg = cfg_sub_mem(int(name[-1]))
            elif name == "MountFS":
                cfg = cfg_mount()
            elif name.startswith("Read"):
                cfg = cfg_read_archive("zip" if "Zip" in name else "tar", arena)
            elif name.startswith("Write"):
                cfg = cfg_write_archive("zip" if "Zip" in name else "tar", arena)
            else:
                print("unknown configuration", name)
                return 2
            sweep(rep, cfg, [c["path"]], only={c["method"]})
    finally:
        shutil.rmtree(scratch(), ignore_errors=True)
    print("violations now:", len(rep.violations))
    return 1 if rep.violations else 0
