"""C08 — individual FS methods are linearizable under concurrent use.

Theorems: lean/FsProofs/C08.lean (table theorems over the GENERATED lock table, the FULL MemoryFS
statement `memoryfs_linearizable`, `…_repaired` regression theorems) and
lean/FsProofs/C08Model.lean (any number of single-locked calls are linearizable and never
deadlock; counterexamples of the lock-free variants; LRUCache).

The races fixed in /repo (MemoryFS.removedir, FS.readbytes/writebytes, FS.move) are ordinary
explored cases (DIRECTED): a violation if they return.  Known findings come from
known_findings.json through `rep.match_known` only; their signature is computed from the generated
lock table (the method of the call set that the table classifies as several atomic pieces, or
the "own lock does not cover the delegated/primitive calls" structure of MountFS / MultiFS / OSFS).

Run-time parts (harness/sched.py = deterministic scheduler over REAL threads):

 (i)  model <-> code: for every call set the compiled model enumerates its segment-level
      interleavings; each one is forced on the real MemoryFS (a worker runs from one outermost
      lock acquisition to the next) and per-call results + final tree are compared with the
      model's prediction.  This validates the extracted segment boundaries.
 (ii) the property itself, without the model: line-level schedules (every `line` event in
      <repo>/fs and every lock acquire/release is a preemption point; all schedules with a
      bounded number of preemptions, random beyond) on MemoryFS, OSFS, MountFS, MultiFS and two
      SubFS views of one parent; oracle = results + final tree equal those of some sequential
      order of the same calls on a fresh copy of the same backend; no deadlock; no foreign
      exception.
 (iii) LRUCache: the model's schedules of two `cache[k]` are forced on a real LRUCache and the
      callers `fs.wildcard.match` / `fs.glob.match` are explored at line level.
"""
from __future__ import annotations

import itertools
import os
import shutil
import sys
import tempfile

import vlib
import fsharness as H
import sched
from vlib import hx

EXTRA_PROOF_MODULES = ("FsProofs.C08Model",)
LEANCHECKER_MODULES = ["FsProofs.C08", "FsProofs.C08Model"]

FS_DIR = os.path.join(os.path.abspath(vlib.REPO), "fs")

# ----------------------------------------------------------------------------- calls


def call_op(f, op):
    """execute one API call on the real filesystem; canonical ("ok", value) / ("err", class)"""
    import fs.errors as E

    name = op[0]
    try:
        if name == "exists":
            v = "bool:%d" % f.exists(op[1])
        elif name == "isdir":
            v = "bool:%d" % f.isdir(op[1])
        elif name == "isfile":
            v = "bool:%d" % f.isfile(op[1])
        elif name == "listdir":
            v = "names:" + vlib.hxlist(sorted(f.listdir(op[1])))
        elif name == "getsize":
            i = f.getinfo(op[1], namespaces=["details"])
            v = "nat:%d" % (0 if i.is_dir else i.size)
        elif name == "gettype":
            v = "nat:%d" % int(f.gettype(op[1]))
        elif name == "isempty":
            v = "bool:%d" % f.isempty(op[1])
        elif name == "getinfo":
            i = f.getinfo(op[1], namespaces=["details"])
            v = "info:%s:%d:%d" % (hx(i.name), i.is_dir, 0 if i.is_dir else i.size)
        elif name == "readbytes":
            v = "bytes:" + hx(f.readbytes(op[1]))
        elif name == "scandir":
            v = "infos:" + vlib.hxlist(sorted("%s/%d" % (i.name, i.is_dir) for i in f.scandir(op[1])))
        elif name == "filterdir":
            v = "infos:" + vlib.hxlist(sorted("%s/%d" % (i.name, i.is_dir) for i in f.filterdir(op[1])))
        elif name == "walkfiles":
            v = "names:" + vlib.hxlist(sorted(f.walk.files(op[1])))
        elif name == "readtext":
            v = "text:" + hx(f.readtext(op[1]))
        elif name == "writetext":
            f.writetext(op[1], op[2])
            v = "unit"
        elif name == "makedir":
            f.makedir(op[1], recreate=op[2])
            v = "unit"
        elif name == "makedirs":
            f.makedirs(op[1], recreate=op[2])
            v = "unit"
        elif name == "writebytes":
            f.writebytes(op[1], op[2])
            v = "unit"
        elif name == "appendbytes":
            f.appendbytes(op[1], op[2])
            v = "unit"
        elif name == "create":
            v = "bool:%d" % f.create(op[1], wipe=op[2])
        elif name == "touch":
            f.touch(op[1])
            v = "unit"
        elif name == "settimes":
            import datetime

            f.settimes(op[1], modified=datetime.datetime(2001, 2, 3, 4, 5, 6, tzinfo=datetime.timezone.utc))
            v = "unit"
        elif name == "openbin":
            f.openbin(op[1], op[2]).close()
            v = "unit"
        elif name == "remove":
            f.remove(op[1])
            v = "unit"
        elif name == "removedir":
            f.removedir(op[1])
            v = "unit"
        elif name == "removetree":
            f.removetree(op[1])
            v = "unit"
        elif name == "move":
            f.move(op[1], op[2], overwrite=op[3])
            v = "unit"
        elif name == "copy":
            f.copy(op[1], op[2], overwrite=op[3])
            v = "unit"
        elif name == "movedir":
            f.movedir(op[1], op[2], create=op[3])
            v = "unit"
        elif name == "copydir":
            f.copydir(op[1], op[2], create=op[3])
            v = "unit"
        else:
            raise AssertionError(op)
        return ("ok", v)
    except sched.Deadlock:
        raise
    except E.FSError as e:
        return ("err", type(e).__name__)
    except BaseException as e:  # noqa
        if isinstance(e, (KeyboardInterrupt, SystemExit)):
            raise
        return ("err", "Leak:" + type(e).__name__)


def op_args(op):
    a = [op[0]]
    for x in op[1:]:
        if isinstance(x, bool):
            a.append("1" if x else "0")
        else:
            a.append(hx(x))
    return " ".join(a)


def op_json(op):
    return [x.decode("latin-1") if isinstance(x, bytes) else x for x in op]


def op_from_json(o):
    o = list(o)
    if o[0] in ("writebytes", "appendbytes") and isinstance(o[2], str):
        o[2] = o[2].encode("latin-1")
    return tuple(o)


def tree_json(tree):
    return [[e[0], e[1]] + ([e[2].decode("latin-1")] if e[0] == "F" else []) for e in tree]


def tree_from_json(t):
    return [tuple([e[0], e[1]] + ([e[2].encode("latin-1")] if e[0] == "F" else [])) for e in t]


# ----------------------------------------------------------------------------- backends

KINDS = ["mem", "os", "mount", "multi", "sub2"]


class Conc:
    """a fresh filesystem (built with cooperative locks) holding `tree`; `views[i % len]` is the
    object thread i calls; `main` is the one snapshots are taken from"""

    def __init__(self, kind, tree):
        from fs.memoryfs import MemoryFS

        self.kind = kind
        self.cleanup = None
        self.inner = []
        if kind == "mem":
            self.main = MemoryFS()
            self.views = [self.main]
        elif kind == "os":
            from fs.osfs import OSFS

            os.makedirs(H.SCRATCH_ROOT, exist_ok=True)
            d = tempfile.mkdtemp(dir=H.SCRATCH_ROOT)
            self.main = OSFS(d)
            self.views = [self.main]
            self.cleanup = lambda: shutil.rmtree(d, ignore_errors=True)
        elif kind == "mount":
            from fs.mountfs import MountFS

            self.main = MountFS()
            a = MemoryFS()
            self.main.mount("d", a)  # everything below /d lives in `a`, the rest in default_fs
            self.inner = [a]
            self.views = [self.main]
        elif kind == "multi":
            from fs.multifs import MultiFS

            self.main = MultiFS()
            w, lo = MemoryFS(), MemoryFS()
            self.main.add_fs("lo", lo, priority=1)
            self.main.add_fs("w", w, write=True, priority=5)
            self.inner = [w, lo]
            self.views = [self.main]
        elif kind == "multi-cold":
            # the tree lives in the LOWER-priority member and nothing has been looked up through the
            # MultiFS yet: its priority-order cache is cold when the threads start
            from fs.multifs import MultiFS

            self.main = MultiFS()
            w, lo = MemoryFS(), MemoryFS()
            for e in tree:
                if e[0] == "D":
                    lo.makedirs(e[1], recreate=True)
                else:
                    lo.writebytes(e[1], e[2])
            tree = []
            self.main.add_fs("lo", lo, priority=1)
            self.main.add_fs("w", w, write=True, priority=5)
            self.inner = [w, lo]
            self.views = [self.main]
        elif kind == "sub2":
            parent = MemoryFS()
            parent.makedir("x")
            parent.writebytes("outside", b"canary")
            self.inner = [parent]
            self.views = [parent.opendir("x"), parent.opendir("x")]
            self.main = self.views[0]
        else:
            raise ValueError(kind)
        for e in tree:
            if e[0] == "D":
                self.main.makedirs(e[1], recreate=True)
            else:
                self.main.writebytes(e[1], e[2])

    def view(self, i):
        return self.views[i % len(self.views)]

    def snapshot(self):
        s = H.snapshot(self.main)
        return None if s is None else tuple(H.canon_tree(s))

    def close(self):
        for f in self.views + [self.main] + self.inner:
            try:
                f.close()
            except Exception:
                pass
        if self.cleanup:
            self.cleanup()


_SEQ_CACHE = {}


def seq_outcomes(kind, tree, calls):
    """outcomes (results, final tree) of every sequential order of the calls, each on a fresh
    copy of the same backend; the property's reference"""
    key = (kind, repr(tree), repr(calls))
    if key in _SEQ_CACHE:
        return _SEQ_CACHE[key]
    outs = {}
    for order in itertools.permutations(range(len(calls))):
        b = Conc(kind, tree)
        try:
            res = [None] * len(calls)
            for i in order:
                res[i] = call_op(b.view(i), calls[i])
            outs[(tuple(res), b.snapshot())] = order
        finally:
            b.close()
    _SEQ_CACHE[key] = outs
    if len(_SEQ_CACHE) > 4000:
        _SEQ_CACHE.clear()
    return outs


def run_schedule(kind, tree, calls, policy, max_steps=60000):
    """one scheduled execution of the calls on a fresh backend.
    returns (status, results, final tree, run) ; status in ok | deadlock | sched-error"""
    b = Conc(kind, tree)
    try:
        fns = [(lambda i=i: call_op(b.view(i), calls[i])) for i in range(len(calls))]
        r = sched.Run(fns, policy, fs_dir=FS_DIR, max_steps=max_steps).execute(timeout=30)
        if r.deadlock:
            return "deadlock", None, None, r
        if r.error is not None:
            return "sched-error", None, None, r
        res = []
        for x in r.results:
            if x is None or x[0] == "aborted":
                return "sched-error", None, None, r
            if x[0] == "exc":
                res.append(("err", "Leak:" + type(x[1]).__name__))
            else:
                res.append(x[1])
        return "ok", tuple(res), b.snapshot(), r
    finally:
        b.close()


# ----------------------------------------------------------------------------- signatures

BACKEND_CLASSES = {
    "mem": ["MemoryFS"],
    "os": ["OSFS"],
    "mount": ["MountFS", "MemoryFS"],
    "multi": ["MultiFS", "MemoryFS"],
    "multi-cold": ["MultiFS", "MemoryFS"],
    "sub2": ["SubFS", "MemoryFS"],
}

_SHAPES = {}


def load_shapes(drv):
    methods = sorted({"scandir", "filterdir", "readtext", "writetext", "exists", "isdir", "isfile", "listdir", "getsize", "gettype", "isempty", "getinfo", "readbytes",
                      "makedir", "makedirs", "writebytes", "appendbytes", "create", "touch", "settimes", "openbin",
                      "remove", "removedir", "removetree", "move", "copy", "movedir", "copydir"})
    classes = ["MemoryFS", "OSFS", "MountFS", "MultiFS", "SubFS"]
    reqs = ["conc.shape %s %s" % (c, m) for c in classes for m in methods]
    reps = drv.batch(reqs)
    k = 0
    for c in classes:
        for m in methods:
            _SHAPES[(c, m)] = reps[k].split(" ")
            k += 1
    return _SHAPES


def responsible(kind, calls):
    """the (class, method) of a call that the generated table classifies as `multi` (several
    atomic pieces: a check-then-act / open-io-close candidate); None when every call is one
    atomic piece according to the table"""
    for cls in BACKEND_CLASSES[kind]:
        for op in calls:
            sh = _SHAPES.get((cls, op[0]))
            if sh and sh[0] in ("multi", "unknown"):
                return (sh[1] if len(sh) > 1 else cls, op[0], cls)
    return None


def signature(kind, calls, status):
    r = responsible(kind, calls)
    if status == "deadlock":
        return "C08/%s/deadlock/%s" % (kind, "+".join(sorted(op[0] for op in calls)))
    if all(op[0] in READERS for op in calls):
        # calls that change nothing cannot disturb each other unless the object keeps hidden mutable
        # state (a cache): never one of the recorded findings, whatever the backend
        return "C08/%s/readers/%s" % (kind, "+".join(sorted(op[0] for op in calls)))
    if r is not None:
        if r[0] == "OSFS":
            # every OSFS primitive is a sequence of system calls without the filesystem lock
            return "C08/known/OSFS-primitives-are-unlocked-system-call-sequences"
        if r[0] == "MultiFS":
            # MultiFS._delegate (exists() on each member) followed by the call on the member found
            return "C08/known/MultiFS-delegate-then-act"
        return "C08/known/%s.%s-not-atomic/on-%s" % (r[0], r[1], r[2])
    if kind in ("mount", "multi", "os"):
        # compound defaults of fs/base.py take the object's OWN lock; the primitive methods of
        # MountFS / MultiFS delegate under the member's lock only, those of OSFS take no lock at all
        comp = BACKEND_CLASSES[kind][0]
        shapes = [(_SHAPES.get((comp, op[0])) or ["?"])[0] for op in calls]
        if "singleLocked" in shapes and any(x != "singleLocked" for x in shapes):
            return "C08/known/%s-own-lock-does-not-cover-%s" % (
                comp, "its-unlocked-primitives" if kind == "os" else "delegated-calls")
    if kind == "sub2":
        # a compound default that WrapFS does not override (today: writetext) runs under the lock of
        # the SubFS *view* it was called on; every view has its own lock and the other methods
        # delegate under the parent's lock, so nothing excludes it - not even a second call of itself
        own = sorted({op[0] for op in calls if (_SHAPES.get(("SubFS", op[0])) or ["?"])[0] == "singleLocked"})
        if own:
            # the recorded finding names the methods (today: writetext); another method running under
            # the view's private lock is a different violation
            return "C08/known/SubFS-own-lock-does-not-cover-delegated-calls/" + "+".join(own)
    return None


READERS = {"exists", "isdir", "isfile", "listdir", "getsize", "gettype", "isempty", "getinfo", "readbytes", "readtext",
           "scandir", "filterdir", "walkfiles"}
READER_CALLS = [("readbytes", "f"), ("exists", "f"), ("getinfo", "d/g"), ("listdir", "d"), ("isdir", "d/s"), ("readtext", "f"),
                ("getsize", "d/g"), ("isempty", "e"), ("exists", "nope")]
READER_KINDS = ["mem", "multi-cold", "multi", "mount", "sub2", "os"]


def readers_phase(rep, thorough, rng):
    """pairs of calls that change nothing, on every backend incl. a MultiFS whose caches are cold: each
    must return what it returns alone under every explored interleaving"""
    pairs = [(a, b) for i, a in enumerate(READER_CALLS) for b in READER_CALLS[i:]]
    for kind in READER_KINDS:
        chosen = pairs if thorough else ([(READER_CALLS[0], READER_CALLS[0]), (READER_CALLS[0], READER_CALLS[1])]
                                         + rng.sample(pairs, 4 if kind in ("multi-cold", "multi") else 2))
        for calls in chosen:
            explore(rep, kind, "readers", TREE0, calls, bound=2 if thorough else 1, level=1 if thorough else 0,
                    budget=120 if thorough else 40, rng=rng, label="/readers")


# ----------------------------------------------------------------------------- call sets

TREE0 = [("D", "d"), ("D", "d/s"), ("F", "d/g", b"gg"), ("D", "e"), ("F", "f", b"ff")]


def one_path_ops(p, tag):
    d = tag.encode()
    return [
        ("makedir", p, False), ("makedirs", p, True), ("remove", p), ("removedir", p), ("removetree", p),
        ("writebytes", p, b"W" + d), ("appendbytes", p, b"A" + d), ("create", p, True), ("touch", p),
        ("openbin", p, "w"), ("settimes", p),
        ("readbytes", p), ("exists", p), ("isdir", p), ("isfile", p), ("listdir", p), ("isempty", p), ("getinfo", p),
        ("getsize", p),
    ]


def two_path_ops(a, b):
    return [("move", a, b, False), ("move", a, b, True), ("copy", a, b, False), ("copy", a, b, True),
            ("movedir", a, b, True), ("copydir", a, b, True)]


MUTATORS = {"makedir", "makedirs", "remove", "removedir", "removetree", "writebytes", "appendbytes", "create", "touch",
            "openbin", "settimes", "move", "copy", "movedir", "copydir"}


def call_sets(tier):
    """(relation, tree, calls) — pairs of calls over the path relations same / parent-child /
    siblings, at least one of the two a mutator"""
    out = []

    def pairs(rel, tree, ops1, ops2):
        for a in ops1:
            for b in ops2:
                if a[0] in MUTATORS or b[0] in MUTATORS:
                    out.append((rel, tree, (a, b)))

    # same path: an empty directory, a file, a name that does not exist yet
    for p in ("d/s", "f", "e/n"):
        ops = one_path_ops(p, "1")
        pairs("same", TREE0, ops, one_path_ops(p, "2"))
        pairs("same", TREE0, two_path_ops("f", p) + two_path_ops("d", p), ops)
    # parent / child
    for parent, child in (("e", "e/n"), ("d", "d/g"), ("d/s", "d/s/n")):
        pairs("parent-child", TREE0, one_path_ops(parent, "1"), one_path_ops(child, "2"))
        pairs("parent-child", TREE0, two_path_ops("f", child), one_path_ops(parent, "1"))
        pairs("parent-child", TREE0, two_path_ops(parent, "z"), one_path_ops(child, "2"))
    # siblings
    for a, b in (("d/g", "d/n"), ("e/n1", "e/n2"), ("d/s", "d/g")):
        pairs("siblings", TREE0, one_path_ops(a, "1"), one_path_ops(b, "2"))
        pairs("siblings", TREE0, two_path_ops("f", a), one_path_ops(b, "2"))
        pairs("siblings", TREE0, two_path_ops("f", a), two_path_ops("f", b))
    # dedupe symmetric duplicates
    seen, uniq = set(), []
    for rel, tree, calls in out:
        k = (rel, repr(sorted(repr(c) for c in calls)))
        if k not in seen:
            seen.add(k)
            uniq.append((rel, tree, calls))
    return uniq


DIRECTED = [
    # the races named by the property text, first
    ("parent-child", [("D", "d")], (("removedir", "d"), ("writebytes", "d/x", b"1"))),
    ("parent-child", [("D", "d")], (("removedir", "d"), ("makedir", "d/x", False))),
    ("parent-child", [("D", "d")], (("removedir", "d"), ("create", "d/x", False))),
    ("same", [("F", "a", b"\x07")], (("move", "a", "b", False), ("writebytes", "b", b"\x01\x02"))),
    ("same", [], (("writebytes", "f", b"\x01"), ("writebytes", "f", b"\x02\x03"))),
    ("same", [("F", "f", b"old")], (("readbytes", "f"), ("writebytes", "f", b"new"))),
    ("same", [("F", "f", b"ff")], (("getinfo", "f"), ("move", "f", "g", False))),
    ("same", [("D", "d"), ("F", "d/f", b"ff")], (("getinfo", "d"), ("movedir", "d", "z", True))),
    ("same", [("F", "a", b"A")], (("copy", "a", "c", False), ("writebytes", "c", b"W"))),
    ("same", [("D", "a")], (("makedirs", "a/b/c", True), ("removedir", "a"))),
    ("siblings", [("D", "a")], (("makedir", "a/x", False), ("makedir", "a/y", False))),
    ("same", [("D", "a")], (("makedir", "a/x", False), ("makedir", "a/x", False))),
    ("same", [("F", "f", b"1")], (("remove", "f"), ("remove", "f"))),
    ("same", [("F", "f", b"1")], (("move", "f", "g", False), ("move", "f", "h", False))),
    ("same", [("D", "p"), ("F", "p/f", b"1")], (("movedir", "p", "q", True), ("writebytes", "p/n", b"2"))),
    ("same", [("D", "p"), ("F", "p/f", b"1")], (("removetree", "p"), ("appendbytes", "p/f", b"2"))),
    ("same", [("D", "p"), ("F", "p/f", b"1")], (("copydir", "p", "q", True), ("remove", "p/f"))),
    # compound defaults of fs/base.py whose check-then-act must be covered by the lock that the OTHER call
    # takes too (on two SubFS views: the parent's, never the view's own)
    ("same", [], (("create", "n", False), ("writebytes", "n", b"data"))),
    ("same", [], (("touch", "n"), ("writebytes", "n", b"data"))),
    ("same", [("F", "a", b"A")], (("copy", "a", "c", False), ("create", "c", False))),
    ("same", [], (("appendbytes", "n", b"1"), ("appendbytes", "n", b"2"))),
]


# text I/O is outside the model's operation language (Ref.Op): explored at line level only
TEXT_DIRECTED = [
    ("same", [], (("writetext", "f", "a"), ("writetext", "f", "bc"))),
    ("same", [("F", "f", b"old")], (("readtext", "f"), ("writetext", "f", "new"))),
    ("same", [("F", "f", b"old")], (("readtext", "f"), ("writebytes", "f", b"new"))),
    ("same", [("F", "f", b"old")], (("readbytes", "f"), ("writetext", "f", "new"))),
]


# every query that consumes `scandir` (a generator: its body runs in the consumer's thread, line by
# line under the tracer like any other frame) or looks a child up, against every call that unlinks
# or moves a CHILD of the directory, or the directory itself.  `scandir`, `filterdir`, `walk.files`
# are outside the model's operation language: line level only.
SCAN_TREE = [("D", "d"), ("F", "d/f", b"1"), ("F", "d/g", b"2"), ("D", "d/s"), ("D", "z")]
SCAN_CONSUMERS = [("listdir", "d"), ("scandir", "d"), ("isempty", "d"), ("filterdir", "d"), ("walkfiles", "d"),
                  ("getinfo", "d/f"), ("exists", "d/f"), ("copydir", "d", "c", True)]
SCAN_UNLINKERS = [("remove", "d/f"), ("removedir", "d/s"), ("move", "d/f", "z/f", False), ("movedir", "d/s", "z/s", True),
                  ("removetree", "d"), ("movedir", "d", "z/d", True)]
# (walk.files descends: one scandir per directory, so it is only paired with calls that leave the
# sub-directory alone)
SCAN_DIRECTED = [("parent-child", SCAN_TREE, (q, u)) for q in SCAN_CONSUMERS for u in SCAN_UNLINKERS
                 if not (q[0] == "walkfiles" and u[1] == "d/s")]
MODEL_OPS = {"exists", "isdir", "isfile", "listdir", "getsize", "gettype", "isempty", "getinfo", "readbytes",
             "makedir", "makedirs", "writebytes", "appendbytes", "create", "touch", "settimes", "openbin",
             "remove", "removedir", "removetree", "move", "copy", "movedir", "copydir"}


# ----------------------------------------------------------------------------- (i) model <-> code


def prog_shape(op, impl):
    """instruction kinds of the model program of one call (must mirror Conc.segments):
    'a' acquire, 's' step inside a locked block, 'r' release, 'u' unlocked step"""
    L = ["a", "s", "r"]
    n = op[0]
    if n == "removedir" and not impl["removedir"]:
        return L + L
    if n == "move" and not impl["move"]:
        return ([] if op[3] else L) + L + L
    if n == "writebytes" and not impl["writebytes"]:
        return L + ["u"]
    if n == "readbytes" and not impl["readbytes"]:
        return L + ["u"]
    return L


def region_order(sched_ids, shapes):
    """model schedule (thread id per instruction) -> thread id per *effect*: every locked block
    of the model has exactly one step, so the order of the `s`/`u` instructions is the order in
    which whole regions have to run on the real code (an unlocked step that the model places
    inside somebody else's locked block simply runs before that block's step)"""
    pc = [0] * len(shapes)
    order = []
    for t in sched_ids:
        k = shapes[t][pc[t]]
        if k in ("s", "u"):
            order.append(t)
        pc[t] += 1
    return order


def parse_runs(line):
    runs = []
    for ent in line.split(" ; "):
        f = [x.strip() for x in ent.split(" | ")]
        sch = [] if f[0] == "-" else [int(x) for x in f[0].split(".")]
        outs = []
        for o in f[4].split(" , "):
            if o.startswith("ok "):
                v = o[3:]
                if v.startswith("names:"):
                    v = "names:" + vlib.hxlist(sorted(vlib.unhxlist(v[6:])))
                outs.append(("ok", v))
            elif o.startswith("err "):
                outs.append(("err", o[4:]))
            else:
                outs.append(None)
        tree = tuple(H.canon_tree(H.dec_tree(f[5])))
        runs.append({"sched": sch, "done": f[1] == "1", "deadlocked": f[2] == "1", "lin": f[3] == "1",
                     "outs": tuple(outs), "tree": tree})
    return runs


# error classes that backends may legitimately report differently when several documented
# conditions hold at once (C01: `Ref.adm`); the model reports one of them
def same_result(model, real):
    if model == real:
        return True
    if model is None or real is None:
        return False
    if model[0] == "err" and real[0] == "err" and not real[1].startswith("Leak:"):
        return (model[1], real[1]) in ADM_PAIRS or (real[1], model[1]) in ADM_PAIRS
    return False


ADM_PAIRS = {
    ("DirectoryExpected", "ResourceNotFound"),
    ("FileExpected", "ResourceNotFound"),
    ("DirectoryExists", "DirectoryExpected"),
    ("DestinationExists", "FileExpected"),
    ("DestinationExists", "ResourceNotFound"),
    ("FileExists", "FileExpected"),
    ("DirectoryExpected", "FileExpected"),
}


UNLINKERS = {"remove", "removedir", "removetree", "move", "movedir"}


def identity_matters(calls, impl):
    """the model addresses an open file / a looked-up entry by path; skip call sets in which a
    non-atomic writebytes/readbytes — or an info reader, should the table ever show MemoryFS.getinfo
    to read the entry outside the lock again (it is one locked block since 0b00a5c, so info readers
    take part in the model comparison) — races with a call that can unlink or move that resource (or an ancestor)"""
    info_split = (_SHAPES.get(("MemoryFS", "getinfo")) or ["?"])[0] != "singleLocked"
    for i, a in enumerate(calls):
        if (a[0] == "writebytes" and not impl["writebytes"]) or (a[0] == "readbytes" and not impl["readbytes"]) \
                or (info_split and a[0] in ("getinfo", "getsize", "gettype")):
            for j, b in enumerate(calls):
                if i != j and b[0] in UNLINKERS:
                    src = b[1].strip("/")
                    tgt = a[1].strip("/")
                    if tgt == src or tgt.startswith(src + "/") or src == "":
                        return True
                    if b[0] in ("move", "movedir") and b[2].strip("/") == tgt:
                        return True
            if info_split and a[0] in ("getinfo", "getsize", "gettype"):
                for j, b in enumerate(calls):
                    # the size / name read after the lookup also sees concurrent content changes
                    if i != j and b[0] in ("writebytes", "appendbytes", "create", "openbin", "copy", "move", "touch"):
                        if a[1].strip("/") in (b[1].strip("/"), (b[2].strip("/") if b[0] in ("copy", "move") else None)):
                            return True
    return False


def model_correspondence(rep, drv, impl, sets, label):
    """(i) force every segment-level interleaving of the model on the real MemoryFS"""
    kept = []
    for x in sets:
        if identity_matters(x[2], impl):
            rep.count("model-skipped/entry-identity")
        else:
            kept.append(x)
    sets = kept
    reqs = []
    for rel, tree, calls in sets:
        reqs.append("conc.runs T %s %s" % (H.enc_tree(tree), " / ".join(op_args(c) for c in calls)))
    replies = drv.batch(reqs)
    for (rel, tree, calls), line in zip(sets, replies):
        if line == "bad-op":
            raise vlib.Infra("driver rejected: " + repr(calls))
        runs = parse_runs(line)
        shapes = [prog_shape(c, impl) for c in calls]
        reported = False
        orders_done = set()
        for m in runs:
            if reported:
                break
            if m["done"] and len(m["sched"]) == sum(len(x) for x in shapes):
                o = tuple(region_order(m["sched"], shapes))
                if o in orders_done:
                    continue
                orders_done.add(o)
            if m["deadlocked"] or not m["done"]:
                rep.violation({"mode": "model", "tree": tree_json(tree), "calls": [op_json(c) for c in calls],
                               "model_sched": m["sched"]},
                              "the segment-level model deadlocks on a single-lock call set (contradicts memoryfs_no_deadlock)",
                              found_input=False)
                continue
            if len(m["sched"]) != sum(len(s) for s in shapes):
                raise vlib.Infra("prog_shape out of sync with Conc.segments for %r" % (calls,))
            order = region_order(m["sched"], shapes)
            pol = sched.Regions(order)
            status, res, snap, r = run_schedule("mem", tree, calls, pol)
            rep.programs += 1
            rep.count("model-interleavings/" + label)
            case = {"mode": "regions", "backend": "mem", "relation": rel, "tree": tree_json(tree),
                    "calls": [op_json(c) for c in calls], "order": order, "model_sched": m["sched"],
                    "model": {"outs": [list(o) if o else None for o in m["outs"]], "tree": tree_json(m["tree"]),
                              "linearizable": m["lin"]},
                    "real": {"status": status, "outs": [list(o) for o in res] if res else None,
                             "tree": tree_json(snap) if snap is not None else None}}
            # a call that failed early has fewer real regions than model segments (the model's
            # remaining steps are no-ops); a call that succeeded must have shown every region
            short = [t for t in pol.skipped if res and res[t][0] == "ok"] if status == "ok" else []
            agree = (status == "ok" and snap == m["tree"] and len(res) == len(m["outs"])
                     and all(same_result(a, b) for a, b in zip(m["outs"], res)) and not short)
            if agree:
                rep.nontrivial("i", rel, repr(calls), repr(order), repr(res))
                if not m["lin"]:
                    # the model's interleaving is a genuine non-linearizable one and the real code follows it
                    seqs = seq_outcomes("mem", tree, calls)
                    rep.evaluations += 1
                    if (res, snap) not in seqs:
                        reported = True
                        report(rep, case, "non-linearizable interleaving predicted by the model and reproduced on "
                               "the real MemoryFS: %s -> %s, tree %s; no sequential order gives that"
                               % (calls, res, snap), True, signature("mem", calls, status))
                continue
            # correspondence broke: does the real code violate the property on this schedule?
            rep.disagreements_checked += 1
            reported = True
            bad = None
            if status == "deadlock":
                bad = "deadlock"
            elif status == "ok":
                seqs = seq_outcomes("mem", tree, calls)
                rep.evaluations += 1
                if (res, snap) not in seqs:
                    bad = "not linearizable"
            if bad:
                report(rep, case, "forcing the model's interleaving %s of %s on the real MemoryFS: %s (%s, tree %s)"
                       % (order, calls, bad, res, snap), True, signature("mem", calls, status))
            else:
                rep.violation(case, "model and real MemoryFS disagree on segment-level interleaving %s of %s: model %s / %s, "
                              "real %s %s / %s (segment boundaries or segment semantics differ; regions entered %s, "
                              "skipped %s)" % (order, calls, m["outs"], m["tree"], status, res, snap,
                                               pol.regions_entered, pol.skipped), found_input=False,
                              signature="C08/correspondence/" + calls[0][0] + "+" + calls[1][0])


# ----------------------------------------------------------------------------- (ii) exploration

PURE_FILES = ("path.py", "errors.py", "mode.py", "enums.py", "permissions.py", "info.py", "time.py", "_typing.py",
              "_repr.py")


def interesting(ev, held, level):
    """is a preemption worth trying before this event?  level 2 = every yield point,
    level 1 = lock events and lines outside pure helper modules, level 0 = lock events and
    lines executed while holding no lock (outside pure helper modules)"""
    if level >= 2 or ev is None:
        return True
    if ev[0] in ("acq", "rel", "blocked"):
        return True
    if ev[0] == "line":
        if ev[1].endswith(PURE_FILES):
            return False
        return True if level >= 1 else held == 0
    return True


def preemptions(taken, prefix_len=None):
    n = 0
    for c, _alts, cur, _ev, _held in taken[: prefix_len if prefix_len is not None else len(taken)]:
        if cur is not None and c != cur:
            n += 1
    return n


def explore(rep, kind, rel, tree, calls, bound, level, budget, rng=None, label=""):
    """all schedules with <= bound preemptions (DFS over choice points), at most `budget` runs
    (when the budget is smaller than the space the frontier is sampled with `rng`)"""
    seqs = seq_outcomes(kind, tree, calls)
    stack = [[t] for t in range(len(calls))][::-1]
    done_runs = 0
    seen_out = set()
    while stack and done_runs < budget:
        if rng is not None and len(stack) > 1:
            i = rng.randrange(len(stack))
            stack[i], stack[-1] = stack[-1], stack[i]
        prefix = stack.pop()
        pol = sched.Explore(prefix)
        status, res, snap, r = run_schedule(kind, tree, calls, pol)
        for _retry in range(2):
            # a stalled machine (wall-clock timeout) is not a property of the schedule: try again
            if status == "sched-error" and "wall-clock" in str(r.error):
                rep.count("retried-after-wall-clock-timeout")
                pol = sched.Explore(prefix)
                status, res, snap, r = run_schedule(kind, tree, calls, pol)
        done_runs += 1
        rep.programs += 1
        rep.evaluations += 1
        rep.count("schedules/%s%s" % (kind, label))
        if status == "sched-error":
            # the prefix was recorded from a real run of the same deterministic program
            rep.violation({"mode": "explore", "backend": kind, "tree": tree_json(tree), "calls": [op_json(c) for c in calls],
                           "prefix": prefix, "error": str(r.error)},
                          "schedule prefix %s of %s on %s is not replayable: %s (non-determinism in the harness or "
                          "the library)" % (prefix, calls, kind, r.error), found_input=False,
                          signature="C08/harness/nondeterministic")
            continue
        outcome = (status, res, snap)
        if outcome not in seen_out:
            seen_out.add(outcome)
            rep.nontrivial("ii", kind, repr(calls), repr(outcome))
        leak = status == "ok" and any(x[0] == "err" and x[1].startswith("Leak:") for x in res)
        ok = status == "ok" and (res, snap) in seqs and not leak
        if not ok:
            # confirm: the same choices must give the same outcome (guards against a disturbed
            # environment, e.g. the scratch directory of the OSFS backend removed by someone else)
            full = [c for c, _a, _c, _e, _h in pol.taken]
            st2, res2, snap2, _r2 = run_schedule(kind, tree, calls, sched.Explore(full))
            if (st2, res2, snap2) != (status, res, snap):
                rep.count("unconfirmed-outcome/%s" % kind)
                continue
            case = {"mode": "explore", "backend": kind, "relation": rel, "tree": tree_json(tree),
                    "calls": [op_json(c) for c in calls], "prefix": [c for c, _a, _c, _e, _h in pol.taken],
                    "preemptions": preemptions(pol.taken), "status": status,
                    "observed": {"outs": [list(o) for o in res] if res else None,
                                 "tree": tree_json(snap) if snap is not None else None},
                    "sequential": [{"order": list(o), "outs": [list(x) for x in k[0]],
                                    "tree": tree_json(k[1]) if k[1] is not None else None} for k, o in seqs.items()],
                    "switches": r.switch_log[:40]}
            what = "deadlock" if status == "deadlock" else "results %s, final tree %s" % (res, snap)
            if leak:
                what += " (an exception class outside fs.errors: a violation by itself)"
            fired = report(rep, case, "%s %s on %s: schedule with %d preemption(s) gives %s — no sequential order of the "
                           "calls does that" % (rel, calls, kind, preemptions(pol.taken), what), True,
                           signature(kind, calls, status))
            rep.count("non-linearizable/%s" % kind)
            if fired:
                return done_runs
            # a known finding: one report per call set is enough, go on with the next set
            return done_runs
        # extend: alternatives at the choice points after the prefix
        base = preemptions(pol.taken, len(prefix))
        extra = 0
        for k in range(len(prefix), len(pol.taken)):
            c, alts, cur, ev, held = pol.taken[k]
            is_pre = cur is not None
            for a in alts:
                cost = base + extra + (1 if is_pre else 0)
                if cost > bound:
                    continue
                if is_pre and not interesting(ev, held, level):
                    continue
                stack.append([x[0] for x in pol.taken[:k]] + [a])
            if cur is not None and c != cur:
                extra += 1
    return done_runs


# ----------------------------------------------------------------------------- (iii) LRUCache


def lru_caller_cases():
    import fs.wildcard
    import fs.glob

    return [
        ("wildcard.match", fs.wildcard, lambda: fs.wildcard.match("*.py", "a.py"), True),
        ("wildcard.imatch", fs.wildcard, lambda: fs.wildcard.imatch("*.PY", "a.py"), True),
        ("wildcard.match-no", fs.wildcard, lambda: fs.wildcard.match("*.py", "a.txt"), False),
        ("glob.match", fs.glob, lambda: fs.glob.match("**/*.py", "/a/b.py"), True),
        ("glob.imatch", fs.glob, lambda: fs.glob.imatch("*.PY", "/b.py"), True),
    ]


def lru_caller_run(mod, fn, warm, prefix):
    mod._PATTERN_CACHE.clear()
    if warm:
        fn()

    def w():
        try:
            return ("ok", fn())
        except BaseException as e:  # noqa
            if isinstance(e, sched.Deadlock):
                raise
            return ("exc", type(e).__name__)

    pol = sched.Explore(prefix)
    r = sched.Run([w, w], pol, fs_dir=FS_DIR).execute(timeout=20)
    got = [x[1] if x and x[0] == "ok" else x for x in r.results]
    return pol, r, got


def lru_part(rep, drv, tier, rng):
    import fs.lrucache
    import fs.wildcard
    import fs.glob
    import inspect

    src, first = inspect.getsourcelines(fs.lrucache.LRUCache.__getitem__)
    # the three C-level steps: the lines calling __getitem__, __delitem__, __setitem__ of the OrderedDict
    gates = {}
    for i, l in enumerate(src):
        for k, name in enumerate(("_super.__getitem__", "_super.__delitem__", "_super.__setitem__")):
            if name in l:
                gates[first + i] = k
    if sorted(gates.values()) != [0, 1, 2]:
        rep.violation({"mode": "lru", "source": src}, "LRUCache.__getitem__ no longer is get / delete / re-insert: "
                      "the LRU state machine of Conc.lean does not describe it", found_input=False,
                      signature="C08/correspondence/lrucache")
        return

    def gate(run, tid, ev):
        return ev[0] == "line" and ev[1] == "lrucache.py" and ev[2] in gates

    runs = drv.batch(["lru.runs get 5 / get 5 @ 5=50", "lru.runs get 5 / get 5 @ 1=10,5=50"])
    for line, init in zip(runs, ([(5, 50)], [(1, 10), (5, 50)])):
        for ent in line.split(" ; "):
            f = [x.strip() for x in ent.split(" | ")]
            sch = [int(x) for x in f[0].split(".")]
            cache = fs.lrucache.LRUCache(1000)
            for k, v in init:
                cache[k] = v

            def get():
                try:
                    return ("ok", cache[5])
                except KeyError:
                    return ("KeyError", None)

            pol = sched.Regions(sch, gate=gate)
            r = sched.Run([get, get], pol, fs_dir=FS_DIR).execute(timeout=20)
            rep.programs += 1
            rep.count("lru-model-interleavings")
            raised = "".join("1" if (x and x[0] == "ok" and x[1][0] == "KeyError") else "0" for x in r.results)
            final = ",".join("%d=%d" % kv for kv in cache.items()) or "-"
            if r.error or r.deadlock or raised != f[1] or final != f[3]:
                rep.violation({"mode": "lru", "init": init, "sched": sch, "model": f, "real": [raised, final, str(r.error)]},
                              "LRUCache: model schedule %s predicts KeyError flags %s / cache %s, real code gives %s / %s"
                              % (sch, f[1], f[3], raised, final), found_input=False, signature="C08/correspondence/lrucache")
            else:
                rep.nontrivial("lru", repr(init), repr(sch), raised)
    # the callers: two threads matching the same pattern; the answer must be the sequential one
    cases = lru_caller_cases()
    budget = 110 if tier == "quick" else 1500
    for name, mod, fn, want in cases:
        for warm in (False, True):
            stack = [[0], [1]]
            n = 0
            while stack and n < budget:
                prefix = stack.pop(rng.randrange(len(stack)))
                pol, r, got = lru_caller_run(mod, fn, warm, prefix)
                n += 1
                rep.programs += 1
                rep.evaluations += 1
                rep.count("lru-caller-schedules")
                if r.error or r.deadlock or got != [("ok", want), ("ok", want)]:
                    rep.violation({"mode": "lru-caller", "case": name, "warm": warm, "prefix": [c for c, *_ in pol.taken],
                                   "got": repr(got), "error": str(r.error)},
                                  "%s from two threads (cache %s): %r instead of %r twice" % (name, "warm" if warm else "cold", got, want),
                                  found_input=True, signature="C08/lru/" + name)
                    break
                rep.nontrivial("lru-caller", name, warm, repr(got), len(mod._PATTERN_CACHE))
                base = preemptions(pol.taken, len(prefix))
                extra = 0
                for k in range(len(prefix), len(pol.taken)):
                    c, alts, cur, ev, held = pol.taken[k]
                    for a in alts:
                        if base + extra + (1 if cur is not None else 0) <= 2:
                            stack.append([x[0] for x in pol.taken[:k]] + [a])
                    if cur is not None and c != cur:
                        extra += 1
            mod._PATTERN_CACHE.clear()


# ----------------------------------------------------------------------------- run / replay


def parse_impl(line):
    d = dict(kv.split("=") for kv in line.split(" "))
    return {k: v == "1" for k, v in d.items()}


_REPORTED = set()


def report(rep, case, note, found_input, signature=None):
    """rep.violation, but one report per signature and run (the same root cause shows up in
    many call sets); repeats are only counted"""
    if signature and rep.match_known(signature) is None:
        if signature in _REPORTED:
            rep.count("repeat-of-reported/" + signature)
            return False
        _REPORTED.add(signature)
    return rep.violation(case, note, found_input=found_input, signature=signature)


def run(rep, tier, seed, deep=False):
    _REPORTED.clear()
    rep.rule = ("C08: for concurrent calls on one filesystem object, under every explored interleaving (preemption before "
                "every line of library code and at every lock acquire/release) per-call results and the final tree equal "
                "those of some sequential order of the same calls; no deadlock; no foreign exception")
    rep.assumptions = [
        "a lock gives mutual exclusion (threading.RLock's contract); the harness replaces it by a scheduler-aware "
        "re-entrant lock with the same semantics",
        "preemption inside a single source line (bytecode level) is not explored",
        "OSFS atomicity is the kernel's; close() is outside the claim",
        "the segment extractor (harness/extract/locktable.py) is validated by part (i), not verified",
    ]
    sched.install(FS_DIR)
    thorough = tier == "thorough" or deep
    try:
        drv = vlib.Driver()
        impl = parse_impl(drv.batch(["conc.impl"])[0])
        load_shapes(drv)
        rep.extra["table_impl"] = impl
        rep.extra["shapes"] = {"%s.%s" % k: v[0] for k, v in sorted(_SHAPES.items()) if k[0] in ("MemoryFS", "OSFS")}

        rng = vlib.rng_for(seed, "c08")
        sets = call_sets(tier)
        rep.extra["call_sets_total"] = len(sets)

        # ---- directed cases: model interleavings, then line-level exploration on every backend
        model_correspondence(rep, drv, impl, DIRECTED, "directed")
        scan_model = [x for x in SCAN_DIRECTED if all(c[0] in MODEL_OPS for c in x[2])]
        model_correspondence(rep, drv, impl, scan_model, "scan-consumers")
        for rel, tree, calls in SCAN_DIRECTED:
            explore(rep, "mem", rel, tree, calls, bound=2 if thorough else 1, level=1 if thorough else 0,
                    budget=400 if thorough else 36, rng=rng, label="/scan-consumers")
        for rel, tree, calls in DIRECTED + TEXT_DIRECTED:
            for kind in KINDS:
                t = shift_tree(kind, tree)
                c = shift_calls(kind, calls)
                explore(rep, kind, rel, t, c, bound=2 if thorough else 1, level=1 if thorough else 0,
                        budget=(700 if kind == "mem" else 300) if thorough else (120 if kind == "mem" else 40), rng=rng,
                        label="/directed")

        readers_phase(rep, thorough, rng)

        # ---- (i) model <-> code on the whole pair matrix (MemoryFS)
        n_i = len(sets) if thorough else 420
        chosen = sets if n_i >= len(sets) else rng.sample(sets, n_i)
        model_correspondence(rep, drv, impl, chosen, "matrix")

        # ---- (ii) line-level exploration, oracle only
        if thorough:
            plan = [("mem", 220, 2, 1, 200), ("sub2", 50, 1, 1, 100), ("mount", 50, 1, 1, 100),
                    ("multi", 50, 1, 1, 100), ("os", 40, 1, 1, 100)]
        else:
            plan = [("mem", 30, 1, 0, 50), ("sub2", 8, 1, 0, 40), ("mount", 8, 1, 0, 40), ("multi", 8, 1, 0, 40),
                    ("os", 7, 1, 0, 40)]
        for kind, n_sets, bound, level, budget in plan:
            for rel, tree, calls in rng.sample(sets, min(n_sets, len(sets))):
                explore(rep, kind, rel, shift_tree(kind, tree), shift_calls(kind, calls), bound, level, budget, rng=rng)
        # triples (random schedules beyond the bound)
        for _ in range(40 if thorough else 6):
            a, b = rng.sample(sets, 2)
            calls = (a[2][0], a[2][1], b[2][0])
            explore(rep, "mem", "triple", TREE0, calls, bound=2, level=0, budget=120 if thorough else 25, rng=rng,
                    label="/triple")

        # ---- (iii) LRUCache
        lru_part(rep, drv, tier, rng)
    finally:
        sched.uninstall()
        H.cleanup_scratch()


def shift_tree(kind, tree):
    return tree


def shift_calls(kind, calls):
    return calls


def replay(rep, case):
    c = case.get("case", case)
    sched.install(FS_DIR)
    try:
        mode = c.get("mode")
        if mode in ("explore", "regions"):
            tree = tree_from_json(c["tree"])
            calls = tuple(op_from_json(o) for o in c["calls"])
            kind = c["backend"]
            pol = sched.Explore(c["prefix"]) if mode == "explore" else sched.Regions(c["order"])
            status, res, snap, r = run_schedule(kind, tree, calls, pol)
            seqs = seq_outcomes(kind, tree, calls)
            print("calls:   ", calls)
            print("observed:", status, res, snap)
            for k, o in seqs.items():
                print("sequential %s: %s %s" % (list(o), k[0], k[1]))
            ok = status == "ok" and (res, snap) in seqs
            if mode == "regions" and "model" in c:
                print("model:   ", c["model"])
            if not ok:
                print("VIOLATION property=C08 replay=<this file>")
                return 1
            print("linearizable on this schedule")
            return 0
        if mode == "lru-caller":
            for name, mod, fn, want in lru_caller_cases():
                if name == c["case"]:
                    pol, r, got = lru_caller_run(mod, fn, c["warm"], c["prefix"])
                    print("%s from two threads (cache %s): %r, expected %r twice" % (name, "warm" if c["warm"] else "cold", got, want))
                    if r.error or r.deadlock or got != [("ok", want), ("ok", want)]:
                        print("VIOLATION property=C08 replay=<this file>")
                        return 1
                    return 0
        print("nothing to replay for mode %r: %s" % (mode, case.get("note", "")))
        return 1 if case.get("found_failing_input") is False else 0
    finally:
        sched.uninstall()
        H.cleanup_scratch()
