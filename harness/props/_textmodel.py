"""TextModel — correspondence of lean/FsModel/Text.lean (universal newlines, codecs, byte-order
marks, `make_stream` / `FS.open` / `io.open` layer selection, `RawWrapper`, buffering) with
Python's `io` / `codecs` and with the real `fs.iotools`, `fs.base.FS.open/readtext/writetext/
appendtext`, `OSFS.open`; plus the oracle of the text half of C02 ("stored and read back exactly as
Python's io text layer would").

Theorems: lean/FsProofs/TextLaws.lean.  Called from props/c02.py (`check_text_model`).

Verdict rule:
  * the *oracle* (needs no model: the same text through `io.TextIOWrapper` over `io.BytesIO`, the
    same calls on a real `io` file) differs from what the filesystem stored / returned
        → violation with the failing input (found_input=True, signature C02/<backend>/text-…)
  * only the model and the code (or the model and Python's io / codecs) disagree
        → found_input=False (signature C02/textmodel/<kind>)
Parts: (i) newline machinery vs `io.TextIOWrapper`; (ii) codecs vs `codecs`; (iii) layer stacks vs
the objects `make_stream` / `FS.open` / `OSFS.open` return; (iv) end-to-end text on MemoryFS and
OSFS; (v) buffering not observable in the data; (vi) `RawWrapper` vs its model.
"""
from __future__ import annotations

import io
import itertools
import os
import shutil
import tempfile
import warnings

from vlib import hx

SCRATCH_ROOT = os.environ.get("VERIF_SCRATCH", "/tmp/verif-scratch")
MAXVIOL = 6
NL_TOK = {None: "N", "": "E", "\n": "LF", "\r": "CR", "\r\n": "CRLF"}
NEWLINES = [None, "", "\n", "\r", "\r\n"]
BOUNDARY_CPS = [0, 0x0A, 0x0D, 0x41, 0x7F, 0x80, 0xE9, 0x7FF, 0x800, 0xD7FF, 0xE000, 0xFEFF, 0xFFFD, 0xFFFF,
                0x10000, 0x1F600, 0x10FFFF]


# ----------------------------------------------------------------------------- driver format


def cps(s):
    return ",".join("%x" % ord(c) for c in s) or "-"


def uncps(t):
    return "" if t == "-" else "".join(chr(int(x, 16)) for x in t.split(","))


def unlines(t):
    assert t.startswith("L"), t
    return [uncps(x) for x in t[1:].split(";")] if t[1:] else []


def bad(rep, case, note, sig, found_input=False):
    if found_input:
        if rep.match_known(sig) or len([v for v in rep.violations if v["found_input"]]) < MAXVIOL:
            rep.violation(case, note, found_input=True, signature=sig)
    else:
        rep.disagreements_checked += 1
        rep.violation(case, note, found_input=False, signature=sig)


def rand_text(rng, n, unicode=True):
    out = []
    for _ in range(n):
        k = rng.random()
        if k < 0.18:
            out.append("\n")
        elif k < 0.36:
            out.append("\r")
        elif k < 0.42:
            out.append("\r\n")
        elif k < 0.75 or not unicode:
            out.append(chr(rng.randrange(0x20, 0x7F)))
        elif k < 0.9:
            out.append(chr(rng.choice([0xE9, 0xFF, 0x3B1, 0x65E5, 0x2028, 0x85, 0x0B, 0x0C, 0x1C, 0xFEFF])))
        else:
            out.append(chr(rng.choice([0x1F600, 0x10000, 0x10FFFF, 0x1D11E])))
    return "".join(out)


# ----------------------------------------------------------------------------- (i) newline machinery


def io_write(text, nl, enc="utf-32-le"):
    b = io.BytesIO()
    w = io.TextIOWrapper(b, encoding=enc, newline=nl)
    w.write(text)
    w.flush()
    out = b.getvalue().decode(enc)
    w.detach()
    return out


def io_reader(text, nl, chunk=None, enc="utf-32-le"):
    f = io.TextIOWrapper(io.BytesIO(text.encode(enc)), encoding=enc, newline=nl)
    if chunk:
        f._CHUNK_SIZE = chunk
    return f


def check_newlines(rep, drv, rng, tier):
    strs = ["".join(p) for L in range(0, 6) for p in itertools.product("a\r\n", repeat=L)]
    n_rand = 300 if tier == "quick" else 6000
    strs += [rand_text(rng, rng.randrange(6, 60)) for _ in range(n_rand)]
    strs += ["x" * 9000 + "\r\n" + "y" * 20, "\r" * 300 + "\n" * 300, "a b\x85c\x0bd\x0ce\n"]
    reqs, meta = [], []
    for s in strs:
        for nl in NEWLINES:
            t = NL_TOK[nl]
            reqs += ["text.write %s %s" % (t, cps(s)), "text.read %s %s" % (t, cps(s)), "text.lines %s %s" % (t, cps(s))]
            meta.append((s, nl))
    replies = drv.batch(reqs)
    for i, (s, nl) in enumerate(meta):
        mw, mr, ml = replies[3 * i:3 * i + 3]
        rep.evaluations += 5
        rep.programs += 1
        if len(s) > 2:
            rep.nontrivial("nl", s[:40], len(s), nl)
        rep.count("newline-model:%r" % (nl,))
        want_w = io_write(s, nl)
        want_r = io_reader(s, nl).read()
        want_r1 = io_reader(s, nl, chunk=1).read()          # CR at a chunk boundary: same whole-file result
        want_it = list(io_reader(s, nl))
        want_rl = list(iter(io_reader(s, nl, chunk=2).readline, ""))
        want_rls = io_reader(s, nl).readlines()
        case = {"kind": "newline-model", "text": s[:80], "newline": nl}
        if uncps(mw[3:]) != want_w:
            bad(rep, dict(case, model=mw[:200], io=want_w[:80]),
                "Lean translateWrite(newline=%r) of %r differs from io.TextIOWrapper.write (%r)" % (nl, s[:30], want_w[:40]),
                "C02/textmodel/newline-write")
        if uncps(mr[3:]) != want_r or want_r1 != want_r:
            bad(rep, dict(case, model=mr[:200], io=want_r[:80]),
                "Lean translateRead(newline=%r) of %r differs from io.TextIOWrapper.read (%r; chunk size 1: %r)"
                % (nl, s[:30], want_r[:40], want_r1[:40]), "C02/textmodel/newline-read")
        lines = unlines(ml[3:])
        if not (lines == want_it == want_rl == want_rls):
            bad(rep, dict(case, model=ml[:200], io=[x[:30] for x in want_it[:8]]),
                "Lean readLines(newline=%r) of %r differs from iteration / readline loop / readlines of io.TextIOWrapper "
                "(%r / %r)" % (nl, s[:30], want_it[:5], want_rl[:5]), "C02/textmodel/newline-lines")
        # the laws of TextLaws.lines_join on what Python itself returns
        if "".join(want_it) != want_r or any(not x for x in want_it):
            bad(rep, case, "io.TextIOWrapper lines of %r (newline=%r) do not concatenate to read()" % (s[:30], nl),
                "C02/textmodel/lines-join")


# ----------------------------------------------------------------------------- (ii) codecs

PY_CODEC = {"utf-8": "utf-8", "utf-16-le": "utf-16-le", "utf-32-le": "utf-32-le", "latin-1": "latin-1", "ascii": "ascii"}


def rand_scalars(rng, n):
    out = []
    for _ in range(n):
        k = rng.random()
        if k < 0.3:
            c = rng.choice(BOUNDARY_CPS)
        elif k < 0.5:
            c = rng.randrange(0, 0x80)
        elif k < 0.65:
            c = rng.randrange(0x80, 0x800)
        elif k < 0.85:
            c = rng.randrange(0x800, 0x10000)
        else:
            c = rng.randrange(0x10000, 0x110000)
        if 0xD800 <= c < 0xE000:
            c = 0xE000
        out.append(chr(c))
    return "".join(out)


def malformed(rng, tier):
    crit = [0x00, 0x41, 0x7F, 0x80, 0x8F, 0x90, 0x9F, 0xA0, 0xBF, 0xC0, 0xC1, 0xC2, 0xDF, 0xE0, 0xE1, 0xEC, 0xED, 0xEE,
            0xEF, 0xF0, 0xF1, 0xF3, 0xF4, 0xF5, 0xF8, 0xFF]
    out = [bytes([a]) for a in range(256)]
    out += [bytes([a, b]) for a in crit for b in crit]
    small = [0x41, 0x80, 0x8F, 0x90, 0x9F, 0xA0, 0xBF, 0xC2, 0xE0, 0xED, 0xEF, 0xF0, 0xF4, 0xF5]
    out += [bytes([a, b, c]) for a in small[7:] for b in small[:8] for c in small[:8]]
    out += [bytes([a, b, c, d]) for a in (0xF0, 0xF4, 0xF1) for b in small[1:7] for c in (0x80, 0xBF, 0x41) for d in (0x80, 0xBF, 0xC2)]
    for _ in range(400 if tier == "quick" else 20000):
        good = bytearray(rand_scalars(rng, rng.randrange(1, 6)).encode("utf-8"))
        k = rng.random()
        if k < 0.3 and good:
            del good[rng.randrange(len(good))]
        elif k < 0.6 and good:
            good[rng.randrange(len(good))] = rng.randrange(256)
        elif k < 0.8:
            good = good[:rng.randrange(len(good) + 1)]
        else:
            good = bytearray(rng.randrange(256) for _ in range(rng.randrange(1, 7)))
        out.append(bytes(good))
    return out


def check_codecs(rep, drv, rng, tier):
    n = 500 if tier == "quick" else 20000
    texts = ["", "".join(chr(c) for c in BOUNDARY_CPS)] + [chr(c) for c in BOUNDARY_CPS] + [rand_scalars(rng, rng.randrange(1, 12)) for _ in range(n)]
    reqs = ["text.utf8enc " + cps(t) for t in texts]
    blobs = malformed(rng, tier)
    reqs += ["text.utf8dec " + hx(b) for b in blobs]
    replies = drv.batch(reqs)
    for t, m in zip(texts, replies):
        rep.evaluations += 1
        rep.nontrivial("utf8enc", t)
        want = "ok " + hx(t.encode("utf-8"))
        if m != want:
            bad(rep, {"kind": "utf8enc", "text": t[:40], "model": m[:200]},
                "Lean utf8Enc of %r = %s, Python's utf-8 codec gives %s" % (t[:20], m[:60], want[:60]), "C02/textmodel/utf8enc")
    for b, m in zip(blobs, replies[len(texts):]):
        rep.evaluations += 1
        rep.nontrivial("utf8dec", b)
        try:
            want = "ok " + cps(b.decode("utf-8"))
            rep.count("utf8dec:ok")
        except UnicodeDecodeError:
            want = "err"
            rep.count("utf8dec:malformed")
        if m != want:
            bad(rep, {"kind": "utf8dec", "bytes": b.hex(), "model": m[:200]},
                "Lean utf8Dec of %s = %s, Python's strict utf-8 decoder gives %s" % (b.hex(), m[:60], want[:60]), "C02/textmodel/utf8dec")
    # the other body codecs, with the errors handlers of the single-byte ones
    cases = []
    pool = [t for t in texts[:120]] + ["abc", "caf\xe9", "\xffĀx", "€"]
    for t in pool:
        for codec in ("utf-16-le", "utf-32-le"):
            cases.append((codec, "strict", t))
        for codec in ("latin-1", "ascii"):
            for em in ("strict", "replace", "ignore"):
                cases.append((codec, em, t))
    reqs = ["text.enc %s %s %s" % (c, em, cps(t)) for c, em, t in cases]
    dblobs = [(c, em, b) for b in blobs[:600] + [t.encode("utf-16-le") for t in pool] + [t.encode("utf-32-le") for t in pool]
              for c, em in (("utf-16-le", "strict"), ("utf-32-le", "strict"), ("ascii", "strict"), ("ascii", "replace"),
                            ("ascii", "ignore"), ("latin-1", "strict"))]
    reqs += ["text.dec %s %s %s" % (c, em, hx(b)) for c, em, b in dblobs]
    replies = drv.batch(reqs)
    for (c, em, t), m in zip(cases, replies):
        rep.evaluations += 1
        try:
            want = "ok " + hx(t.encode(PY_CODEC[c], em))
        except UnicodeEncodeError:
            want = "err"
        rep.count("codec-enc:%s:%s" % (c, want[:3].strip()))
        if m != want:
            bad(rep, {"kind": "enc", "codec": c, "errors": em, "text": t[:40], "model": m[:200]},
                "Lean %s encoder (errors=%s) of %r = %s, Python gives %s" % (c, em, t[:20], m[:60], want[:60]), "C02/textmodel/enc")
    for (c, em, b), m in zip(dblobs, replies[len(cases):]):
        rep.evaluations += 1
        try:
            want = "ok " + cps(b.decode(PY_CODEC[c], em))
        except UnicodeDecodeError:
            want = "err"
        if m != want:
            bad(rep, {"kind": "dec", "codec": c, "errors": em, "bytes": b.hex(), "model": m[:200]},
                "Lean %s decoder (errors=%s) of %s = %s, Python gives %s" % (c, em, b.hex()[:40], m[:60], want[:60]), "C02/textmodel/dec")


# ----------------------------------------------------------------------------- (iii) layer stacks

BASES = ["r", "w", "a", "x"]
MODES = sorted(set(b + p + t for b in BASES for p in ("", "+") for t in ("", "b", "t")) |
               set(b + t + p for b in BASES for p in ("+",) for t in ("b", "t")))
BUFFERINGS = [-1, 0, 1, 8192]
BUF_KIND = {"BufferedReader": "reader", "BufferedWriter": "writer", "BufferedRandom": "random"}
BIG = bytes(range(256)) * 100       # 25 600 bytes: more than three default buffers


def measure_size(bufobj, kind, size_of_file):
    """the buffer size of a C `Buffered*` object, observed through its behaviour"""
    if kind in ("reader", "random"):
        if kind == "random" and size_of_file() == 0:
            bufobj.write(BIG)
            bufobj.flush()
        bufobj.seek(0)
        return len(bufobj.read1(-1))
    # writer: the first flush happens when a byte no longer fits: it writes exactly buffer-size bytes
    base = size_of_file()
    for i in range(3 * 8192 + 2):
        bufobj.write(b"z")
        if i in (0, 1, 2, 4096, 4097, 8192, 8193) or i % 4096 == 0:
            grown = size_of_file() - base
            if grown > 0:
                return grown if i < 3 or grown == i else ("~%d" % grown)
    return "none"


def stack_of(obj, size_of_file, measure=True):
    """innermost-first description of the object `open` returned"""
    layers = []
    while True:
        name = type(obj).__name__
        if name == "TextIOWrapper":
            layers.append("text:%d" % (1 if obj.line_buffering else 0))
            obj = obj.buffer
        elif name in BUF_KIND:
            layers.append("buffered:%s:%s" % (BUF_KIND[name], measure_size(obj, BUF_KIND[name], size_of_file) if measure else "?"))
            obj = obj.raw
        elif name == "RawWrapper":
            layers.append("rawwrapper")
            break
        elif name == "FileIO":
            layers.append("fileio")
            break
        else:
            layers.append("other:" + name)
            break
    return ";".join(reversed(layers))


def exc_class(e):
    if isinstance(e, io.UnsupportedOperation):
        return "err UnsupportedOperation"
    if isinstance(e, ValueError):
        return "err ValueError"
    import fs.errors as E

    if isinstance(e, E.FSError):
        return "err " + type(e).__name__
    return "err Leak:" + type(e).__name__


def prepare(f, mode):
    """make `p` suitable for the mode: existing with content unless the mode is exclusive"""
    if f.exists("p"):
        f.remove("p")
    if "x" not in mode:
        f.writebytes("p", BIG)


def check_layers(rep, drv, scratch, tier):
    from fs import iotools
    from fs.memoryfs import MemoryFS
    from fs.osfs import OSFS

    reqs, runs = [], []
    mem = MemoryFS()
    d = tempfile.mkdtemp(dir=scratch, prefix="txt-layers-")
    osfs = OSFS(d)
    blk = os.stat(d).st_blksize
    rep.extra["st_blksize"] = blk
    invalid = ["", "rw", "z", "rr", "tb", "+r", "rbt", "wa"]
    try:
        for mode in MODES + invalid:
            for buffering in BUFFERINGS:
                # (a) make_stream called directly on a MemoryFS binary file opened with the same mode
                if mode in MODES:
                    for lb in (False, True):
                        prepare(mem, mode)
                        rep.programs += 1
                        binf = mem.openbin("p", mode.replace("t", ""))
                        caps = "%d%d%d" % (binf.readable(), binf.writable(), binf.seekable())
                        try:
                            obj = iotools.make_stream("p", binf, mode=mode, buffering=buffering, line_buffering=lb)
                            got = "ok " + stack_of(obj, lambda: mem.getsize("p"))
                            obj.close()
                        except Exception as e:  # noqa
                            got = exc_class(e)
                            binf.close()
                        reqs.append("text.layers %s %d %s %d" % (hx(mode), buffering, caps, lb))
                        runs.append(("make_stream", mode, buffering, "caps=%s lb=%d" % (caps, lb), got))
                # (b) FS.open on MemoryFS (fs/base.py) and OSFS.open (io.open)
                for kind, f, cmd in (("MemoryFS.open", mem, "text.fsopen %s %d"), ("OSFS.open", osfs, "text.osopen %s %d " + str(blk))):
                    if mode in MODES:
                        prepare(f, mode)
                    rep.programs += 1
                    try:
                        with warnings.catch_warnings():
                            warnings.simplefilter("ignore")
                            obj = f.open("p", mode, buffering=buffering)
                        if kind == "MemoryFS.open":
                            got = "ok " + stack_of(obj, lambda: mem.getsize("p"))
                        else:
                            got = "ok " + stack_of(obj, lambda: os.path.getsize(os.path.join(d, "p")))
                        obj.close()
                    except Exception as e:  # noqa
                        got = exc_class(e)
                    reqs.append(cmd % (hx(mode), buffering))
                    runs.append((kind, mode, buffering, "", got))
        # (c) make_stream on a binary file that lacks a capability the mode asks for
        for mode in MODES:
            for rawmode in ("r", "w", "r+"):
                for buffering in (-1, 0, 4):
                    mem.writebytes("q", b"0123")
                    binf = mem.openbin("q", rawmode)
                    caps = "%d%d%d" % (binf.readable(), binf.writable(), binf.seekable())
                    rep.programs += 1
                    try:
                        obj = iotools.make_stream("q", binf, mode=mode, buffering=buffering)
                        got = "ok " + stack_of(obj, None, measure=False)
                        obj.close()
                    except Exception as e:  # noqa
                        got = exc_class(e)
                        binf.close()
                    # buffer sizes of mismatched stacks are not measured (the raw file may refuse the probe)
                    reqs.append("text.layers %s %d %s 0" % (hx(mode), buffering, caps))
                    runs.append(("make_stream/caps", mode, buffering, "raw=%s" % rawmode, got))
        replies = drv.batch(reqs)
        for (kind, mode, buffering, extra, got), model in zip(runs, replies):
            rep.evaluations += 1
            rep.nontrivial("layers", kind, mode, buffering, extra)
            rep.count("layers:%s:%s" % (kind, got.split(";")[1].split(":")[0] if ";" in got and got.startswith("ok") else got[:14]))
            g, m = got, model
            if kind == "make_stream/caps":
                # compare classes only
                strip = lambda s: ";".join(":".join(x.split(":")[:2]) if x.startswith("buffered") else x for x in s.split(";"))
                g, m = strip(got), strip(model)
            if g != m:
                bad(rep, {"kind": "layers", "call": kind, "mode": mode, "buffering": buffering, "extra": extra, "model": model, "impl": got},
                    "%s(mode=%r, buffering=%d %s) built %s; the model (FsModel.Text.%s) says %s"
                    % (kind, mode, buffering, extra, got, "ioOpen" if kind == "OSFS.open" else "makeStream/fsOpen", model),
                    "C02/textmodel/layers")
    finally:
        mem.close()
        osfs.close()
        shutil.rmtree(d, ignore_errors=True)


# ----------------------------------------------------------------------------- (iv) end-to-end text

E2E_CODECS = [("utf-8", None), ("utf-8-sig", None), ("utf-16", None), ("utf-16-le", None), ("utf-32", None),
              ("latin-1", None), ("latin-1", "replace"), ("ascii", "strict"), ("ascii", "replace"), ("ascii", "ignore")]
E2E_TEXTS = ["", "plain", "a\nb\r\nc\rd\n", "\r\n\r\r\n\n", "caf\xe9\n\xff", "日本\n\U0001f600\r\n", "﻿bom\n", "x" * 8200 + "\n\xe9"]


def ref_store(old, how, text, enc, errors, nl):
    """what a real io text layer stores (TextIOWrapper over a BytesIO positioned like the file)"""
    b = io.BytesIO(b"" if how == "w" or old is None else old)
    b.seek(0, 2)
    w = io.TextIOWrapper(b, encoding=enc, errors=errors, newline=nl)
    try:
        w.write(text)
        w.flush()
        out = b.getvalue()
        w.detach()
        return "ok " + hx(out)
    except UnicodeError:
        try:
            w.detach()
        except Exception:
            pass
        return "err"


def ref_fetch(raw, enc, errors, nl):
    try:
        r = io.TextIOWrapper(io.BytesIO(raw), encoding=enc, errors=errors, newline=nl).read()
        ls = list(io.TextIOWrapper(io.BytesIO(raw), encoding=enc, errors=errors, newline=nl))
        return "ok %s | L%s" % (cps(r), ";".join(cps(x) for x in ls))
    except UnicodeError:
        return "err"


def check_end_to_end(rep, drv, rng, scratch, tier):
    from fs.memoryfs import MemoryFS
    from fs.osfs import OSFS

    texts = E2E_TEXTS + [rand_text(rng, rng.randrange(1, 40)) for _ in range(4 if tier == "quick" else 40)]
    d = tempfile.mkdtemp(dir=scratch, prefix="txt-e2e-")
    backends = [("mem", MemoryFS()), ("os", OSFS(d))]
    pending = []      # (case, model request, got, ref, signature suffix)
    try:
        for kind, f in backends:
            for enc, errors in E2E_CODECS:
                em = errors or "strict"
                for nl in NEWLINES:
                    for ti, text in enumerate(texts):
                        if tier == "quick" and ti >= len(E2E_TEXTS) and nl in ("\n",):
                            continue
                        rep.programs += 1
                        rep.nontrivial("e2e", kind, enc, errors, nl, text[:20], len(text))
                        case = {"kind": "text-e2e", "backend": kind, "encoding": enc, "errors": errors, "newline": nl, "text": text[:80]}
                        # --- write paths: open("w"), writetext, open("a") on empty/missing/non-empty, appendtext
                        stores = []
                        old_variants = [("missing", None), ("nonempty", b"OLD\n")] if ti % 2 == 0 else [("empty", b"")]
                        for how, api, oldname, old in [("w", "open-w", "any", b"previous"), ("w", "writetext", "any", b"previous")] + \
                                [("a", api, on, o) for on, o in old_variants for api in ("open-a", "appendtext")]:
                            if f.exists("t.txt"):
                                f.remove("t.txt")
                            if old is not None:
                                f.writebytes("t.txt", old)
                            try:
                                if api == "open-w":
                                    with f.open("t.txt", "w", encoding=enc, errors=errors, newline=nl) as h:
                                        h.write(text)
                                elif api == "writetext":
                                    f.writetext("t.txt", text, encoding=enc, errors=errors, newline=nl)
                                elif api == "open-a":
                                    with f.open("t.txt", "a", encoding=enc, errors=errors, newline=nl) as h:
                                        h.write(text)
                                else:
                                    f.appendtext("t.txt", text, encoding=enc, errors=errors, newline=nl)
                                got = "ok " + hx(f.readbytes("t.txt"))
                            except UnicodeError:
                                got = "err"
                            ref = ref_store(old, how, text, enc, errors, nl)
                            req = "text.store %s %s %s %s %s %s" % (enc, em, NL_TOK[nl], how, "N" if old is None else hx(old), cps(text))
                            pending.append((dict(case, api=api, old=oldname), req, got, ref, "text-" + api))
                            stores.append((api, got))
                        # --- read paths on what the reference stores for open("w")
                        ref_w = ref_store(None, "w", text, enc, errors, nl)
                        if ref_w == "err":
                            continue
                        raw = bytes.fromhex(ref_w[3:]) if ref_w[3:] != "-" else b""
                        f.writebytes("r.txt", raw)
                        ref = ref_fetch(raw, enc, errors, nl)
                        req = "text.fetch %s %s %s %s" % (enc, em, NL_TOK[nl], hx(raw))
                        for api in ("readtext+iter", "open-r+readline"):
                            try:
                                if api == "readtext+iter":
                                    r = f.readtext("r.txt", encoding=enc, errors=errors, newline=nl)
                                    with f.open("r.txt", "r", encoding=enc, errors=errors, newline=nl) as h:
                                        ls = list(h)
                                else:
                                    with f.open("r.txt", "r", encoding=enc, errors=errors, newline=nl) as h:
                                        r = h.read()
                                    with f.open("r.txt", "rt", encoding=enc, errors=errors, newline=nl, buffering=rng.choice([-1, 0, 1, 7])) as h:
                                        ls = list(iter(h.readline, ""))
                                got = "ok %s | L%s" % (cps(r), ";".join(cps(x) for x in ls))
                            except UnicodeError:
                                got = "err"
                            except ValueError as e:
                                # OSFS: io.open refuses unbuffered text I/O (make_stream does not): not data
                                if "unbuffered" in str(e):
                                    continue
                                raise
                            pending.append((dict(case, api=api), req, got, ref, "text-" + api))
        replies = drv.batch([p[1] for p in pending])
        for (case, req, got, ref, sig), model in zip(pending, replies):
            rep.evaluations += 1
            rep.count("e2e:%s:%s" % (sig, got[:3].strip()))
            kind = case["backend"]
            if got != ref:
                bad(rep, dict(case, impl=got[:300], io=ref[:300]),
                    "%s: %s(encoding=%r, errors=%r, newline=%r) of %r gives %s, Python's io text layer gives %s"
                    % (kind, case["api"], case["encoding"], case["errors"], case["newline"], case["text"][:30], got[:80], ref[:80]),
                    "C02/%s/%s" % (kind, sig), found_input=True)
            if model != ref:
                bad(rep, dict(case, model=model[:300], io=ref[:300], request=req[:300]),
                    "model %s = %s, Python's io text layer gives %s (encoding=%r, errors=%r, newline=%r, text %r)"
                    % (req.split(" ")[0], model[:80], ref[:80], case["encoding"], case["errors"], case["newline"], case["text"][:30]),
                    "C02/textmodel/e2e")
    finally:
        for _, f in backends:
            f.close()
        shutil.rmtree(d, ignore_errors=True)


# ----------------------------------------------------------------------------- defaults


def check_defaults(rep, drv, rng, scratch, tier):
    """"unchanged under the defaults": the calls without encoding / newline arguments behave as the
    model's defaults (`utf-8`, `newline=""`, TextLaws.text_roundtrip_default_utf8) — observed on
    data, and on the declared defaults of the signatures (on Linux `newline=None` and `""` store the
    same bytes, so a changed write-side default shows only in the signature)"""
    import inspect

    from fs.base import FS
    from fs.memoryfs import MemoryFS
    from fs.osfs import OSFS
    from fs import iotools

    want = {"newline": "", "encoding": None, "errors": None, "buffering": -1, "mode": "r"}
    special = {("writetext", "encoding"): "utf-8", ("appendtext", "encoding"): "utf-8"}
    for owner, name in ((FS, "open"), (FS, "readtext"), (FS, "writetext"), (FS, "appendtext"), (OSFS, "open"), (iotools, "make_stream")):
        sig = inspect.signature(getattr(owner, name))
        for pname, default in want.items():
            if pname in sig.parameters:
                rep.evaluations += 1
                d = sig.parameters[pname].default
                w = special.get((name, pname), default)
                if d != w:
                    bad(rep, {"kind": "defaults", "callable": "%s.%s" % (getattr(owner, "__name__", owner), name), "parameter": pname,
                              "declared": repr(d), "modelled": repr(w)},
                        "%s.%s declares %s=%r; the model (and TextLaws.text_roundtrip_default / make_stream_layers) assume %r"
                        % (getattr(owner, "__name__", owner), name, pname, d, w), "C02/textmodel/defaults")
    texts = E2E_TEXTS + [rand_text(rng, rng.randrange(1, 60)) for _ in range(20 if tier == "quick" else 300)]
    d = tempfile.mkdtemp(dir=scratch, prefix="txt-def-")
    backends = [("mem", MemoryFS()), ("os", OSFS(d))]
    reqs = ["text.store utf-8 strict E w N " + cps(t) for t in texts]
    models = drv.batch(reqs)
    try:
        for kind, f in backends:
            for text, model in zip(texts, models):
                rep.programs += 1
                rep.nontrivial("defaults", kind, text[:30], len(text))
                want_b = text.encode("utf-8")
                if model != "ok " + hx(want_b):
                    bad(rep, {"kind": "defaults-model", "text": text[:80], "model": model[:200]},
                        "model storeText utf8 newline='' of %r is not its UTF-8 encoding" % text[:30], "C02/textmodel/defaults")
                k = len(text) // 2
                for api in ("writetext", "open-w", "appendtext", "open-a"):
                    rep.evaluations += 4
                    if f.exists("d.txt"):
                        f.remove("d.txt")
                    if api == "writetext":
                        f.writetext("d.txt", text)
                    elif api == "open-w":
                        with f.open("d.txt", "w") as h:
                            h.write(text[:k])
                            h.write(text[k:])
                    elif api == "appendtext":
                        f.appendtext("d.txt", text[:k])
                        f.appendtext("d.txt", text[k:])
                    else:
                        f.writetext("d.txt", text[:k])
                        with f.open("d.txt", "a") as h:
                            h.write(text[k:])
                    stored = f.readbytes("d.txt")
                    with f.open("d.txt") as h:
                        r1 = h.read()
                    with f.open("d.txt", "rt") as h:
                        r2 = "".join(h)
                    r3 = f.readtext("d.txt")
                    case = {"kind": "text-defaults", "backend": kind, "api": api, "text": text[:80]}
                    if stored != want_b:
                        bad(rep, case, "%s: %s with default encoding/newline stored %r for %r (utf-8 of the unchanged text: %r)"
                            % (kind, api, stored[:40], text[:30], want_b[:40]), "C02/%s/text-default-store" % kind, found_input=True)
                    for rname, r in (("open().read()", r1), ("iteration", r2), ("readtext", r3)):
                        if r != text:
                            bad(rep, dict(case, read=rname), "%s: %s then %s with the defaults changed the text: %r -> %r"
                                % (kind, api, rname, text[:40], r[:40]), "C02/%s/text-default" % kind, found_input=True)
    finally:
        for _, f in backends:
            f.close()
        shutil.rmtree(d, ignore_errors=True)


# ----------------------------------------------------------------------------- (v) buffering


def gen_ops(rng, mode, L):
    """data-level calls whose result does not depend on where a buffered layer thinks the raw
    position is (append modes: Python's own buffered files disagree with raw ones after seek/truncate)"""
    n = rng.randrange(1, 9)
    ops = []
    app = "a" in mode
    for _ in range(n):
        k = rng.random()
        if k < 0.35:
            ops.append(("write", bytes(rng.choice(b"abc\n") for _ in range(rng.choice([1, 2, 3, 9, 30])))))
        elif k < 0.5:
            ops.append(("read", rng.choice([None, -1, 1, 2, 5, L + 3])))
        elif k < 0.58:
            ops.append(("readline", rng.choice([None, -1, 1, 3])))
        elif k < 0.64:
            ops.append(("readinto", rng.choice([1, 2, 7])))
        elif k < 0.7:
            ops.append(rng.choice([("readlines",), ("next",), ("iter",)]))
        elif k < 0.76:
            ops.append(("writelines", (b"p\n", b"q")))
        elif k < 0.8:
            ops.append(("flush",))
        elif app:
            ops.append(("write", b"Z"))
        elif k < 0.92:
            ops.append(("seek", rng.choice([0, 1, 2, L, L + 2]), 0) if rng.random() < 0.7 else ("seek", rng.choice([0, -1, 1]), rng.choice([1, 2])))
        elif k < 0.97:
            ops.append(("truncate", rng.choice([None, 0, 1, L + 2])))
        else:
            ops.append(("close",))
    return ops


def run_data_ops(fobj, ops):
    from props import c16

    outs = []
    closed = False
    for op in ops:
        try:
            out = c16.call(fobj, op)
        except BaseException as e:  # noqa
            if isinstance(e, (KeyboardInterrupt, SystemExit)):
                raise
            out = c16.family(e, fobj)
            if out.startswith("Leak:AttributeError") or (out == "Leak:TypeError" and op[0] in ("read", "readline") and op[1] is None):
                # BufferedReader has no write / BufferedWriter no read; BufferedIOBase.read(None) on a
                # write-only buffered file is a TypeError in CPython itself (argument parsing comes first)
                out = "Enotpermitted"
        if closed and out.startswith("E"):
            out = "Eclosed"             # after close() every call fails; which check fires first is not data
        if op[0] == "close":
            closed = True
        outs.append(out)
    try:
        fobj.close()
    except Exception:
        pass
    return outs


def check_buffering(rep, drv, rng, scratch, tier):
    from props import c16
    from fs.memoryfs import MemoryFS
    from fs.osfs import OSFS

    n = 250 if tier == "quick" else 5000
    d = tempfile.mkdtemp(dir=scratch, prefix="txt-buf-")
    mem, osfs = MemoryFS(), OSFS(d)
    sessions, reqs = [], []
    try:
        for _ in range(n):
            mode = rng.choice(["r", "r+", "w", "w+", "a", "a+", "x", "x+"])
            init = rng.choice([b"", b"0123", b"ab\ncd\n\nef", b"k" * 40])
            ops = gen_ops(rng, mode, len(init))
            flags = [rng.random() < 0.3 for _ in ops]
            existing = None if "x" in mode else init
            reqs.append("text.buf %s %s %s" % (hx(mode + "b"), c16.enc_init(existing),
                                               " ".join(("!" if fl else "") + c16.tok(o) for o, fl in zip(ops, flags))))
            sessions.append((mode, existing, ops))
        replies = drv.batch(reqs)
        for (mode, existing, ops), model in zip(sessions, replies):
            rep.programs += 1
            rep.nontrivial("buf", mode, existing, tuple(ops))
            want_outs = model[3:].split(" | ")[0]
            want_final = model.split(" | ")[1]
            for kind, f in (("mem", mem), ("os", osfs)):
                for buffering in (-1, 0, 1, 2, 8192):
                    rep.evaluations += 1
                    rep.count("buffering:%s:%d" % (kind, buffering))
                    if f.exists("b.bin"):
                        f.remove("b.bin")
                    if existing is not None:
                        f.writebytes("b.bin", existing)
                    with warnings.catch_warnings():
                        warnings.simplefilter("ignore")
                        h = f.open("b.bin", mode + "b", buffering=buffering)
                    outs = run_data_ops(h, ops)
                    final = hx(f.readbytes("b.bin"))
                    got_outs = ";".join(outs)
                    if got_outs == want_outs and final == want_final:
                        continue
                    # oracle: the same calls on a real io file with the same buffering
                    p = os.path.join(d, "oracle.bin")
                    if os.path.exists(p):
                        os.remove(p)
                    if existing is not None:
                        with open(p, "wb") as t:
                            t.write(existing)
                    with warnings.catch_warnings():
                        warnings.simplefilter("ignore")
                        o = io.open(p, mode + "b", buffering=buffering if buffering != -1 else -1)
                    oouts = ";".join(run_data_ops(o, ops))
                    ofinal = hx(open(p, "rb").read())
                    case = {"kind": "buffering", "backend": kind, "mode": mode + "b", "buffering": buffering,
                            "init": None if existing is None else existing.decode("latin-1"), "ops": [c16.tok(o) for o in ops],
                            "impl": got_outs + " | " + final, "model": model, "io": oouts + " | " + ofinal}
                    if final != ofinal or got_outs != oouts:
                        bad(rep, case, "%s: open(%r, buffering=%d) on %r, calls %s: results %s, file %s; a real io file gives %s, file %s"
                            % (kind, mode + "b", buffering, existing, " ".join(case["ops"]), got_outs[:80], final[:40], oouts[:80], ofinal[:40]),
                            "C02/%s/buffering" % kind, found_input=True)
                    else:
                        bad(rep, case, "buffered model (Buffered.runFrom) %s differs from open(%r, buffering=%d) and from io.open alike: %s | %s"
                            % (model[:80], mode + "b", buffering, got_outs[:80], final[:40]), "C02/textmodel/buffering")
    finally:
        mem.close()
        osfs.close()
        shutil.rmtree(d, ignore_errors=True)


# ----------------------------------------------------------------------------- (vi) RawWrapper


class NoReadinto(object):
    """a Python-2 style file: everything `io.FileIO` has except `readinto`"""

    def __init__(self, f):
        object.__setattr__(self, "_g", f)

    def __getattr__(self, name):
        if name in ("readinto", "readinto1"):
            raise AttributeError(name)
        return getattr(self._g, name)

    def __iter__(self):
        return iter(self._g)


def check_rawwrapper(rep, drv, rng, scratch, tier):
    from props import c16
    from fs.iotools import RawWrapper

    d = tempfile.mkdtemp(dir=scratch, prefix="txt-raw-")
    p = os.path.join(d, "f.bin")
    n = 400 if tier == "quick" else 8000
    sessions, reqs = [], []
    try:
        directed = [("r", b"0123456789", [("read", -1)]), ("r", b"0123456789", [("read", 3), ("read", None)]),
                    ("r", b"0123456789", [("readinto", 4), ("readall",)]), ("r", b"ab\ncd\n", [("readline", None), ("readline", 1), ("iter",)]),
                    ("r+", b"0123456789", [("truncate", 4), ("seek", 0, 2), ("truncate", None)]),
                    ("w", b"", [("write", b"abc"), ("writelines", (b"d", b"e")), ("close",), ("write", b"x")]),
                    ("r", b"ab\ncd", [("next",), ("next",), ("next",)]), ("r", b"0123", [("read", 0), ("read", 2), ("read", 100)])]
        for i in range(n):
            if i < len(directed):
                mode, init, ops = directed[i]
            else:
                mode = rng.choice(c16.MODES)
                init = rng.choice(c16.INITS)
                alpha = c16.alphabet(len(init))
                ops = [rng.choice(alpha) for _ in range(rng.randrange(1, 6))]
            existing = None if "x" in mode else init
            for hr in (1, 0):
                reqs.append("text.raw %d %s %s %s" % (hr, hx(mode), c16.enc_init(existing), " ".join(c16.tok(o) for o in ops)))
                sessions.append((hr, mode, existing, ops))
        replies = drv.batch(reqs)
        for (hr, mode, existing, ops), model in zip(sessions, replies):
            rep.evaluations += 1
            rep.programs += 1
            rep.nontrivial("raw", hr, mode, existing, tuple(ops))
            if os.path.exists(p):
                os.remove(p)
            if existing is not None:
                with open(p, "wb") as t:
                    t.write(existing)
            raw = io.FileIO(p, mode)
            w = RawWrapper(raw if hr else NoReadinto(raw), mode=mode)
            tr = c16.exec_ops(w, ops)
            w.close()
            got = c16.render(tr, open(p, "rb").read())
            if got != model:
                # oracle: the wrapped file's own methods (the property: every RawWrapper method = the wrapped method)
                if os.path.exists(p):
                    os.remove(p)
                if existing is not None:
                    with open(p, "wb") as t:
                        t.write(existing)
                raw = io.FileIO(p, mode)
                otr = c16.exec_ops(raw, ops)
                raw.close()
                oracle = c16.render(otr, open(p, "rb").read())
                case = {"kind": "rawwrapper", "readinto": bool(hr), "mode": mode, "init": None if existing is None else existing.decode("latin-1"),
                        "ops": [c16.tok(o) for o in ops], "impl": got, "model": model, "io": oracle}
                bad(rep, case, "RawWrapper(%sio.FileIO(mode=%r) on %r) calls %s: %s; the wrapped file itself gives %s (model %s)"
                    % ("" if hr else "no-readinto ", mode, existing, " ".join(case["ops"]), got[:120], oracle[:120], model[:120]),
                    "C02/rawwrapper" if got != oracle else "C02/textmodel/rawwrapper", found_input=got != oracle)
    finally:
        shutil.rmtree(d, ignore_errors=True)


# ----------------------------------------------------------------------------- entry


def check_text_model(rep, drv, rng, tier):
    os.makedirs(SCRATCH_ROOT, exist_ok=True)
    scratch = tempfile.mkdtemp(dir=SCRATCH_ROOT, prefix="c02-text-")
    try:
        check_newlines(rep, drv, rng, tier)
        check_codecs(rep, drv, rng, tier)
        check_layers(rep, drv, scratch, tier)
        check_end_to_end(rep, drv, rng, scratch, tier)
        check_defaults(rep, drv, rng, scratch, tier)
        check_buffering(rep, drv, rng, scratch, tier)
        check_rawwrapper(rep, drv, rng, scratch, tier)
        rep.sample({"text.lines": {"newline": "", "text": "a\r\nb\rc\n\n"},
                    "model": drv.batch(["text.lines E 61,d,a,62,d,63,a,a"])[0]})
        rep.sample({"text.fsopen": {"mode": "x", "buffering": 8192}, "model": drv.batch(["text.fsopen 78 8192"])[0]})
    finally:
        shutil.rmtree(scratch, ignore_errors=True)


# ----------------------------------------------------------------------------- replay

REPLAY_KINDS = ("newline-model", "utf8enc", "utf8dec", "enc", "dec", "layers", "text-e2e", "text-defaults", "defaults",
                "defaults-model", "buffering", "rawwrapper")


def parse_tok(t):
    parts = t.split(":")
    k = parts[0]
    val = lambda x: None if x == "N" else int(x)
    unb = lambda x: b"" if x in ("-", "") else bytes.fromhex(x)
    if k in ("read", "readline", "truncate"):
        return (k, val(parts[1]))
    if k == "readinto":
        return (k, int(parts[1]))
    if k == "write":
        return (k, unb(parts[1]))
    if k == "writelines":
        return (k, tuple(unb(x) for x in parts[1].split(",")) if parts[1] else ())
    if k == "seek":
        return (k, int(parts[1]), int(parts[2]))
    return (k,)


def replay(rep, c):
    """re-execute one recorded case on the real code against the io oracle; 0 = agrees now"""
    import vlib
    from fs.memoryfs import MemoryFS
    from fs.osfs import OSFS

    os.makedirs(SCRATCH_ROOT, exist_ok=True)
    d = tempfile.mkdtemp(dir=SCRATCH_ROOT, prefix="c02-text-replay-")
    try:
        kind = c["kind"]
        if kind == "text":          # a case of c02.check_text
            c = dict(c, api="readtext+iter" if "read" in c else "open-w")
            kind = "text-e2e"
        mk = lambda b: MemoryFS() if b == "mem" else OSFS(d)
        if kind == "buffering":
            ops = [parse_tok(t) for t in c["ops"]]
            existing = None if c["init"] is None else c["init"].encode("latin-1")
            mode, buffering = c["mode"], c["buffering"]
            f = mk(c["backend"])
            if existing is not None:
                f.writebytes("b.bin", existing)
            with warnings.catch_warnings():
                warnings.simplefilter("ignore")
                outs = run_data_ops(f.open("b.bin", mode, buffering=buffering), ops)
            final = f.readbytes("b.bin")
            p = os.path.join(d, "oracle.bin")
            if existing is not None:
                open(p, "wb").write(existing)
            with warnings.catch_warnings():
                warnings.simplefilter("ignore")
                oouts = run_data_ops(io.open(p, mode, buffering=buffering), ops)
            ofinal = open(p, "rb").read()
            print("fs : %s | %r" % (";".join(outs), final))
            print("io : %s | %r" % (";".join(oouts), ofinal))
            return 0 if (outs, final) == (oouts, ofinal) else 1
        if kind == "rawwrapper":
            from props import c16
            from fs.iotools import RawWrapper

            ops = [parse_tok(t) for t in c["ops"]]
            existing = None if c["init"] is None else c["init"].encode("latin-1")
            res = []
            for wrap in (True, False):
                p = os.path.join(d, "f.bin")
                if os.path.exists(p):
                    os.remove(p)
                if existing is not None:
                    open(p, "wb").write(existing)
                raw = io.FileIO(p, c["mode"])
                obj = RawWrapper(raw if c["readinto"] else NoReadinto(raw), mode=c["mode"]) if wrap else raw
                tr = c16.exec_ops(obj, ops)
                obj.close()
                res.append(c16.render(tr, open(p, "rb").read()))
            print("RawWrapper : %s" % res[0])
            print("wrapped    : %s" % res[1])
            return 0 if res[0] == res[1] else 1
        if kind in ("text-e2e", "text-defaults"):
            f = mk(c["backend"])
            text, api = c["text"], c["api"]
            if kind == "text-defaults":
                kw, enc, errors, nl = {}, "utf-8", None, ""
            else:
                enc, errors, nl = c["encoding"], c["errors"], c["newline"]
                kw = dict(encoding=enc, errors=errors, newline=nl)
            old = {"missing": None, "empty": b"", "nonempty": b"OLD\n"}.get(c.get("old"), b"previous")
            if api in ("open-w", "writetext", "open-a", "appendtext"):
                if old is not None:
                    f.writebytes("t.txt", old)
                try:
                    if api == "writetext":
                        f.writetext("t.txt", text, **kw)
                    elif api == "appendtext":
                        f.appendtext("t.txt", text, **kw)
                    else:
                        with f.open("t.txt", api[-1], **kw) as h:
                            h.write(text)
                    got = "ok " + hx(f.readbytes("t.txt"))
                except UnicodeError:
                    got = "err"
                ref = ref_store(old, "a" if api in ("open-a", "appendtext") else "w", text, enc, errors, nl)
            else:
                raw = bytes.fromhex(ref_store(None, "w", text, enc, errors, nl)[3:].replace("-", ""))
                f.writebytes("r.txt", raw)
                r = f.readtext("r.txt", **kw)
                with f.open("r.txt", "r", **kw) as h:
                    ls = list(h)
                got = "ok %s | L%s" % (cps(r), ";".join(cps(x) for x in ls))
                ref = ref_fetch(raw, enc, errors, nl)
            print("fs : %s" % got[:400])
            print("io : %s" % ref[:400])
            return 0 if got == ref else 1
        # model-only cases: ask the driver again and show both sides
        drv = vlib.Driver()
        if kind == "layers":
            print("recorded: impl %s / model %s — rerun ./check C02 to re-evaluate the stack" % (c.get("impl"), c.get("model")))
            return 1
        print("model/io correspondence case (no filesystem code involved):", {k: c[k] for k in c if k != "kind"})
        return 1
    finally:
        shutil.rmtree(d, ignore_errors=True)
