"""C13 — walking visits every resource exactly once and filters exactly.

Theorems: lean/FsProofs/C13.lean over lean/FsModel/Walk.lean (the two work-list machines of
fs/walk.py, the per-entry predicates, walk's regrouping, files/dirs/info; WalkSpec.selected).

Correspondence (every run): for generated (tree, backend, start path, search order, options)
  * the real `Walker._iter_walk` event sequence, `Walker.info/files/dirs/walk` and the bound walker
    `fs.walk.info/files/dirs/walk` are executed on the real filesystem;
  * the compiled model executes the same case.  The model's matchers are parameters: they are
    instantiated with the truth tables of the *real* `fs.match` / `fs.match_glob` over every string
    the walker can ask about (`filter_glob` twice: exact for files, accept_prefix for directories);
    the tree given to the model is a recursive-listdir snapshot of the real filesystem;
  * compared as exact sequences on MemoryFS-ordered backends, as sorted sequences elsewhere.
Property oracle (found_input classification): a recursive-listdir reference + the documented
option semantics evaluated with `fs.wildcard.match` / `fs.glob.match` per pattern — every selected
file reported exactly once, nothing else reported, directory order constraints, variants agree.
Hypothesis of `prune_sound_glob` (PrefixComplete) validated on the real `fs.glob.get_matcher`:
for every filter_glob list and path explored, exact match of a path ⇒ prefix acceptance of every
ancestor directory.
"""
from __future__ import annotations

import io
import itertools
import json
import os

import vlib
from vlib import hx, hxlist
import fsharness as H

LEANCHECKER_MODULES = ["FsModel.Walk", "FsProofs.Lemmas.WalkLemmas", "FsProofs.Lemmas.WalkPathLemmas", "FsProofs.C13"]

# the four defects found by this package and since fixed in /repo: a mismatch that one of these
# re-statements explains exactly is reported (as an ordinary violation) under its regression name
QUIRKS = ["expansion", "fileprefix", "rootslash"]
QUIRK_SIG = {q: "C13/regression/" + q for q in QUIRKS}

ORDERED = {"mem", "sub-mem", "mount-root", "wrap-mem"}  # listing order = insertion order (documented for MemoryFS)
OPT_KEYS = ["filter", "exclude", "filter_dirs", "exclude_dirs", "filter_glob", "exclude_glob", "max_depth"]
OPT_TAG = {"filter": "f", "exclude": "x", "filter_dirs": "fd", "exclude_dirs": "xd", "filter_glob": "fg",
           "exclude_glob": "xg"}


# ----------------------------------------------------------------------------- trees


def snap_tree(f, limit=3000, maxdepth=14):
    """recursive-listdir reference of a real filesystem: [("D", path) | ("F", path, b"")] parents
    first in the filesystem's own listing order (paths relative, no leading slash)"""
    out = []

    def rec(path, depth):
        if depth > maxdepth or len(out) > limit:
            raise RuntimeError("snapshot bound exceeded")
        for name in f.listdir(path or "/"):
            p = (path + "/" + name) if path else name
            if f.isdir(p):
                out.append(("D", p))
                rec(p, depth + 1)
            else:
                out.append(("F", p, b""))

    H.with_watchdog(lambda: rec("", 0), 20)
    return out


def small_trees(max_nodes, names=("a", ".b", "c*")):
    """all trees with <= max_nodes nodes over `names` (entries of a directory in the order of
    `names`; every subset of names, every file/dir labelling, recursively)"""
    from functools import lru_cache

    @lru_cache(None)
    def forests(n):
        # forests with exactly n nodes: list of tuples of (name, None | forest)
        if n == 0:
            return [()]
        out = []

        def go(idx, left, acc):
            if left == 0:
                out.append(tuple(acc))
                return
            if idx >= len(names):
                return
            go(idx + 1, left, acc)  # name unused
            acc.append((names[idx], None))  # file
            go(idx + 1, left - 1, acc)
            acc.pop()
            for sub_n in range(0, left):  # directory with sub_n nodes inside
                for sub in forests(sub_n):
                    acc.append((names[idx], sub))
                    go(idx + 1, left - 1 - sub_n, acc)
                    acc.pop()

        go(0, n, [])
        return out

    def flat(forest, pre, out):
        for name, sub in forest:
            p = pre + "/" + name if pre else name
            if sub is None:
                out.append(("F", p, b""))
            else:
                out.append(("D", p))
                flat(sub, p, out)
        return out

    res = []
    for n in range(0, max_nodes + 1):
        for fo in forests(n):
            res.append(flat(fo, "", []))
    return res


RAND_NAMES = ["a", "b", ".b", "c*", "x.py", "y.py", "z.txt", "[z]", "d?e", "foo", "bar", ".git", "a.py", "!n", "**",
              "top", "a b", "é.py", "{k}", "foo.bar"]


def random_tree(rng, max_depth=6, branching=4, budget=40):
    out = []

    def rec(pre, depth):
        nonlocal budget
        k = rng.randint(0, branching)
        names = rng.sample(RAND_NAMES, k)
        for name in names:
            if budget <= 0:
                return
            budget -= 1
            p = pre + "/" + name if pre else name
            if depth < max_depth and rng.random() < 0.5:
                out.append(("D", p))
                if rng.random() < 0.8:  # else: empty directory
                    rec(p, depth + 1)
            else:
                out.append(("F", p, b""))

    rec("", 1)
    return out


# ----------------------------------------------------------------------------- backends

BACKENDS_QUICK = ["mem", "os", "sub-mem", "mount", "multi", "zip-r", "tar-r"]
BACKENDS_ALL = ["mem", "os", "sub-mem", "sub-os", "mount", "mount-root", "multi", "zip-r", "tar-r", "wrap-mem"]


def populate(f, snap):
    for e in snap:
        if e[0] == "D":
            f.makedirs(e[1], recreate=True)
        else:
            if "/" in e[1]:
                f.makedirs(e[1].rsplit("/", 1)[0], recreate=True)
            f.writebytes(e[1], b"")


def build(kind, snap):
    """a filesystem of `kind` showing the tree `snap` (composites show it below / next to their
    own fixtures: the model always gets the recursive-listdir snapshot of what was built)"""
    from fs.memoryfs import MemoryFS

    if kind == "mount":
        from fs.mountfs import MountFS

        mfs = MountFS()
        a, b = MemoryFS(), MemoryFS()
        populate(a, snap)
        populate(b, snap[: len(snap) // 2])
        mfs.mount("m1", a)
        mfs.mount("m2/deep", b)
        return H.Backend(kind, mfs, inner=[a, b])
    if kind == "multi":
        from fs.multifs import MultiFS

        mu = MultiFS()
        a, b = MemoryFS(), MemoryFS()
        populate(a, [e for i, e in enumerate(snap) if i % 2 == 0 or e[0] == "D"])
        populate(b, [e for i, e in enumerate(snap) if i % 2 == 1])
        mu.add_fs("a", a, priority=1)
        mu.add_fs("b", b, priority=0)
        return H.Backend(kind, mu, inner=[a, b])
    if kind in ("zip-r", "tar-r"):
        from fs.zipfs import ZipFS
        from fs.tarfs import TarFS

        cls = ZipFS if kind == "zip-r" else TarFS
        bio = io.BytesIO()
        w = cls(bio, write=True)
        populate(w, snap)
        w.close()
        bio.seek(0)
        return H.Backend(kind, cls(bio))
    if kind in ("sub-tar-r", "ro-tar-r", "cachedir-tar-r"):
        # wrappers over the one backend that declares case_insensitive on Linux (read-mode TarFS):
        # a wrapper has no meta of its own, it forwards getmeta()
        from fs.wrap import read_only, cache_directory

        inner = build("tar-r", [("D", "top")] + [(e[0], "top/" + e[1]) + tuple(e[2:]) for e in snap] if kind == "sub-tar-r" else snap)
        w = {"sub-tar-r": lambda f: f.opendir("top"), "ro-tar-r": read_only, "cachedir-tar-r": cache_directory}[kind](inner.fs)
        return H.Backend(kind, w, inner=[inner.fs])
    b = H.make_backend(kind)
    populate(b.fs, snap)
    return b


CI_KINDS = ["tar-r", "sub-tar-r", "ro-tar-r", "cachedir-tar-r"]
CI_TREE = [("D", "Dir"), ("F", "Dir/File.TXT"), ("F", "Dir/other.py"), ("D", "Dir/Sub"), ("F", "Dir/Sub/deep.Txt"),
           ("F", "ReadMe.md"), ("D", "lower"), ("F", "lower/x.txt")]
CI_OPTS = [{"filter": ["*.txt"]}, {"exclude": ["README*"]}, {"filter_dirs": ["dir", "sub"]}, {"exclude_dirs": ["DIR"]},
           {"filter_glob": ["**/*.TXT"]}, {"exclude_glob": ["dir/sub/*"]}, {"filter": ["*.TXT"], "exclude_dirs": ["SUB"]},
           {"filter_glob": ["DIR/*.py"], "max_depth": 2}]


def case_insensitive_specs():
    """the letter case of a pattern differs from the stored names, on a filesystem that declares
    case_insensitive and on every kind of wrapper around it; the same on MemoryFS (case sensitive)"""
    runs = [("/", search, o) for search in ("breadth", "depth") for o in CI_OPTS]
    return [(k, CI_TREE, runs) for k in CI_KINDS + ["mem", "sub-mem"]]


# ----------------------------------------------------------------------------- options


_CI = [False]  # the filesystem of the case being judged declares case_insensitive (getmeta)


def wm(patterns, name):
    """documented wildcard-list semantics: an empty list matches everything (wildcard.match_any);
    "the pattern matching is case-insensitive if the filesystem is" (FS.match)"""
    from fs import wildcard

    m = wildcard.imatch if _CI[0] else wildcard.match
    return (not patterns) or any(m(p, name) for p in patterns)


def gm(patterns, path):
    from fs import glob

    m = glob.imatch if _CI[0] else glob.match
    return (not patterns) or any(m(p, path) for p in patterns)


def split_legacy(pattern):
    """how the prefix expansion divided a pattern before fix bf57128 ('/' after '[' not a separator);
    only used to recognise a regression of the fixed defect 'expansion'"""
    parts, cur, br = [], "", False
    for c in pattern:
        if c == "/" and not br:
            parts.append(cur)
            cur = ""
            continue
        if c == "[":
            br = True
        elif c == "]":
            br = False
        cur += c
    parts.append(cur)
    return parts


def expand_prefixes(patterns, split, complete):
    out = []
    for p in patterns:
        sp = split(p)
        for i in range(1, len(sp)):
            q = "/".join(sp[:i])
            out.append(q)
            out.append(q + "/")
        if complete:
            for i, comp in enumerate(sp):
                if "**" in comp:  # spans any number of levels: everything below what precedes it
                    out.append("/".join(sp[:i] + ["**"]))
                    break
        out.append(p)
    return out


def pm_legacy(patterns, path):
    """prefix acceptance as it was before the fixes a715270 / bf57128"""
    return (not patterns) or gm(expand_prefixes(patterns, split_legacy, False), path)


def pm(patterns, path):
    """independent re-statement of 'the path is a prefix of a string that matches': it matches a
    leading part of a pattern cut at a '/' (every '/': that is where the translation starts a new
    component), or lies below what precedes a component containing '**'"""
    return (not patterns) or gm(expand_prefixes(patterns, lambda p: p.split("/"), True), path)


def children_of(snap):
    ch = {"/": []}
    for e in snap:
        p = "/" + e[1]
        d, _, name = p.rpartition("/")
        d = d or "/"
        ch.setdefault(d, []).append((name, e[0] == "D"))
        if e[0] == "D":
            ch.setdefault(p, [])
    return ch


def pyjoin(d, name):
    return ("/" + name) if d == "/" else (d + "/" + name)


def oracle(ch, start, opts, quirks=()):
    """The documented subset.  Returns (files, dirs_lower, dirs_upper, pre-order list).
    `quirks` switch on re-statements of the three known deviations of the code (used only to
    recognise a regression of a fixed defect)."""
    f, x = opts.get("filter"), opts.get("exclude")
    fd, xd = opts.get("filter_dirs"), opts.get("exclude_dirs")
    fg, xg = opts.get("filter_glob"), opts.get("exclude_glob")
    md = opts.get("max_depth")
    files, lower, upper = [], set(), set()

    def rec(d, r, anc):
        for name, is_dir in ch[d]:
            p = pyjoin(d, name)
            if is_dir:
                if fd is not None and not wm(fd, name):
                    continue
                if xd is not None and wm(xd, name):
                    continue
                if xg is not None and gm(xg, p):
                    continue
                if "expansion" in quirks and fg is not None and not pm_legacy(fg, p):
                    continue
                if fg is None or pm(fg, p):
                    upper.add(p)
                if fg is None or gm(fg, p):
                    lower.add(p)
                if md is None or r < md:
                    rec(p, r + 1, anc + [p])
            else:
                gp = (d + "/" + name) if "rootslash" in quirks else p
                if f is not None and not wm(f, name):
                    continue
                if x is not None and wm(x, name):
                    continue
                if xg is not None and gm(xg, gp):
                    continue
                if fg is not None and not (pm_legacy(fg, gp) if "fileprefix" in quirks else gm(fg, gp)):
                    continue
                files.append(p)
                for a in anc:  # a directory that contains a selected file is opened, hence reported
                    lower.add(a)
                    upper.add(a)

    rec(start, 1, [])
    return files, lower, upper


def tables(fs_obj, ch, opts):
    """truth tables of the real matchers over every string the walker can ask about"""
    names = sorted({n for d in ch for n, _ in ch[d]})
    strings = set()
    for d in ch:
        for n, _ in ch[d]:
            strings.add(pyjoin(d, n))
            strings.add(d + "/" + n)
    strings = sorted(strings)
    args = []
    for k in OPT_KEYS:
        v = opts.get(k)
        if v is None:
            continue
        if k == "max_depth":
            args.append("md=%d" % v)
        elif k in ("filter", "exclude", "filter_dirs", "exclude_dirs"):
            args.append("%s=%s" % (OPT_TAG[k], hxlist([n for n in names if fs_obj.match(v, n)])))
        elif k == "filter_glob":
            args.append("fg=" + hxlist([s for s in strings if fs_obj.match_glob(v, s, accept_prefix=True)]))
            args.append("fe=" + hxlist([s for s in strings if fs_obj.match_glob(v, s)]))
        else:
            args.append("xg=" + hxlist([s for s in strings if fs_obj.match_glob(v, s)]))
    return args


WILD_SMALL = [["a"], [".*"], ["c*"], ["*"], ["?"], [], ["a", ".b"], ["c[*]"], ["zz"]]
GLOB_SMALL = [["*"], ["**"], ["a/*"], ["**/a"], ["*/a"], ["a/"], ["/a/**"], ["**/.b"], ["c*/**"], ["a/a/*"], [],
              ["*/*"], ["/.b/", "a"], ["**/c[*]"], ["a/.b"], ["**a"], ["c[*/a"]]


def small_option_sets():
    """each option alone, then pairs"""
    singles = []
    for k in ("filter", "exclude", "filter_dirs", "exclude_dirs"):
        for w in WILD_SMALL:
            singles.append({k: w})
    for k in ("filter_glob", "exclude_glob"):
        for g in GLOB_SMALL:
            singles.append({k: g})
    for d in (-1, 0, 1, 2, 3, 4):
        singles.append({"max_depth": d})
    pairs = []
    reps = [{"filter": ["a"]}, {"exclude": [".*"]}, {"filter_dirs": ["a", "c*"]}, {"exclude_dirs": ["a"]},
            {"filter_glob": ["a/*"]}, {"filter_glob": ["**/a"]}, {"exclude_glob": ["*/a"]}, {"exclude_glob": ["**/.b"]},
            {"max_depth": 1}, {"max_depth": 2}]
    for a, b in itertools.combinations(reps, 2):
        if set(a) & set(b):
            continue
        o = dict(a)
        o.update(b)
        pairs.append(o)
    return [{}] + singles + pairs


def gen_wild(rng, names):
    r = rng.random()
    n = rng.choice(names) if names else "a"
    if r < 0.3:
        return n
    if r < 0.45:
        return "*" + (n[n.rfind("."):] if "." in n[1:] else n[-1:])
    if r < 0.55:
        return n[:1] + "*"
    if r < 0.65:
        return ".*"
    if r < 0.72:
        return "*"
    if r < 0.8:
        return "?" * len(n)
    if r < 0.87:
        return "[" + n[:1] + "x]" + n[1:] if n[:1] not in "[]!^" else n
    if r < 0.93:
        return "*.py"
    return rng.choice(["", "zz", "[!a]*", "*[", "a*b*", "**"])


def gen_glob(rng, paths, glued=False):
    """a glob pattern derived from a real path of the tree (so that it selects something)"""
    p = rng.choice(paths) if paths else "a"
    comps = p.split("/")
    r = rng.random()
    out = []
    for i, c in enumerate(comps):
        k = rng.random()
        if k < 0.45:
            out.append(c if not any(m in c for m in "*?[") or rng.random() < 0.5 else "*")
        elif k < 0.7:
            out.append("*")
        elif k < 0.8:
            out.append("**")
        elif k < 0.9:
            out.append(c[:1] + "*")
        else:
            out.append("*" + c[-3:])
    if r < 0.25:
        out = out[: max(1, len(out) - 1)] + ["**"]
    elif r < 0.4:
        out = ["**"] + out[-1:]
    g = "/".join(out)
    k = rng.random()
    if k < 0.3:
        g = "/" + g
    if rng.random() < 0.15:
        g = g + "/"
    if glued and rng.random() < 0.5:
        g = rng.choice(["**" + comps[-1][-3:], comps[0][:1] + "**", "**/*" + comps[-1][-2:] + "**"])
    return g


def gen_opts(rng, snap, glued=False):
    names = sorted({e[1].rsplit("/", 1)[-1] for e in snap})
    paths = [e[1] for e in snap]
    dnames = sorted({e[1].rsplit("/", 1)[-1] for e in snap if e[0] == "D"}) or names
    fnames = sorted({e[1].rsplit("/", 1)[-1] for e in snap if e[0] == "F"}) or names
    n = rng.choice([1, 1, 2, 2, 3, 4, 7])
    keys = rng.sample(OPT_KEYS, n)
    o = {}
    for k in keys:
        cnt = rng.choice([1, 1, 2, 3])
        if k == "max_depth":
            o[k] = rng.randint(0, 4)
        elif k in ("filter", "exclude"):
            o[k] = [gen_wild(rng, fnames) for _ in range(cnt)]
        elif k in ("filter_dirs", "exclude_dirs"):
            o[k] = [gen_wild(rng, dnames) for _ in range(cnt)]
        else:
            o[k] = [gen_glob(rng, paths, glued) for _ in range(cnt)]
        if k != "max_depth" and rng.random() < 0.03:
            o[k] = []
    return o


# ----------------------------------------------------------------------------- running one case


def _exc(e):
    return "err " + H.exc_name(e)


def run_real(fs_obj, start, search, opts, bound=True):
    """every walk variant on the real filesystem; values are canonical python objects"""
    from fs.walk import Walker

    out = {}
    kw = dict(opts)
    kw["search"] = search

    def guard(name, fn):
        try:
            out[name] = fn()
        except H.Timeout:
            raise
        except Exception as e:  # noqa
            out[name] = _exc(e)

    def steps(it):
        return [(s.path, [i.name for i in s.dirs], [i.name for i in s.files]) for s in it]

    def go():
        w = Walker(**kw)
        guard("iter", lambda: [(d, None) if i is None else (d, i.name, bool(i.is_dir)) for d, i in w._iter_walk(fs_obj, start)])
        guard("info", lambda: [(p, bool(i.is_dir)) for p, i in w.info(fs_obj, start)])
        guard("files", lambda: list(w.files(fs_obj, start)))
        guard("dirs", lambda: list(w.dirs(fs_obj, start)))
        guard("walk", lambda: steps(w.walk(fs_obj, start)))
        if bound:
            guard("b.info", lambda: [(p, bool(i.is_dir)) for p, i in fs_obj.walk.info(path=start, **kw)])
            guard("b.files", lambda: list(fs_obj.walk.files(path=start, **kw)))
            guard("b.dirs", lambda: list(fs_obj.walk.dirs(path=start, **kw)))
            guard("b.walk", lambda: steps(fs_obj.walk(path=start, **kw)))

    try:
        H.with_watchdog(go, 30)
    except H.Timeout:
        out.setdefault("info", "err Leak:Timeout")
        for k in ("iter", "files", "dirs", "walk"):
            out.setdefault(k, "err Leak:Timeout")
    return out


def norm_start(start):
    """abspath(normpath(start)) or None when normpath refuses it"""
    from fs.path import abspath, normpath
    from fs.errors import IllegalBackReference

    try:
        return abspath(normpath(start))
    except IllegalBackReference:
        return None


def model_requests(tree_enc, start, search, targs, raw=False):
    st = ("R" + hx(start)) if raw else hx(start.strip("/"))
    s = "b" if search == "breadth" else "d"
    vs = ("iter", "info", "files", "dirs", "walk") + (("iterp",) if s == "b" else ())
    return ["walk.run %s %s %s %s %s" % (tree_enc, st, s, v, " ".join(targs)) for v in vs]


def _unl(s):
    return vlib.unhxlist(s)


def parse_model(lines):
    """model replies → the same canonical python objects as run_real"""
    out = {}
    for v, line in zip(("iter", "info", "files", "dirs", "walk", "iterp"), lines):
        if not line.startswith("ok "):
            out[v] = line
            continue
        body = line[3:].strip()
        assert body[0] == "[" and body[-1] == "]", line
        items = [i for i in body[1:-1].split(";") if i]
        if v in ("iter", "iterp"):
            r = []
            for i in items:
                if i[0] == "M":
                    r.append((vlib.unhx(i[1:]), None))
                else:
                    d, n, k = i[1:].split(":")
                    r.append((vlib.unhx(d), vlib.unhx(n), k == "d"))
        elif v == "info":
            r = [(vlib.unhx(i.split(":")[0]), i.split(":")[1] == "d") for i in items]
        elif v in ("files", "dirs"):
            r = [vlib.unhx(i) for i in items]
        else:
            r = []
            for i in items:
                p, ds, fs_ = i[1:].split(":")
                r.append((vlib.unhx(p), _unl(ds), _unl(fs_)))
        out[v] = r
    return out


def canon(v, ordered):
    if isinstance(v, str) or ordered:
        return v
    if v and isinstance(v[0], tuple) and len(v[0]) == 3 and isinstance(v[0][1], list):  # steps
        return sorted((p, sorted(d), sorted(f)) for p, d, f in v)
    return sorted(v, key=repr)


def inside(p, d):
    return p.startswith(d.rstrip("/") + "/") and p != d


class Case:
    __slots__ = ("kind", "snap", "start", "nstart", "search", "opts", "real", "model", "ch", "origin", "ci")

    def to_json(self):
        return {"backend": self.kind, "tree": [[e[0], e[1]] for e in self.snap], "start": self.start,
                "search": self.search, "opts": self.opts, "real": self.real, "model": self.model,
                "built_from": self.origin}


def judge(rep, c):
    _CI[0] = bool(getattr(c, "ci", False))
    try:
        return _judge(rep, c)
    finally:
        _CI[0] = False


def _judge(rep, c):
    """property oracle on the real result, then model ↔ code correspondence"""
    real, ordered = c.real, c.kind in ORDERED
    rep.evaluations += 1
    okeys = "+".join(sorted(c.opts)) or "none"
    rep.count("%s/%s/%s" % (c.kind, c.search, okeys))
    rep.nontrivial(c.kind, tuple(map(tuple, c.snap)), c.start, c.search, json.dumps(c.opts, sort_keys=True))
    label = "%s %s start=%r opts=%r tree=%r" % (c.kind, c.search, c.start, c.opts, [e[1] + ("/" if e[0] == "D" else "") for e in c.snap][:14])
    bad = []  # (why, found_input, signature)
    ns = c.nstart  # the start path as _iter_walk normalises it
    if ns != c.start:
        rep.count("start-spelling")

    info = real["info"]
    if isinstance(info, str):
        # start path is missing / a file: every variant must fail the same way, and so must the model
        kinds0 = {"/" + e[1]: e[0] == "D" for e in c.snap}
        want = "err DirectoryExpected" if kinds0.get(ns) is False else "err ResourceNotFound"
        if ns is None:
            want = "err IllegalBackReference"
        elif ns == "/" or kinds0.get(ns) is True:
            want = "a listing"
        for k, v in real.items():
            if v != want:
                bad.append(("start %r: %s gave %r, expected %s" % (c.start, k, v, want), True, "C13/start-error"))
                break
    else:
        files, lower, upper = oracle(c.ch, ns, c.opts)
        rfiles = [p for p, d in info if not d]
        rdirs = [p for p, d in info if d]
        # exactly once
        if len(set(info)) != len(info) or len({p for p, _ in info}) != len(info):
            bad.append(("a resource is reported twice: %r" % info[:12], True, "C13/duplicate"))
        # selected files: none dropped, nothing else; directories within their bounds
        def fits(q):
            qf, ql, qu = oracle(c.ch, ns, c.opts, q)
            return sorted(qf) == sorted(rfiles) and ql <= set(rdirs) <= qu | ql

        if not (sorted(rfiles) == sorted(files) and lower <= set(rdirs) <= upper | lower):
            explained = None
            for n in range(1, 4):
                for q in itertools.combinations(QUIRKS, n):
                    if fits(q):
                        explained = q
                        break
                if explained:
                    break
            dropped = sorted(set(files) - set(rfiles))
            extra = sorted(set(rfiles) - set(files))
            why = ("selected but not reported: files %r dirs %r; reported but not selected: files %r dirs %r"
                   % (dropped[:6], sorted(lower - set(rdirs))[:6], extra[:6], sorted(set(rdirs) - upper - lower)[:6]))
            if explained:
                for q in explained:
                    bad.append((why + " (regression of the fixed defect '%s')" % q, True, QUIRK_SIG[q]))
            elif sorted(rfiles) != sorted(files):
                bad.append((why, True, "C13/files-mismatch"))
            else:
                bad.append((why, True, "C13/dirs-mismatch"))
        # every reported path is a real resource of the right kind below the start
        kinds = {"/" + e[1]: e[0] == "D" for e in c.snap}
        for p, d in info:
            if kinds.get(p) != d or not inside(p, ns):
                bad.append(("reported %r (dir=%s) is not such a resource below %r" % (p, d, ns), True, "C13/wrong-path"))
                break
        # order constraints
        pos = {p: i for i, (p, _) in enumerate(info)}
        for p, d in info:
            if not d:
                continue
            for q, _ in info:
                if inside(q, p):
                    if c.search == "depth" and pos[q] > pos[p]:
                        bad.append(("depth order: %r reported after its directory %r" % (q, p), True, "C13/depth-order"))
                        break
                    if c.search == "breadth" and pos[q] < pos[p]:
                        bad.append(("breadth order: %r reported before its directory %r" % (q, p), True, "C13/breadth-order"))
                        break
        # the variants agree with each other
        if real["files"] != rfiles:
            bad.append(("files() %r is not the file projection of info() %r" % (real["files"], rfiles), True, "C13/files-projection"))
        if real["dirs"] != rdirs:
            bad.append(("dirs() %r is not the directory projection of info() %r" % (real["dirs"], rdirs), True, "C13/dirs-projection"))
        it = real["iter"]
        if isinstance(it, str) or [(pyjoin(x[0], x[1]), x[2]) for x in it if x[1] is not None] != info:
            bad.append(("info() is not the projection of _iter_walk", True, "C13/info-projection"))
        steps = real["walk"]
        if isinstance(steps, str):
            bad.append(("walk() failed: %s" % steps, True, "C13/walk-error"))
        else:
            flat = [(pyjoin(p, n), True) for p, ds, _ in steps for n in ds] + [(pyjoin(p, n), False) for p, _, fs_ in steps for n in fs_]
            if sorted(flat) != sorted(info):
                bad.append(("walk() steps %r do not hold exactly the resources of info() %r" % (steps[:6], info[:8]), True, "C13/steps-content"))
            sp = [p for p, _, _ in steps]
            ncomp = lambda q: 0 if q == "/" else q.count("/")  # noqa
            scanned = [ns] + [p for p in rdirs if c.opts.get("max_depth") is None or ncomp(p) - ncomp(ns) < c.opts["max_depth"]]
            if sorted(sp) != sorted(scanned) or len(set(sp)) != len(sp):
                bad.append(("walk() step paths %r are not the scanned directories %r" % (sp[:8], scanned[:8]), True, "C13/steps-paths"))
            if not isinstance(it, str) and sp != [x[0] for x in it if x[1] is None]:
                bad.append(("walk() step order differs from the end markers of _iter_walk", True, "C13/steps-order"))
        for k in ("info", "files", "dirs", "walk"):
            if "b." + k in real and real["b." + k] != real[k]:
                bad.append(("bound walker fs.walk.%s differs from Walker.%s: %r vs %r" % (k, k, real["b." + k], real[k]), True, "C13/bound-walker"))

    # correspondence with the model
    if "iterp" in c.model and not isinstance(real["iter"], str):
        # the paths-only breadth machine (queue of paths, every directory re-read from the tree)
        a, b = canon(real["iter"], ordered), canon(c.model["iterp"], ordered)
        if a != b:
            bad.append(("model↔code: paths-only breadth machine differs: real %r model %r" % (a[:10], b[:10]), False,
                        "C13/correspondence/iterp"))
    for v in ("iter", "info", "files", "dirs", "walk"):
        a, b = canon(real[v], ordered), canon(c.model[v], ordered)
        if a != b:
            bad.append(("model↔code: %s differs: real %r model %r" % (v, a if isinstance(a, str) else a[:10], b if isinstance(b, str) else b[:10]),
                        False, "C13/correspondence/" + v))
            break
    for why, found, sig in bad:
        rep.count("verdict:" + sig)
        if os.environ.get("C13_DEBUG") and sig == os.environ["C13_DEBUG"]:
            print("DEBUG", label, why)
        rep.violation(c.to_json(), label + " — " + why, found_input=found, signature=sig)  # vlib caps the number
    return not bad


_PC_SEEN = set()


def check_prefix_complete(rep, patterns, paths, where):
    """The hypothesis of `prune_sound_glob`, on the real matcher: for every path that
    `glob.get_matcher(patterns)` matches, `glob.get_matcher(patterns, accept_prefix=True)` accepts
    every ancestor directory below the root (what `_check_open_dir` asks on the way to it)."""
    from fs import glob

    key = (tuple(patterns), tuple(paths))
    if not patterns or key in _PC_SEEN:
        return
    _PC_SEEN.add(key)
    exact = glob.get_matcher(patterns, True)
    pref = glob.get_matcher(patterns, True, accept_prefix=True)
    for p in paths:
        rep.evaluations += 1
        if not exact(p):
            continue
        rep.count("prefix-complete:matching-path")
        comps = p.strip("/").split("/")
        for i in range(1, len(comps)):
            d = "/" + "/".join(comps[:i])
            if not pref(d):
                rep.violation({"kind": "prefix-complete", "patterns": patterns, "path": p, "ancestor": d, "where": where},
                              "PrefixComplete fails on the real fs.glob.get_matcher: patterns %r match %r but accept_prefix "
                              "rejects its ancestor directory %r — a walk with filter_glob=%r prunes %r and drops the file"
                              % (patterns, p, d, patterns, d), found_input=True, signature="C13/prefix-complete")
                return


def run_cases(rep, drv, specs):
    """specs: iterable of (kind, snap, [(start, search, opts)…]); builds each backend once"""
    cases, reqs = [], []
    for kind, snap, runs in specs:
        b = build(kind, snap)
        try:
            real_snap = snap_tree(b.fs)
            ch = children_of(real_snap)
            enc = H.enc_tree(real_snap)
            tcache = {}
            ci = bool(b.fs.getmeta().get("case_insensitive", False))
            for start, search, opts in runs:
                c = Case()
                c.kind, c.snap, c.start, c.search, c.opts, c.ch, c.origin = kind, real_snap, start, search, opts, ch, [[e[0], e[1]] for e in snap]
                c.nstart = norm_start(start)
                c.ci = ci
                c.real = run_real(b.fs, start, search, opts, bound=(len(cases) % 3 == 0))
                key = json.dumps(opts, sort_keys=True)
                if key not in tcache:
                    tcache[key] = tables(b.fs, ch, opts)
                    if opts.get("filter_glob"):
                        check_prefix_complete(rep, opts["filter_glob"], ["/" + e[1] for e in real_snap], kind)
                reqs += model_requests(enc, start, search, tcache[key], raw=(c.nstart != start))
                cases.append(c)
        finally:
            b.close()
    replies = drv.batch(reqs)
    rep.programs += len(cases)
    at = 0
    for c in cases:
        n = 6 if c.search == "breadth" else 5
        c.model = parse_model(replies[at: at + n])
        at += n
        judge(rep, c)
    return cases


def exhaustive_specs(quick, backs):
    """every small tree; option sets in full for the smallest trees, on a rotating stride (so that every
    option set still meets hundreds of trees) for the larger ones; both orders; the root plus a rotating
    share of the other start directories; a stride sample re-run on the other backends"""
    optsets = small_option_sets()
    full_upto, stride_mid, stride_top = (2, 2, 14) if quick else (3, 2, 16)
    top = 4 if quick else 5
    specs = []
    for ti, t in enumerate(small_trees(top)):
        n = len(t)
        stride = 1 if n <= full_upto else (stride_mid if n < top else stride_top)
        dirs = ["/" + e[1] for e in t if e[0] == "D"]
        runs = []
        for oi, o in enumerate(optsets):
            if (oi + ti) % stride:
                continue
            sts = ["/"] + [d for si, d in enumerate(dirs) if (ti + oi + si) % (4 if quick else 2) == 0]
            for st in sts:
                for search in ("breadth", "depth"):
                    runs.append((st, search, o))
        specs.append(("mem", t, runs))
        if ti % (7 if quick else 3) == 0:
            k = backs[1 + (ti // 7) % (len(backs) - 1)]
            specs.append((k, t, [r for i, r in enumerate(runs) if i % (5 if quick else 3) == 0]))
    return specs


# ----------------------------------------------------------------------------- directed cases (findings, corpus)


SPELLINGS = ["%s", "/%s", "%s/", "/%s/", "./%s", "zz/../%s", "//%s", "%s/.", "../%s", "%s/../.."]


def spell_start(rng, start):
    """a different spelling of a normalised absolute start path (some climb above the root: the
    walk must then fail with IllegalBackReference, as the model's normpath says)"""
    return rng.choice(SPELLINGS) % start.strip("/")


def directed(rep, drv):
    """minimal inputs of the defects this package found (all fixed in /repo: they are ordinary
    compared cases now and violations if they return), of each model branch, and every start-path
    spelling × representative options"""
    t1 = [("D", "a"), ("F", "a/x.py", b""), ("F", "x.py", b"")]
    t2 = [("D", "foo"), ("F", "foo/bar", b""), ("D", "foo/baz"), ("F", "foo/baz/q.py", b"")]
    t3 = [("D", "d"), ("D", "d/c"), ("D", "d/c/[z"), ("F", "d/c/[z/f", b""), ("D", "[a"), ("F", "[a/b]x", b"")]
    t4 = [("D", "a"), ("D", "a/b"), ("F", "a/b/y.py", b""), ("F", "a/x.py", b""), ("F", "x.py", b"")]
    specs = []
    for search in ("breadth", "depth"):
        specs.append(("mem", t1, [("/", search, {"filter_glob": ["**.py"]}),
                                  ("/", search, {"filter_glob": ["*.py"]}),
                                  ("/", search, {"filter_glob": ["/*.py"]}),
                                  ("/", search, {"exclude_glob": ["*.py"]}),
                                  ("/a", search, {"filter_glob": ["a/*.py"]}),
                                  ("/", search, {"exclude": []}),
                                  ("/", search, {"max_depth": 0}),
                                  ("/x.py", search, {}), ("/nope", search, {}), ("/a/x.py", search, {"max_depth": 1})]))
        specs.append(("mem", t2, [("/", search, {"filter_glob": ["foo/bar/*.py"]}),
                                  ("/", search, {"filter_glob": ["foo/*/q.py"]}),
                                  ("/", search, {"filter_glob": ["*/*.py"]}),
                                  ("/foo", search, {"filter_glob": ["**/q.py"], "exclude_dirs": ["baz"]})]))
        specs.append(("mem", t3, [("/", search, {"filter_glob": ["d/*/[*/f"]}),
                                  ("/", search, {"filter_glob": ["[a/b]x"]}),
                                  ("/d", search, {"filter_glob": ["**[z/f"]})]))
        runs = []
        for sp in ["a", "a/", "/a/", "a/../a", "/a/b/..", "./a", "", ".", "//a", "a/b/../..", "../a", "a/../..", "nope/", "x.py/"]:
            for opts in ({}, {"filter": ["*.py"]}, {"max_depth": 1}, {"filter_glob": ["**/*.py"]}, {"exclude_glob": ["**/y.py"]},
                         {"filter_glob": ["a/*"], "exclude_glob": ["a/b"]}):
                runs.append((sp, search, opts))
        specs.append(("mem", t4, runs))
        specs.append(("os", t4, runs[::3]))
    run_cases(rep, drv, specs)
    run_cases(rep, drv, case_insensitive_specs())


def prefix_complete_sweep(rep, rng, n_patterns, n_paths):
    """PrefixComplete on the real matcher beyond the trees that are walked: random patterns (also the
    glued-'**' and '[' shapes that used to break it) x synthetic paths up to depth 5"""
    paths = []
    for _ in range(n_paths):
        paths.append("/" + "/".join(rng.choice(RAND_NAMES) for _ in range(rng.randint(1, 5))))
    fixed = [["**.py"], ["d?e/**x/*.py"], ["*/[*/**"], ["[a/b]x"], ["a/**/b", "**y.py"], ["/foo*/bar**"], ["**/*"], ["*"], ["a//b"],
             ["**"], ["*/*/*"], ["{k}/**{k}"], ["!n/[z]/**"], ["**/.git/**"], ["a b/*"], ["é.py/**"]]
    for pats in fixed:
        check_prefix_complete(rep, pats, paths + ["/" + "/".join(p.strip("/").split("/") * 2) for p in paths[:50]], "sweep")
    for _ in range(n_patterns):
        base = [p.strip("/") for p in rng.sample(paths, 3)]
        pats = [gen_glob(rng, base, glued=rng.random() < 0.3) for _ in range(rng.choice([1, 1, 2]))]
        if rng.random() < 0.2:
            pats[0] = pats[0].replace("*", "[*", 1)
        check_prefix_complete(rep, pats, paths, "sweep")


# ----------------------------------------------------------------------------- entry points


def run(rep, tier, seed, deep=False):
    drv = vlib.Driver()
    quick = tier == "quick"
    rng = vlib.rng_for(seed, "c13")
    rep.rule = ("directed regression/branch/start-spelling cases; exhaustive: every tree with <= %d nodes over names {a,.b,c*} x every start directory x "
                "both orders x (no option, each option alone over %d pattern lists, depths -1..4, pairs; in full for the smallest trees, "
                "rotating stride for the largest) on MemoryFS, a stride sample on the other backends; random trees (depth<=6, branching<=4, metacharacter/dot names, empty dirs) x random option "
                "subsets x backends %s. Compared per case: _iter_walk events, info, files, dirs, walk Steps, bound walker — with the "
                "compiled model (exact sequence on insertion-ordered backends, sorted elsewhere) and with the recursive-listdir + "
                "documented-semantics oracle; ~12%% of the random start paths in a non-normalised spelling (model normalises with its "
                "normpath); PrefixComplete (hypothesis of prune_sound_glob) evaluated on the real fs.glob.get_matcher for every "
                "filter_glob list x every path of its tree and on a random pattern x synthetic path sweep. distinct = distinct (backend, tree, start, order, options)"
                % (4 if quick else 5, len(WILD_SMALL) * 4 + len(GLOB_SMALL) * 2, BACKENDS_QUICK if quick else BACKENDS_ALL))
    rep.assumptions = [
        "the name matchers are parameters of the model, instantiated per case with the truth table of the real fs.match / "
        "fs.match_glob (glob/wildcard semantics themselves are property C14)",
        "an empty pattern list matches everything (documented for wildcard.match_any / glob.match_any): exclude=[] removes every file",
        "max_depth <= 1 behaves like max_depth = 1 (only the start directory is scanned)",
        "directory listing order is the filesystem's; exact order is compared only where it is defined (MemoryFS insertion order)",
        "the filesystems are case sensitive in this environment except read-mode TarFS, which declares case_insensitive: "
        "it and three kinds of wrapper around it (SubFS, WrapReadOnly, WrapCachedDir) run a directed mixed-case grid; the "
        "oracle follows the declared flag (FS.match: 'case-insensitive if the filesystem is')",
        "scan errors other than at the start path (ignore_errors / on_error) are outside the model",
    ]
    try:
        directed(rep, drv)
        # ---- exhaustive small scope
        backs = BACKENDS_QUICK if quick else BACKENDS_ALL
        especs = exhaustive_specs(quick, backs)
        for i in range(0, len(especs), 400):  # chunks bound the memory of a run
            run_cases(rep, drv, especs[i:i + 400])
        # ---- random
        n_trees = (210 if quick else 1200) * (3 if deep else 1)
        n_runs = 9 if quick else 20
        specs = []
        for i in range(n_trees):
            t = random_tree(rng, budget=rng.choice([8, 20, 40, 60]))
            kind = backs[i % len(backs)]
            dirs = ["/"] + ["/" + e[1] for e in t if e[0] == "D"]
            runs = []
            for j in range(n_runs):
                st = "/" if j % 3 == 0 else rng.choice(dirs)
                if rng.random() < 0.04:
                    st = rng.choice(["/" + e[1] for e in t] + ["/nope"]) if t else "/nope"
                o = gen_opts(rng, t, glued=(j == n_runs - 1))
                if kind == "mount" and st != "/nope":
                    st = "/m1" if st == "/" else ("/m1" + st if rng.random() < 0.8 else "/")
                if rng.random() < 0.12:
                    st = spell_start(rng, st)
                runs.append((st, rng.choice(["breadth", "depth"]), o))
                if j % 4 == 0:
                    runs.append((st, "depth" if runs[-1][1] == "breadth" else "breadth", o))
            specs.append((kind, t, runs))
        cases = []
        for i in range(0, len(specs), 300):
            cases = run_cases(rep, drv, specs[i:i + 300]) or cases
        for c in cases[:: max(1, len(cases) // 6)][:6]:
            rep.sample({"backend": c.kind, "tree": [e[1] for e in c.snap][:8], "start": c.start, "search": c.search, "opts": c.opts,
                        "info": c.real["info"] if isinstance(c.real["info"], str) else c.real["info"][:6]})
        # ---- the hypothesis of prune_sound_glob on the real matcher, beyond the walked trees
        prefix_complete_sweep(rep, rng, 150 if quick else 2500, 300 if quick else 1200)
        # ---- _calculate_depth transcription on raw strings
        from fs.walk import Walker
        strs = ["", "/", "//", "a", "/a", "a/", "/a/b", "/a//b", "//a/b//", "a/b/c", "/ /", "/a/b/c/d/"]
        strs += ["".join(rng.choice("ab/ .") for _ in range(rng.randint(0, 9))) for _ in range(200 if quick else 3000)]
        outs = drv.batch(["walk.depth " + hx(s) for s in strs])
        for s, o in zip(strs, outs):
            rep.evaluations += 1
            if o != "ok %d" % Walker._calculate_depth(s):
                rep.violation({"kind": "depth", "path": s, "model": o, "real": Walker._calculate_depth(s)},
                              "_calculate_depth(%r): real %r model %s" % (s, Walker._calculate_depth(s), o), found_input=False,
                              signature="C13/correspondence/calculate_depth")
    finally:
        H.cleanup_scratch()


def replay(rep, case):
    c0 = case["case"]
    if c0.get("kind") == "prefix-complete":
        check_prefix_complete(rep, c0["patterns"], [c0["path"]], "replay")
        print("patterns", c0["patterns"], "path", c0["path"], "->", "violated" if rep.violations else "holds")
        return 1 if rep.violations else 0
    if c0.get("kind") == "depth":
        from fs.walk import Walker
        o = vlib.Driver().batch(["walk.depth " + hx(c0["path"])])[0]
        print("real", Walker._calculate_depth(c0["path"]), "model", o)
        return 0 if o == "ok %d" % Walker._calculate_depth(c0["path"]) else 1
    snap = [tuple(e) + ((b"",) if e[0] == "F" else ()) for e in c0.get("built_from") or c0["tree"]]
    try:
        cases = run_cases(rep, vlib.Driver(), [(c0["backend"], snap, [(c0["start"], c0["search"], c0["opts"])])])
    finally:
        H.cleanup_scratch()
    c = cases[0]
    rep.flush_deferred()
    print("real :", c.real["info"])
    print("model:", c.model["info"])
    print("oracle files:", None if isinstance(c.real["info"], str) or c.nstart is None else sorted(oracle(c.ch, c.nstart, c.opts)[0]))
    return 1 if rep.violations else 0
