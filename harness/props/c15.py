"""C15 — Zip and Tar archives round-trip any tree.

Theorems: lean/FsProofs/C15.lean over lean/FsModel/Archive.lean (writers' member list,
ReadZipFS._directory as a fold of Ref.step, ReadTarFS._directory_entries + isbase/frombase/
parts queries).

Correspondence + oracle, per case:
  * round trip — random tree × {zip stored, zip deflated, tar, tar.gz, tar.bz2, tar.xz}
    × temp_fs ∈ {TempFS, MemoryFS} × target ∈ {path, BytesIO} × via ∈ {write-mode ZipFS/TarFS,
    fs.compress.write_zip/write_tar}:
      members found in the container by zipfile/tarfile  ==  model `archive.members`
      snapshot of the reopened read-only archive           ==  model `archive.roundtrip`
      queries on random path spellings                     ==  model `archive.q`
      ORACLE (the property itself): source snapshot (paths, types, bytes, sizes, mtimes at the
      format's resolution) == reopened snapshot
  * hand-crafted archives written with zipfile/tarfile directly (.., absolute, duplicate,
    un-normalised names, implicit directories), opened read-only below a canary directory:
      snapshot + queries == model `archive.read` / `archive.q`
      ORACLE: visible names are clean, the walk terminates, every listed path can be stat'ed
      and read with fs.errors failures only, nothing outside the archive is exposed/created.
"""
from __future__ import annotations

import calendar
import datetime
import hashlib
import io
import itertools
import os
import shutil
import tarfile
import time
import zipfile

import vlib
from vlib import hx
import fsharness as H

FORMATS = ["zip-stored", "zip-deflated", "tar", "tar.gz", "tar.bz2", "tar.xz"]
TEMPS = ["temp", "mem"]
TARGETS = ["path", "fileobj"]
VIAS = ["writefs", "compress"]

# The only open known finding of this property (known_findings.json, consulted through
# rep.match_known inside rep.violation): findings/C15-zip-localtime.md.
SIG_ZIP_TZ = "C15/zip/localtime-read-as-utc"
# Classes of defects that were found by this check and are FIXED in /repo (findings/applied/):
# they are ordinary compared cases now — the signatures only label a replay should one return.
SIG_ZIP_KEYERROR = "C15/zip/unnormalised-member-name/KeyError"      # fix 1679dcb
SIG_TAR_INFONAME = "C15/tar/info-name-from-raw-member-name"         # fix b3e3bd5
SIG_TAR_EMPTYROOT = "C15/tar/empty-archive-root-not-dir"            # fix e5a4c4f

NAME_POOL = [
    "a", "ab", "a.b", "b", "c", "readme.txt", ".hidden", "...", "x.", " lead", "trail ", "two  spaces",
    "g*", "[x]", "{a,b}", "wh?t", "!bang", "日本語", "é", "é", "😀", "𝔘𝔫𝔦", "Ünï-cødé 😀 mix",
    "back\\slash", "quote'\"", "tab\there", "new\nline", "per%cent", "semi;colon", "#hash", "~tilde", "-dash",
    "CON", "a" * 120, "ü" * 60,
]


# ----------------------------------------------------------------------------- small helpers


def shrink(b: bytes) -> bytes:
    """the model never looks inside file data: long contents travel as a digest"""
    if len(b) <= 1024:
        return b
    return b"#sha256:" + hashlib.sha256(b).digest() + (":%d" % len(b)).encode()


def fam(e) -> str:
    """exception → the class name the model uses (`Leak` = anything outside fs.errors.FSError)"""
    import fs.errors as E

    if isinstance(e, H.Timeout):
        return "Leak"
    if isinstance(e, E.FSError) or type(e).__module__ == "fs.errors":
        return type(e).__name__   # IllegalBackReference is a ValueError that lives in fs.errors
    return "Leak"


def call(fn, seconds=20):
    try:
        return ("ok", H.with_watchdog(fn, seconds))
    except BaseException as e:  # noqa
        if isinstance(e, (KeyboardInterrupt, SystemExit)):
            raise
        return ("err", fam(e), "%s.%s" % (type(e).__module__, type(e).__name__))


LEANCHECKER_MODULES = ["FsProofs.C15", "FsProofs.Lemmas.ArchiveLemmas", "FsProofs.Lemmas.ZipLemmas",
                       "FsProofs.Lemmas.TarLemmas", "FsModel.Archive"]


def report(rep, case, note, found_input=True, signature=None):
    """rep.violation consults known_findings.json (rep.match_known) and caps the number of
    reported cases itself; this wrapper only exists to keep the call sites short."""
    return rep.violation(case, note, found_input=found_input, signature=signature)


def clean_name(n) -> bool:
    return isinstance(n, str) and n not in ("", ".", "..") and "/" not in n and "\0" not in n


def open_read(f, p):
    with f.openbin(p, "r") as fh:
        return fh.read()


def details(f, p):
    raw = f.getinfo(p, ["details"]).raw
    b, d = raw.get("basic", {}), raw.get("details", {})
    return (b.get("name"), bool(b.get("is_dir")), d.get("size"), d.get("modified"))


def xsnap(f):
    """Recursive listing from the root that does not trust the filesystem; the same procedure
    as `ArchiveDriver.snap` in the model.  Entries:
    (K, path, open, readbytes, details[, isdir-error]) with K in D/F/E, or ("L", path, err)."""
    out = []

    def rec(path, depth):
        r = call(lambda: f.listdir(path or "/"))
        if r[0] == "err":
            out.append(("L", path, r[1:]))
            return
        # the same facts through the directory-scan route (scandir / walk with the details namespace): sizes,
        # types and times must be the ones getinfo states
        sc = call(lambda: {i.name: (i.name, bool(i.is_dir), i.raw.get("details", {}).get("size"), i.raw.get("details", {}).get("modified"))
                           for i in f.scandir(path or "/", namespaces=["details"])})
        for name in r[1]:
            if len(out) > 5000:
                return
            p = (path + "/" + name) if path else name
            o = call(lambda: open_read(f, p))
            rb = call(lambda: f.readbytes(p))
            det = call(lambda: details(f, p))
            if det[0] == "ok" and (sc[0] != "ok" or sc[1].get(name) != det[1]):
                out.append(("S", p, ("scandir", sc[1].get(name) if sc[0] == "ok" else sc[1:]), ("getinfo", det[1])))
            d = call(lambda: f.isdir(p))
            if d[0] == "err":
                out.append(("E", p, o, rb, det, d[1:]))
            elif d[1]:
                out.append(("D", p, o, rb, det))
                if depth < 12:
                    rec(p, depth + 1)
            else:
                out.append(("F", p, o, rb, det))

    rec("", 0)
    return out


def enc_res_bytes(r):
    return "ok:" + hx(shrink(r[1])) if r[0] == "ok" else "err:" + r[1]


def enc_det(det, data_res):
    if det[0] == "err":
        return "err:" + det[1]
    name, is_dir, size, mod = det[1]
    if size is not None and data_res[0] == "ok" and size == len(data_res[1]):
        size = len(shrink(data_res[1]))  # sizes follow the digest substitution
    return "ok:%s:%d:%s:%s" % (hx(name or ""), is_dir, "-" if size is None else size, "-" if mod is None else int(mod))


def enc_xsnap(snap):
    parts = []
    for e in snap:
        if e[0] == "L":
            parts.append("L,%s,%s" % (hx(e[1]), e[2][0]))
            continue
        s = "%s,%s,%s,%s,%s" % (e[0], hx(e[1]), enc_res_bytes(e[2]), enc_res_bytes(e[3]), enc_det(e[4], e[2]))
        if e[0] == "E":
            s += "," + e[5][0]
        parts.append(s)
    return "S" + ";".join(parts)


def realq(f, p):
    """every query of the read model on one path, in the format of `archive.q`"""
    def rb(r):
        return "ok:%d" % r[1] if r[0] == "ok" else "err:" + r[1]

    ld = call(lambda: f.listdir(p))
    o = call(lambda: open_read(f, p))
    return " | ".join([
        "exists=" + rb(call(lambda: f.exists(p))),
        "isdir=" + rb(call(lambda: f.isdir(p))),
        "isfile=" + rb(call(lambda: f.isfile(p))),
        "listdir=" + ("ok:" + vlib.hxlist(ld[1]) if ld[0] == "ok" else "err:" + ld[1]),
        "open=" + enc_res_bytes(o),
        "readbytes=" + enc_res_bytes(call(lambda: f.readbytes(p))),
        "details=" + enc_det(call(lambda: details(f, p)), o),
    ])


def enc_members(ms):
    return "M" + ";".join("%s:%s:%s:%d" % (hx(n), k, hx(shrink(d)), t) for n, k, d, t in ms)


def dec_members(s):
    assert s.startswith("M"), s[:40]
    out = []
    if len(s) > 1:
        for m in s[1:].split(";"):
            n, k, d, t = m.split(":")
            out.append((vlib.unhx(n), k, vlib.unhxb(d), int(t)))
    return out


def enc_mtimes(mt):
    return ";".join("%s:%d" % (hx(p), t) for p, t in mt.items()) if mt else "-"


def enc_tree(tree):
    return H.enc_tree([(e[0], e[1]) if e[0] == "D" else ("F", e[1], shrink(e[2])) for e in tree])


# ----------------------------------------------------------------------------- generators


def gen_tree(rng, thorough, big=False):
    """ordered list of ("D", path) / ("F", path, bytes), parents first; depth <= 6"""
    tree = []
    n_target = rng.choice([0, 1, 2, 5, 9, 14, 22] if not thorough else [0, 1, 3, 8, 16, 30, 50])

    def data():
        r = rng.random()
        if r < 0.25:
            return b""
        if r < 0.8:
            return bytes(rng.randrange(256) for _ in range(rng.randint(1, 40)))
        if r < 0.97:
            return rng.randbytes(rng.randint(1025, 70000))
        return rng.randbytes(1) * rng.randint(2000, 300000)  # compressible

    dirs = [""]
    depth = {"": 0}
    used = {"": set()}
    while len(tree) < n_target:
        parent = rng.choice(dirs[-4:] if rng.random() < 0.5 else dirs)
        name = rng.choice(NAME_POOL) if rng.random() < 0.85 else "".join(
            rng.choice("ab.* [😀é") for _ in range(rng.randint(1, 6)))
        if not clean_name(name) or name in used[parent]:
            continue
        p = (parent + "/" + name) if parent else name
        if len(p.encode("utf-8")) > 900:
            continue
        used[parent].add(name)
        if rng.random() < 0.45 and depth[parent] < 5:
            tree.append(("D", p))
            dirs.append(p)
            depth[p] = depth[parent] + 1
            used[p] = set()
        else:
            tree.append(("F", p, data()))
    if big:
        tree.append(("F", "big.bin", rng.randbytes(3 * 1024 * 1024 + rng.randint(0, 4096))))
        tree.append(("F", "big-zeros.bin", b"\0" * (5 * 1024 * 1024)))
    return tree


def gen_mtimes(rng, tree):
    """whole seconds (even and odd) inside the range both formats can hold"""
    lo = calendar.timegm((1980, 1, 2, 0, 0, 0))
    hi = calendar.timegm((2099, 12, 30, 0, 0, 0))
    return {e[1]: rng.choice([rng.randrange(lo, hi), rng.randrange(lo, hi) // 2 * 2, 981173106, 981173107])
            for e in tree}


HOSTILE_NAMES = [
    "a", "b", "a/b", "a/b/c", "a//b", "a///b", "/abs", "//abs2", "/", "./a", "./", ".", "a/.", "a/./b", "a/..",
    "a/../b", "../up", "../../up2", "a/../../up3", "a/b/../../..", "..", "d/", "d//", "a/", "a/b/", "x/y/z",
    "x/y/", "ab", "a.b", "b/c/..", "b/c/../", " ", "a/ /b", "😀/é", "日本語/", "..a", "a..", "...", ".../x",
    "a\\b", "\\abs", "c/../c", "c/./", "e//", "/a/b", "b/", "a/b/c/d/e/f/g",
]


def gen_hostile(rng):
    n = rng.choice([1, 1, 2, 2, 3, 4, 6])
    ms = []
    for i in range(n):
        name = rng.choice(HOSTILE_NAMES)
        if rng.random() < 0.1:
            name = "/".join(rng.choice(["a", "b", "..", ".", "", "c d"]) for _ in range(rng.randint(1, 4)))
        kind = "D" if (name.endswith("/") or rng.random() < 0.2) else "F"
        data = b"" if kind == "D" else ("member-%d-" % i).encode() + bytes(rng.randrange(256) for _ in range(rng.randint(0, 5)))
        ms.append((name, kind, data, calendar.timegm((1990 + i, 3, 4, 5, 6, 2 * i))))
    return ms


def benign_tree(ms, fmt="tar"):
    """For an archive another tool could have written — every member name a clean relative path
    (directories optionally with one trailing slash), no duplicates, no file below a file — the
    tree it denotes: {path: None (directory) | bytes}; implicit parents are directories.
    None when the archive is not of that kind."""
    tree = {}
    explicit = set()
    for n, k, d, _t in ms:
        if n.endswith("/") != (k == "D") and (fmt == "zip" or n.endswith("/")):
            return None   # zip knows directories by the trailing slash only
        base = n[:-1] if (k == "D" and n.endswith("/")) else n
        cs = base.split("/")
        if not base or not all(clean_name(c) for c in cs) or base in explicit:
            return None
        explicit.add(base)
        for i in range(1, len(cs)):
            pre = "/".join(cs[:i])
            if tree.get(pre, None) is not None:
                return None
            tree[pre] = None
        if k == "D":
            if tree.get(base, None) is not None:
                return None
            tree[base] = None
        else:
            if base in tree:
                return None
            tree[base] = d
    for p, v in tree.items():   # a file must not have been given children later
        if v is not None and any(q.startswith(p + "/") for q in tree):
            return None
    return tree


BENIGN_NAMES = ["a", "b", "ab", "a.b", "a/b", "a/b/c", "x/y/z", "x/y", "d/", "a/", "x/", "x/y/", "a/e/", "a/ab",
                "😀/é", "日本語/", "sp ace/f", "g*/[x]", "deep/1/2/3/4/5/f", "deep/1/2/", "..a/b..", ".../x"]


def gen_benign(rng):
    ms = []
    for i in range(rng.choice([1, 2, 3, 4, 6])):
        name = rng.choice(BENIGN_NAMES)
        kind = "D" if name.endswith("/") or rng.random() < 0.15 else "F"
        data = b"" if kind == "D" else ("member-%d-" % i).encode() + bytes(rng.randrange(256) for _ in range(rng.randint(0, 5)))
        ms.append((name, kind, data, calendar.timegm((1990 + i, 3, 4, 5, 6, 2 * i))))
    return ms


DIRECTED_HOSTILE = [
    [],
    [("a//b", "F", b"x", 631152000)],
    [("/abs", "F", b"x", 631152000)],
    [("./a", "F", b"x", 631152000)],
    [("a/../b", "F", b"q", 631152000)],
    [("../up", "F", b"x", 631152000), ("ok", "F", b"y", 631152000)],
    [("ok", "F", b"y", 631152000), ("../up", "F", b"x", 631152000), ("later", "F", b"z", 631152000)],
    [("a/../../canary.txt", "F", b"x", 631152000)],
    [("d", "F", b"first", 631152000), ("e", "F", b"-", 631152000), ("d", "F", b"second", 631152002)],
    [("a", "F", b"x", 631152000), ("a/b", "F", b"y", 631152000)],
    [("a/b", "F", b"y", 631152000), ("a", "F", b"x", 631152000)],
    [("a/", "D", b"", 631152000), ("a", "F", b"x", 631152000)],
    [("a", "F", b"x", 631152000), ("a/", "D", b"", 631152000)],
    [("x/y/z", "F", b"deep", 631152000)],
    [("x/y/", "D", b"", 631152000)],
    [("a/.", "D", b"", 631152000)],
    [("b/c/..", "D", b"", 631152000)],
    [("b/c/..", "F", b"zz", 631152000)],
    [(".", "D", b"", 631152000), ("./q", "F", b"1", 631152000)],
    [("/", "D", b"", 631152000)],
    [("a", "D", b"", 631152000), ("ab", "F", b"1", 631152000), ("a/b", "F", b"2", 631152000), ("a.b", "D", b"", 631152000)],
]


def spellings(rng, paths, extra=()):
    out = ["", "/", ".", "..", "../x", "a/../..", "/..", "nope", "nope/deeper", "x\0y"]
    out += list(extra)
    for p in paths:
        out.append(p)
        out.append(H.spell(rng, p))
        out.append(p + "/" + rng.choice(["zz", "..", ".", "a"]))
    seen, res = set(), []
    for p in out:
        if p not in seen:
            seen.add(p)
            res.append(p)
    return res[:40]


# ----------------------------------------------------------------------------- containers


def zip_epoch(date_time):
    return calendar.timegm(tuple(date_time) + (0, 0, 0))


def container_members(fmt, target):
    """what zipfile / tarfile find in the container: [(name, D|F, data, mtime)]"""
    if hasattr(target, "seek"):
        target.seek(0)
    out = []
    if fmt.startswith("zip"):
        with zipfile.ZipFile(target, "r") as z:
            for zi in z.infolist():
                out.append((zi.filename, "D" if zi.filename.endswith("/") else "F", z.read(zi), zip_epoch(zi.date_time)))
    else:
        tf = tarfile.open(target, "r") if isinstance(target, str) else tarfile.open(fileobj=target, mode="r")
        with tf:
            for ti in tf:
                data = b"" if not ti.isfile() else tf.extractfile(ti).read()
                out.append((ti.name, "D" if ti.isdir() else "F", data, int(ti.mtime)))
    if hasattr(target, "seek"):
        target.seek(0)
    return out


def write_container(fmt, ms, target):
    """hand-crafted archive: members exactly as given, straight through zipfile / tarfile"""
    import warnings

    if fmt == "zip":
        with warnings.catch_warnings():
            warnings.simplefilter("ignore")
            with zipfile.ZipFile(target, "w") as z:
                for n, k, d, t in ms:
                    zi = zipfile.ZipInfo(n, time.gmtime(t)[:6])
                    if k == "D":
                        zi.external_attr |= 0x10
                    z.writestr(zi, d)
    else:
        tf = tarfile.open(target, "w") if isinstance(target, str) else tarfile.open(fileobj=target, mode="w")
        with tf:
            for n, k, d, t in ms:
                ti = tarfile.TarInfo(n)
                ti.mtime = t
                if k == "D":
                    ti.type = tarfile.DIRTYPE
                    tf.addfile(ti)
                else:
                    ti.size = len(d)
                    tf.addfile(ti, io.BytesIO(d))


def open_reader(fmt, target):
    from fs.tarfs import TarFS
    from fs.zipfs import ZipFS

    if hasattr(target, "seek"):
        target.seek(0)
    return ZipFS(target) if fmt.startswith("zip") else TarFS(target)


def scratch_dir():
    return H._tmpdir()


def make_temp(kind):
    from fs.memoryfs import MemoryFS
    from fs.tempfs import TempFS

    if kind == "mem":
        return MemoryFS()
    os.makedirs(H.SCRATCH_ROOT, exist_ok=True)
    return TempFS(temp_dir=H.SCRATCH_ROOT)


def utc(t):
    return datetime.datetime.fromtimestamp(t, datetime.timezone.utc)


def populate(f, tree, mt):
    for e in tree:
        if e[0] == "D":
            f.makedir(e[1])
        else:
            f.writebytes(e[1], e[2])
    for e in reversed(tree):
        f.settimes(e[1], modified=utc(mt[e[1]]), accessed=utc(mt[e[1]]))


def source_snapshot(f):
    """[(K, path, bytes|None, size|None, mtime)] in the source's own listing order, or None"""
    out = []
    try:
        def rec(path, depth):
            for name in f.listdir(path or "/"):
                p = (path + "/" + name) if path else name
                info = f.getinfo(p, ["details"])
                m = info.raw["details"].get("modified")
                if info.is_dir:
                    out.append(("D", p, None, None, None if m is None else int(m)))
                    if depth < 12:
                        rec(p, depth + 1)
                else:
                    out.append(("F", p, f.readbytes(p), info.size, None if m is None else int(m)))
        rec("", 0)
    except Exception:
        return None
    return out


def fmt_family(fmt):
    return "zip" if fmt.startswith("zip") else "tar"


def quant(fmt, t):
    return t // 2 * 2 if fmt.startswith("zip") else t


# ----------------------------------------------------------------------------- round trip


def do_roundtrip(cfg, tree, mt):
    """Run one round trip on the real code.  Returns a dict with everything observed."""
    from fs import compress
    from fs.tarfs import TarFS
    from fs.zipfs import ZipFS

    fmt, temp, target_kind, via = cfg
    zcomp = {"zip-stored": zipfile.ZIP_STORED, "zip-deflated": zipfile.ZIP_DEFLATED}.get(fmt)
    tcomp = {"tar": None, "tar.gz": "gz", "tar.bz2": "bz2", "tar.xz": "xz"}.get(fmt)
    d = scratch_dir() if target_kind == "path" else None
    target = os.path.join(d, "out." + fmt.replace("-stored", "").replace("-deflated", "")) if d else io.BytesIO()
    res = {"cfg": list(cfg)}
    tmp = make_temp(temp)
    try:
        def write():
            if via == "writefs":
                w = (ZipFS(target, write=True, compression=zcomp, temp_fs=tmp) if zcomp is not None
                     else TarFS(target, write=True, compression=tcomp, temp_fs=tmp))
                try:
                    populate(w, tree, mt)
                    res["src"] = source_snapshot(w)
                finally:
                    w.close()
            else:
                populate(tmp, tree, mt)
                res["src"] = source_snapshot(tmp)
                if zcomp is not None:
                    compress.write_zip(tmp, target, compression=zcomp)
                else:
                    compress.write_tar(tmp, target, compression=tcomp)
        w = call(write, 300)
        res["write"] = w if w[0] == "err" else ("ok",)
        if w[0] == "ok":
            res["members"] = container_members(fmt, target)
            r = open_reader(fmt, target)
            try:
                res["first"] = call(lambda: r.listdir("/"))
                res["root_isdir"] = call(lambda: r.isdir("/"))
                res["snap"] = xsnap(r)
                res["reader"] = r
                paths = [e[1] for e in res["snap"] if e[0] != "L"]
                res["qpaths"] = cfg_rng(cfg, tree).sample(paths, min(len(paths), 6))
            except BaseException:
                r.close()
                raise
    finally:
        try:
            tmp.close()
        except Exception:
            pass
        res["_dir"] = d
    return res


def cfg_rng(cfg, tree):
    import random

    return random.Random(repr(cfg) + repr([e[1] for e in tree]))


def canon_src(fmt, src):
    return sorted(((e[0], e[1], e[2], e[3], None if e[4] is None else quant(fmt, e[4])) for e in src), key=lambda e: e[1])


def canon_reopened(snap):
    """reopened snapshot in the shape of the source snapshot; anything irregular stays visible"""
    out = []
    for e in snap:
        if e[0] == "D":
            det = e[4]
            out.append(("D", e[1], None, None, det[1][3] if det[0] == "ok" else ("err", det[1])))
        elif e[0] == "F":
            det = e[4]
            data = e[2][1] if e[2][0] == "ok" else ("err", e[2][1])
            if e[3] != e[2]:
                data = ("readbytes!=openbin", e[3][:2], e[2][:2])
            out.append(("F", e[1], data, det[1][2] if det[0] == "ok" else ("err", det[1]),
                        det[1][3] if det[0] == "ok" else ("err", det[1])))
        else:
            out.append(tuple(e[:2]) + ("irregular",))
    return sorted(out, key=lambda e: e[1])


def first_diff(a, b):
    for x, y in zip(a, b):
        if x != y:
            return "%.160r vs %.160r" % (x, y)
    if len(a) != len(b):
        return "lengths %d vs %d; extra %.160r" % (len(a), len(b), (a[len(b):] or b[len(a):])[0])
    return None


def case_json(cfg, tree, mt):
    return {"kind": "roundtrip", "cfg": list(cfg),
            "tree": [[e[0], e[1]] + ([e[2].decode("latin-1")] if e[0] == "F" and len(e[2]) <= 4096 else
                                      ([{"len": len(e[2]), "sha256": hashlib.sha256(e[2]).hexdigest()}] if e[0] == "F" else []))
                     for e in tree],
            "mtimes": mt}


def judge_roundtrip(rep, drv, cfg, tree, mt, res):
    fmt = cfg[0]
    fam_ = fmt_family(fmt)
    rep.evaluations += 1
    rep.count("roundtrip:%s" % fmt)
    rep.count("via:%s/%s/%s" % (cfg[3], cfg[1], cfg[2]))
    rep.nontrivial("rt", cfg, [(e[0], e[1], hashlib.sha256(e[2]).digest() if e[0] == "F" else None) for e in tree],
                   sorted(mt.items()))
    case = case_json(cfg, tree, mt)
    if res["write"][0] == "err":
        report(rep, dict(case, observed=list(res["write"])),
                      "writing the tree to %s via %s (temp_fs=%s, target=%s) failed with %s"
                      % (fmt, cfg[3], cfg[1], cfg[2], res["write"][2]), found_input=True,
                      signature="C15/%s/write-failed/%s" % (fam_, res["write"][1]))
        return
    src = res["src"]
    if src is None:
        report(rep, case, "the source filesystem could not be listed before writing", found_input=True,
                      signature="C15/%s/source-corrupt" % fam_)
        return
    # ---- the property itself: source snapshot == reopened snapshot
    bad = None
    if res["first"][0] == "err":
        bad = "first listdir('/') of the reopened archive raised %s" % res["first"][2]
    else:
        a, b = canon_src(fmt, src), canon_reopened(res["snap"])
        d = first_diff(a, b)
        if d:
            bad = "source and reopened archive differ: " + d
    sig = None
    if bad is None and res["root_isdir"] != ("ok", True):
        bad = "isdir('/') of the reopened archive is %r" % (res["root_isdir"][:2],)
        if fam_ == "tar" and not tree and res["root_isdir"] == ("ok", False):
            sig = SIG_TAR_EMPTYROOT
    if bad:
        report(rep, dict(case, observed=bad), "%s via %s (temp_fs=%s, target=%s): %s" % (fmt, cfg[3], cfg[1], cfg[2], bad),
                      found_input=True, signature=sig or "C15/%s/roundtrip" % fam_)
        return
    # ---- correspondence with the model (tree given in the source's own listing order)
    mtree = [(e[0], e[1]) if e[0] == "D" else ("F", e[1], e[2]) for e in src]
    smt = {e[1]: e[4] for e in src if e[4] is not None}
    paths = spellings(cfg_rng(cfg, tree), res["qpaths"])
    reqs = ["archive.members %s %s %s" % (fam_, enc_tree(mtree), enc_mtimes(smt)),
            "archive.roundtrip %s %s %s" % (fam_, enc_tree(mtree), enc_mtimes(smt))]
    menc = enc_members(res["members"])
    reqs += ["archive.q %s %s %s" % (fam_, menc, hx(p)) for p in paths]
    rr = drv.batch(reqs)
    rep.programs += 1
    dis = None
    got = enc_members(res["members"])
    if rr[0] != got:
        dis = "member list written (code) vs zipMembers/tarMembers (model): %s" % first_diff(
            [(n, k, shrink(d), t) for n, k, d, t in res["members"]], dec_members(rr[0]))
    else:
        want = rr[1].split(" | ", 1)
        mine = enc_xsnap(res["snap"])
        if want[0] != "err=-" or want[1] != mine:
            dis = "reopened snapshot: model %s, code/model entries differ: %s" % (
                want[0], first_diff(mine.split(";"), want[1].split(";")))
        else:
            r = res["reader"]
            for p, mq in zip(paths, rr[2:]):
                rq = realq(r, p)
                rep.evaluations += 1
                if rq != mq:
                    dis = "queries on path %r: code %s | model %s" % (p, rq, mq)
                    break
    if dis:
        rep.disagreements_checked += 1
        report(rep, dict(case, disagreement=dis),
                      "correspondence Archive model vs fs.compress / Read%sFS broke (%s); the round-trip oracle holds on this input"
                      % ("Zip" if fam_ == "zip" else "Tar", dis[:300]), found_input=False,
                      signature="C15/%s/correspondence" % fam_)


def close_res(res):
    r = res.get("reader")
    if r is not None:
        try:
            r.close()
        except Exception:
            pass
    if res.get("_dir"):
        shutil.rmtree(res["_dir"], ignore_errors=True)


def roundtrip_case(rep, drv, cfg, tree, mt):
    res = do_roundtrip(cfg, tree, mt)
    try:
        judge_roundtrip(rep, drv, cfg, tree, mt, res)
    finally:
        close_res(res)


# ----------------------------------------------------------------------------- hostile archives

TOKEN_OUT = b"CANARY-OUTSIDE-8c1f"
TOKEN_SIB = b"CANARY-SIBLING-77aa"


def dir_state(root):
    st = []
    for dp, dns, fns in os.walk(root):
        dns.sort()
        for n in sorted(fns):
            p = os.path.join(dp, n)
            st.append((os.path.relpath(p, root), open(p, "rb").read() if os.path.getsize(p) < 64 else os.path.getsize(p)))
        for n in dns:
            st.append((os.path.relpath(os.path.join(dp, n), root) + "/", None))
    return sorted(st)


def hostile_case(rep, drv, fmt, ms, target_kind="path"):
    """one hand-crafted archive; fmt in {zip, tar}"""
    rep.evaluations += 1
    rep.count("hostile:%s" % fmt)
    rep.nontrivial("hostile", fmt, ms)
    case = {"kind": "hostile", "fmt": fmt, "members": [[n, k, d.decode("latin-1"), t] for n, k, d, t in ms]}
    base = scratch_dir()
    try:
        os.makedirs(os.path.join(base, "inner"))
        with open(os.path.join(base, "canary.txt"), "wb") as fh:
            fh.write(TOKEN_OUT)
        with open(os.path.join(base, "inner", "sibling.txt"), "wb") as fh:
            fh.write(TOKEN_SIB)
        if target_kind == "path":
            target = os.path.join(base, "inner", "archive." + fmt)
            write_container(fmt, ms, target)
        else:
            target = io.BytesIO()
            write_container(fmt, ms, target)
        before = dir_state(base)
        stored = container_members(fmt, target)  # names as zipfile/tarfile report them
        cwd = os.getcwd()
        os.chdir(os.path.join(base, "inner"))
        try:
            r = open_reader(fmt, target)
            try:
                first = call(lambda: r.listdir("/"))
                snap = xsnap(r)
                paths = spellings(vlib.rng_for(0, repr(ms)), [e[1] for e in snap if e[0] != "L"][:6],
                                  extra=[m[0] for m in ms] + ["../canary.txt", "../inner/sibling.txt", "sibling.txt",
                                                              "/" + base.strip("/") + "/canary.txt"])
                real_q = [realq(r, p) for p in paths]
                limit = 20 * (len(ms) + 5)
                wk = call(lambda: [p for p, _i in itertools.islice(r.walk.info(), limit)])
            finally:
                r.close()
        finally:
            os.chdir(cwd)
        after = dir_state(base)
        # ---------------- oracle
        bad = []  # (signature, text)
        want_tree = benign_tree(ms, fmt)
        if want_tree is not None:
            rep.count("foreign-benign:%s" % fmt)
            got_tree = {}
            for e in snap:
                if e[0] == "D":
                    got_tree[e[1]] = None
                elif e[0] == "F":
                    got_tree[e[1]] = e[2][1] if e[2][0] == "ok" else ("err",) + tuple(e[2][1:])
                else:
                    got_tree[e[1] if len(e) > 1 else "?"] = ("irregular", e[0])
            if first[0] == "err":
                bad.append(("C15/%s/foreign-archive-tree" % fmt, "first listdir('/') raised %s" % first[2]))
            elif got_tree != want_tree:
                d = sorted(set(got_tree.items()) ^ set(want_tree.items()), key=repr)[:3]
                bad.append(("C15/%s/foreign-archive-tree" % fmt,
                            "an archive with clean, consistent member names (explicit and implicit directories) does not show the tree its "
                            "names denote; differing entries: %r" % (d,)))
        if before != after:
            bad.append(("C15/%s/hostile/outside-changed" % fmt, "files around the archive changed: %r -> %r" % (before, after)))
        for e in snap:
            if e[0] == "L":
                if e[2][0] == "Leak":
                    bad.append(("C15/%s/hostile/listdir-leak" % fmt, "listdir(%r) raised %s" % (e[1], e[2][1])))
                continue
            if not all(clean_name(c) for c in e[1].split("/")):
                bad.append(("C15/%s/hostile/unclean-path" % fmt, "visible path %r" % e[1]))
            for what, r_ in (("openbin", e[2]), ("readbytes", e[3])):
                if r_[0] == "ok" and (TOKEN_OUT in r_[1] or TOKEN_SIB in r_[1]):
                    bad.append(("C15/%s/hostile/outside-exposed" % fmt, "%s(%r) returned bytes of a file outside the archive" % (what, e[1])))
                if r_[0] == "err" and r_[1] == "Leak":
                    sig = SIG_ZIP_KEYERROR if (fmt == "zip" and r_[2] == "builtins.KeyError") else "C15/%s/hostile/%s-leak" % (fmt, what)
                    bad.append((sig, "%s(%r) raised %s" % (what, e[1], r_[2])))
            det = e[4]
            if det[0] == "err" and det[1] == "Leak":
                bad.append(("C15/%s/hostile/getinfo-leak" % fmt, "getinfo(%r, details) raised %s" % (e[1], det[2])))
            elif det[0] == "err":
                bad.append(("C15/%s/hostile/listed-but-no-info" % fmt, "getinfo(%r) of a listed path raised %s" % (e[1], det[1])))
            elif not clean_name(det[1][0]) or det[1][0] != e[1].split("/")[-1]:
                bad.append((SIG_TAR_INFONAME if fmt == "tar" else "C15/zip/hostile/info-name",
                            "getinfo(%r).name is %r" % (e[1], det[1][0])))
            if e[0] == "E":
                bad.append(("C15/%s/hostile/isdir-raises" % fmt, "isdir(%r) raised %s" % (e[1], e[5][1])))
        if wk[0] == "err":
            timed_out = wk[2].endswith("Timeout")
            unclean_name = any(s == SIG_TAR_INFONAME for s, _t in bad)
            bad.append((SIG_TAR_INFONAME if (fmt == "tar" and unclean_name) else "C15/%s/hostile/walk-fails" % fmt,
                        "walk.info() %s (%s)" % ("did not terminate" if timed_out else "raised", wk[2])))
        else:
            unclean = [p for p in wk[1] if not all(clean_name(c) for c in p.strip("/").split("/"))]
            if unclean or len(wk[1]) >= 20 * (len(ms) + 5):
                unclean_name = any(s == SIG_TAR_INFONAME for s, _t in bad)
                bad.append((SIG_TAR_INFONAME if (fmt == "tar" and unclean_name) else "C15/%s/hostile/walk-unclean" % fmt,
                            "walk.info() yields %s" % ("an endless stream of paths like %r" % wk[1][-1] if not unclean or len(wk[1]) >= 20 * (len(ms) + 5)
                                                        else "the unclean path %r" % unclean[0])))
        seen = set()
        for sig, text in bad:
            if sig in seen:
                continue
            seen.add(sig)
            report(rep, dict(case, observed=text), "hand-crafted %s archive %r: %s" % (fmt, [m[0] for m in ms], text),
                          found_input=True, signature=sig)
        # ---------------- correspondence
        menc = enc_members(stored)
        rr = drv.batch(["archive.read %s %s" % (fmt, menc)] + ["archive.q %s %s %s" % (fmt, menc, hx(p)) for p in paths])
        rep.programs += 1
        want = rr[0].split(" | ", 1)
        dis = None
        ferr = "err=-" if first[0] == "ok" else "err=" + first[1]
        if fmt == "zip" and ferr != want[0]:
            dis = "first access: code %s model %s" % (ferr, want[0])
        elif enc_xsnap(snap) != want[1]:
            dis = "snapshot: " + str(first_diff(enc_xsnap(snap).split(";"), want[1].split(";")))
        else:
            for p, a, b in zip(paths, real_q, rr[1:]):
                rep.evaluations += 1
                if a != b:
                    dis = "queries on path %r: code %s | model %s" % (p, a, b)
                    break
        if dis:
            rep.disagreements_checked += 1
            report(rep, dict(case, disagreement=dis),
                          "correspondence Archive read model vs Read%sFS broke on a hand-crafted archive %r (%s)"
                          % ("Zip" if fmt == "zip" else "Tar", [m[0] for m in ms], dis[:300]),
                          found_input=False, signature="C15/%s/hostile/correspondence" % fmt)
    finally:
        shutil.rmtree(base, ignore_errors=True)


# ----------------------------------------------------------------------------- time zone


def tz_case(rep):
    """zip stores broken-down *local* time (stat branch of write_zip, ZipFile.write) and the
    reader interprets it as UTC: outside TZ=UTC the round trip shifts mtimes by the UTC offset."""
    from fs.zipfs import ZipFS

    old = os.environ.get("TZ")
    when = 981173106
    out = {}
    try:
        os.environ["TZ"] = "Etc/GMT-5"
        time.tzset()
        for temp in TEMPS:
            b = io.BytesIO()
            tmp = make_temp(temp)
            w = ZipFS(b, write=True, temp_fs=tmp)
            w.writebytes("f", b"1")
            w.settimes("f", modified=utc(when), accessed=utc(when))
            w.close()
            b.seek(0)
            with ZipFS(b) as r:
                out[temp] = int(r.getinfo("f", ["details"]).raw["details"]["modified"])
    finally:
        if old is None:
            os.environ.pop("TZ", None)
        else:
            os.environ["TZ"] = old
        time.tzset()
    rep.evaluations += 1
    rep.nontrivial("tz", "Etc/GMT-5")
    for temp, got in out.items():
        if got != when:
            report(rep, {"kind": "tz", "tz": "Etc/GMT-5", "temp_fs": temp, "set": when, "read_back": got},
                          "TZ=Etc/GMT-5: a file with mtime %d written through ZipFS(temp_fs=%s) reads back with mtime %d (off by %d s)"
                          % (when, temp, got, got - when), found_input=True, signature=SIG_ZIP_TZ)


# ----------------------------------------------------------------------------- entry points


def all_configs():
    return list(itertools.product(FORMATS, TEMPS, TARGETS, VIAS))


def run(rep, tier, seed, deep=False):
    drv = vlib.Driver()
    rng = vlib.rng_for(seed, "c15")
    quick = tier == "quick"
    per_cfg = 6 if quick else 40
    n_hostile = 450 if quick else 4000
    if deep:
        per_cfg *= 3
        n_hostile *= 3
    rep.rule = ("random trees (names: unicode incl. non-BMP and combining marks, spaces, dots, glob metacharacters, backslash, newline, "
                "120-char names; empty directories; empty files; files up to 300 KiB, multi-MiB in thorough; depth <= 6) x %d configurations "
                "(format x temp_fs x target x via), %d trees each, mtimes set with settimes to whole seconds (even and odd) in 1980..2099; "
                "%d directed + %d random hand-crafted zip and tar archives below a canary directory; distinct = distinct (configuration, tree) "
                "or (format, member list)" % (len(all_configs()), per_cfg, len(DIRECTED_HOSTILE), n_hostile))
    rep.assumptions = [
        "zipfile/tarfile (container bytes, compression, name encoding) are external: the member list they report is compared with the model's, not derived",
        "TZ=UTC (zip stores local broken-down time; see the time-zone finding); mtimes within 1980..2099 (zipfile rejects earlier years), plus the epoch itself (0, 1, 2 s) for tar",
        "only directories and regular files (tar symlinks / devices are outside the model); lone surrogates in names are outside the model",
        "the `encoding` argument only matters on Python 2 and is not varied",
    ]
    try:
        # directed: the empty tree and a fixed small tree in every configuration
        fixed = [("D", "d"), ("F", "d/f", b"hello"), ("D", "d/empty"), ("F", "z", b""), ("D", "a"), ("F", "ab", b"1"), ("D", "a/b")]
        for cfg in all_configs():
            roundtrip_case(rep, drv, cfg, [], {})
            roundtrip_case(rep, drv, cfg, fixed, {e[1]: 981173106 + i for i, e in enumerate(fixed)})
            if cfg[0].startswith("tar"):
                # tar holds the epoch itself and the first seconds after it (zip starts in 1980): a time of
                # exactly 0 is a time like any other
                roundtrip_case(rep, drv, cfg, fixed, {e[1]: [0, 1, 0, 2, 0, 315532800, 0][i] for i, e in enumerate(fixed)})
        for cfg in all_configs():
            for _ in range(per_cfg):
                tree = gen_tree(rng, not quick)
                roundtrip_case(rep, drv, cfg, tree, gen_mtimes(rng, tree))
        if not quick:
            for cfg in all_configs():
                if cfg[1] == "mem" and cfg[2] == "fileobj" and cfg[0] in ("tar.bz2", "tar.xz"):
                    continue  # keeps thorough inside its budget; the other 44 configurations carry the big files
                tree = gen_tree(rng, True, big=True)
                roundtrip_case(rep, drv, cfg, tree, gen_mtimes(rng, tree))
        for fmt in ("zip", "tar"):
            for ms in DIRECTED_HOSTILE:
                for tk in TARGETS:
                    hostile_case(rep, drv, fmt, ms, tk)
        for i in range(n_hostile):
            ms = gen_benign(rng) if i % 3 == 0 else gen_hostile(rng)
            hostile_case(rep, drv, rng.choice(["zip", "tar"]), ms, rng.choice(TARGETS))
        tz_case(rep)
        rep.sample({"roundtrip": "fixed tree d/, d/f, d/empty/, z, a/, ab, a/b/ in all %d configurations" % len(all_configs())})
        rep.sample({"hostile": [m[0] for ms in DIRECTED_HOSTILE[:8] for m in ms]})
    finally:
        H.cleanup_scratch()


def replay(rep, case):
    c = case["case"]
    drv = vlib.Driver()
    try:
        if c.get("kind") == "roundtrip":
            tree = []
            for e in c["tree"]:
                if e[0] == "D":
                    tree.append(("D", e[1]))
                elif isinstance(e[2], dict):
                    print("large file %s is recorded by digest only; rerun the check with the same seed" % e[1])
                    tree.append(("F", e[1], b"\0" * e[2]["len"]))
                else:
                    tree.append(("F", e[1], e[2].encode("latin-1")))
            roundtrip_case(rep, drv, tuple(c["cfg"]), tree, {k: int(v) for k, v in c["mtimes"].items()})
        elif c.get("kind") == "hostile":
            ms = [(m[0], m[1], m[2].encode("latin-1"), int(m[3])) for m in c["members"]]
            for tk in TARGETS:
                hostile_case(rep, drv, c["fmt"], ms, tk)
        elif c.get("kind") == "tz":
            tz_case(rep)
        else:
            print("unknown case kind")
            return 2
    finally:
        H.cleanup_scratch()
    print("violations: %d, known findings hit: %s" % (len(rep.violations), sorted(set(rep.known_hits))))
    return 1 if rep.violations else 0
