"""OSFS tied *exactly* to its transcription FsModel.Os (+ FsModel.Posix + the GENERATED errno table).

Used by C01 and C06 the way `judge_mem_exact` is used for MemoryFS (`run_os_exact` runs all of it):

* `judge_os_exact(rep, steps, drv)` — every step that ran on an OSFS-backed backend is re-executed by
  the compiled model from the identical pre-state (`os`, `temp` -> `Os.step`, driver command `os.step`;
  `sub-os` -> `OsSub.step`, `ossub.step`) and compared on the exact outcome (error CLASS, value;
  listings sorted) and the exact resulting tree (up to entry order: the kernel's listing order is not
  the model's).  A disagreement is a broken correspondence (`found_input=False`): the Ref-level
  judge has already run on the same step, and if the backend really violates the property there,
  that judge has produced the failing input.
* `directed_steps()` — one step per branch of the transcription the generators reach rarely (they go
  through the property's own judge like any other step).
  They include the former multi-mode strings ("rw", "wa", "r++", "wbb": fixed finding
  findings/applied/C01-osfs-openbin-multimode.md) — now a documented ValueError on every backend.
* `check_posix_model(rep, drv)` — the POSIX model itself against the real kernel: every system call
  of `FsModel/Posix.lean` on every path over every small tree (same errno, same resulting tree).
* `check_errno_table(rep, drv)` — the extractor's output (as the compiled model uses it) against the
  live `_ConvertOSErrors.FILE_ERRORS/DIR_ERRORS` of the running interpreter.
* `replay(rep, case)` — for the replay files written here (`*/os-exact/*`, `posix/*`, `os-table/*`).
"""
from __future__ import annotations

import errno
import os
import shutil

import vlib
import fsharness as H
from vlib import hx

OS_KINDS = ("os", "temp", "sub-os")
# which compiled model plays which backend: a plain OSFS/TempFS is `Os.step`; the harness's
# `sub-os` backend (SubFS of an OSFS at x/y) is `OsSub.step` = WrapFS/SubFS methods over `Os.step`
MODEL_CMD = {"os": "os.step", "temp": "os.step", "sub-os": "ossub.step"}
MODEL_NAME = {"os.step": "FsModel.Os (transcription of fs/osfs.py + inherited fs/base.py defaults over FsModel.Posix and the "
                         "GENERATED errno table)",
              "ossub.step": "FsModel.OsSub (fs/wrapfs.py + fs/subfs.py over FsModel.Os)"}


# ----------------------------------------------------------------------------- Os.step vs OSFS


def judge_os_exact(rep, steps, drv, prop=None):
    prop = prop or rep.prop_id
    os_steps = [s for s in steps if s.kind in OS_KINDS]
    if not os_steps:
        return 0
    n_bad = 0
    replies = {}
    for cmd in sorted(set(MODEL_CMD.values())):
        part = [s for s in os_steps if MODEL_CMD[s.kind] == cmd]
        for s, m in zip(part, H.model_replies(drv, part, cmd=cmd, sort_names=True)):
            replies[id(s)] = (cmd, m)
    for s in os_steps:
        cmd, m = replies[id(s)]
        (mout, mtree, mclosed, adm, wf) = m
        rep.count("os-exact")
        rep.count("os-exact/%s:%s" % (s.op[0], mout[0] if mout[0] == "ok" else mout[1]))
        if mout == ("err", "OperationFailed"):
            rep.count("os-exact/loose")
            continue  # loose: the bulk operation fails mid-way, partial state not modelled
        impl = (s.impl[0], H.canon_val(s.impl[1]))
        why = None
        if impl != tuple(mout):
            why = "outcome: %s %s, transcription %s" % (s.kind, impl, mout)
        elif s.post is None:
            why = "tree: %s state cannot be snapshotted after the call" % s.kind
        elif H.canon_tree(s.post) != H.canon_tree(H.dec_tree(mtree)):
            why = "tree: %s %r, transcription %r" % (s.kind, [e[:2] for e in H.canon_tree(s.post)][:10],
                                                     [e[:2] for e in H.canon_tree(H.dec_tree(mtree))][:10])
        if why:
            n_bad += 1
            rep.disagreements_checked += 1
            # the Ref-level judge has already run on this step: if it did not fire, the property
            # still holds at this input and only the transcription (or the POSIX model, or the
            # extracted table) is out of date
            rep.violation(H.step_case(s, model=[list(mout), mtree]),
                          "correspondence %s vs %s.%s%r from tree %r broke — %s; the Ref-level judge decides whether the "
                          "backend still satisfies the property on this input"
                          % (MODEL_NAME[cmd], s.kind, s.op[0], s.op[1:], [e[:2] for e in s.pre][:10], why),
                          found_input=False, signature="%s/os-exact/%s" % (prop, s.op[0]))
    return n_bad


# ----------------------------------------------------------------------------- Posix.lean vs the kernel

_ERRNAMES = {getattr(errno, n): n for n in ("ENOENT", "ENOTDIR", "EEXIST", "EISDIR", "ENOTEMPTY", "EINVAL", "EBUSY",
                                            "EXDEV", "EACCES", "EPERM")}


def _materialise(root, snap):
    for e in snap:
        p = os.path.join(root, e[1])
        if e[0] == "D":
            os.makedirs(p, exist_ok=True)
        else:
            with open(p, "wb") as fh:
                fh.write(e[2])


def _snap_dir(root):
    out = []

    def rec(rel):
        d = os.path.join(root, rel) if rel else root
        for name in sorted(os.listdir(d)):
            p = (rel + "/" + name) if rel else name
            full = os.path.join(root, p)
            if os.path.isdir(full) and not os.path.islink(full):
                out.append(("D", p))
                rec(p)
            else:
                with open(full, "rb") as fh:
                    out.append(("F", p, fh.read()))

    rec("")
    return out


def _errname(e):
    if isinstance(e, shutil.SameFileError):
        return "E#0"
    if isinstance(e, OSError) and e.errno is not None:
        return _ERRNAMES.get(e.errno, "E#%d" % e.errno)
    if isinstance(e, ValueError):
        return "ValueError"
    return "E?" + type(e).__name__


def _sys(root, call, a, b=None):
    """run one primitive the way OSFS does; returns ("ok", value-or-None) | ("err", errno name)"""
    pa = os.path.join(root, a) if a else root
    pb = None if b is None else (os.path.join(root, b) if b else root)
    try:
        if call == "stat":
            st = os.stat(pa)
            import stat as S

            return ("ok", "D" if S.S_ISDIR(st.st_mode) else "F%d" % st.st_size)
        if call == "listdir":
            return ("ok", "L" + ",".join(hx(n) for n in sorted(os.listdir(pa))))
        if call == "scandir":
            with os.scandir(pa) as it:
                ents = sorted((e.name, e.is_dir()) for e in it)
            return ("ok", ",".join("%s:%d" % (hx(n), d) for n, d in ents))
        if call == "mkdir":
            os.mkdir(pa)
            return ("ok", None)
        if call == "rmdir":
            os.rmdir(pa)
            return ("ok", None)
        if call == "unlink":
            os.remove(pa)
            return ("ok", None)
        if call == "utime":
            os.utime(pa, (1.0, 2.0))
            return ("ok", None)
        if call == "exists":
            return ("ok", "%d" % os.path.exists(pa))
        if call == "isdir":
            return ("ok", "%d" % os.path.isdir(pa))
        if call == "islink":
            return ("ok", "%d" % os.path.islink(pa))
        if call == "open":
            import io

            io.open(pa, mode=b).close()
            return ("ok", None)
        if call == "rename":
            os.rename(pa, pb)
            return ("ok", None)
        if call == "copy2":
            shutil.copy2(pa, pb)
            return ("ok", None)
        if call == "removecontents":
            from fs.osfs import OSFS

            OSFS._remove_contents(pa)
            return ("ok", None)
    except (OSError, ValueError) as e:
        return ("err", _errname(e))
    raise AssertionError(call)


POSIX_PATHS = ["", "a", "b", "a/a", "a/b", "b/a", "a/a/a"]
OPEN_MODES = ["rb", "r+b", "wb", "w+b", "ab", "a+b", "xb", "x+b", "rwb", "rbb", "b"]


def check_posix_model(rep, drv, trees=None):
    """every primitive of Posix.lean x every path x every small tree, against the kernel"""
    from props import _stateful as S

    trees = trees if trees is not None else S.small_trees()
    calls = []
    for c in ("stat", "listdir", "scandir", "mkdir", "rmdir", "unlink", "utime", "exists", "isdir", "islink", "removecontents"):
        for p in POSIX_PATHS:
            calls.append((c, p, None))
    for p in POSIX_PATHS:
        for m in OPEN_MODES:
            calls.append(("open", p, m))
    for p in POSIX_PATHS:
        for q in POSIX_PATHS:
            calls.append(("rename", p, q))
            calls.append(("copy2", p, q))
    reqs, runs = [], []
    base = H._tmpdir()
    n = 0
    try:
        for t in trees:
            tenc = H.enc_tree(t)
            for (c, a, b) in calls:
                if c == "rmdir" and a == "":
                    continue  # would remove the scratch root itself: the model's root is not removable
                if c == "rename" and (a == "" or b == ""):
                    continue  # renaming the scratch root / onto it leaves the modelled universe
                root = os.path.join(base, "k%d" % n)
                n += 1
                os.mkdir(root)
                _materialise(root, t)
                got = _sys(root, c, a, b)
                post = _snap_dir(root) if os.path.isdir(root) else None
                shutil.rmtree(root, ignore_errors=True)
                req = "posix.sys %s %s %s" % (tenc, c, hx(a))
                if b is not None:
                    req += " " + hx(b)
                reqs.append(req)
                runs.append((t, c, a, b, got, post))
        replies = drv.batch(reqs)
    finally:
        H.rm_rf(base)
    bad = 0
    for (t, c, a, b, got, post), line in zip(runs, replies):
        rep.evaluations += 1
        rep.count("posix/%s:%s" % (c, got[0] if got[0] == "ok" else got[1]))
        rep.nontrivial("posix", c, a, b, H.enc_tree(t))
        head, mtree = [x.strip() for x in line.split(" | ")]
        if head.startswith("ok"):
            mv = head[2:].strip()
            if c == "listdir":
                mv = "L" + ",".join(sorted(x for x in mv[1:].split(",") if x))
            if c == "scandir":
                mv = ",".join(sorted(x for x in mv.split(",") if x))
            mod = ("ok", mv if mv else None)
        else:
            mod = ("err", head[4:])
        want = (got[0], got[1] if got[1] else None) if got[0] == "ok" else got
        why = None
        if mod != want:
            why = "kernel %s, model %s" % (want, mod)
        elif post is None or H.canon_tree(post) != H.canon_tree(H.dec_tree(mtree)):
            why = "tree after the call: kernel %r, model %r" % (None if post is None else [e[:2] for e in post][:8],
                                                              [e[:2] for e in H.dec_tree(mtree)][:8])
        if why:
            bad += 1
            rep.disagreements_checked += 1
            rep.violation({"tree": [list(e[:2]) for e in t], "call": c, "a": a, "b": b, "kernel": list(got), "model": line},
                          "correspondence FsModel.Posix vs the kernel broke: %s(%r%s) on tree %r — %s"
                          % (c, a, "" if b is None else ", %r" % b, [e[:2] for e in t], why),
                          found_input=False, signature="posix/%s" % c)
    rep.extra["posix_model_calls_checked"] = len(runs)
    return bad


# ----------------------------------------------------------------------------- the generated table vs the live one


def check_errno_table(rep, drv):
    """the table the compiled model uses == the table the running interpreter uses (validates the extractor)"""
    from fs import error_tools, errors

    live_f = error_tools._ConvertOSErrors.FILE_ERRORS
    live_d = error_tools._ConvertOSErrors.DIR_ERRORS
    names = ["ENOENT", "ENOTDIR", "EEXIST", "EISDIR", "ENOTEMPTY", "EINVAL", "EBUSY", "EXDEV", "EACCES", "EPERM",
             "EFAULT", "ESRCH", "ENOSPC", "ENETDOWN", "ECONNRESET", "ENAMETOOLONG", "EOPNOTSUPP", "ENOSYS", "ENONET",
             "EROFS", "EMFILE", "ENFILE", "ELOOP", "EIO"]
    reqs, want = [], []
    for d, live in ((0, live_f), (1, live_d)):
        for n in names:
            num = getattr(errno, n, None)
            if num is None:
                continue
            reqs.append("os.table %d %s" % (d, n))
            want.append((d, n, live.get(num, errors.OperationFailed).__name__))
    bad = 0
    for (d, n, w), line in zip(want, drv.batch(reqs)):
        rep.evaluations += 1
        got = line.strip().split(".")[-1]
        if got != w:
            bad += 1
            rep.violation({"directory": bool(d), "errno": n, "live": w, "generated": line},
                          "GENERATED errno table disagrees with the live _ConvertOSErrors.%s[%s]: live %s, generated %s "
                          "(the extractor harness/extract/errnotable.py misreads fs/error_tools.py)"
                          % ("DIR_ERRORS" if d else "FILE_ERRORS", n, w, got),
                          found_input=False, signature="os-table/%s" % n)
    return bad


# ----------------------------------------------------------------------------- directed cases

DIRECTED = [
    # (tree, op) — one per branch the random/exhaustive generators reach rarely
    ([("D", "a"), ("F", "a/f", b"x")], ("copy", "a/f", "a", True)),                 # os_copy_onto_directory_rejected
    ([("D", "a"), ("F", "f", b"x")], ("copy", "f", "a", False)),
    ([("F", "f", b"x")], ("copy", "f", "f", True)),                                  # SameFileError must not leak
    ([("F", "f", b"x")], ("copy", "f", "", True)),
    ([("F", "f", b"x")], ("move", "f", "", True)),                                   # rename fails -> copy path fails too
    ([("F", "f", b"x"), ("F", "g", b"y")], ("move", "f", "g/h", True)),
    ([("F", "f", b"x"), ("D", "d")], ("move", "f", "d", True)),
    ([("F", "f", b"x"), ("D", "d")], ("move", "f", "d/f", False)),
    ([("F", "f", b"x")], ("makedir", "f/g", False)),                                 # ENOTDIR, directory flavour
    ([("F", "f", b"x")], ("makedir", "f/g/h", True)),
    ([("F", "f", b"x")], ("listdir", "f/g")),
    ([("F", "f", b"x")], ("removedir", "f/g")),
    ([("F", "f", b"x")], ("removetree", "f/g")),
    ([("F", "f", b"x")], ("removetree", "f")),
    ([("F", "f", b"x")], ("remove", "f/g")),
    ([("F", "f", b"x")], ("getinfo", "f/g")),
    ([("F", "f", b"x")], ("isempty", "f")),
    ([("F", "f", b"x")], ("openbin", "f/g", "w")),
    ([("D", "d")], ("openbin", "d", "x")),
    ([("D", "d")], ("openbin", "d", "r")),
    ([("D", "d"), ("D", "d/e"), ("F", "d/e/f", b"1"), ("F", "d/g", b"2")], ("removetree", "d")),
    ([("D", "d"), ("D", "d/e"), ("F", "d/e/f", b"1"), ("F", "g", b"2")], ("removetree", "")),
    ([("D", "d"), ("F", "d/f", b"1")], ("removedir", "d")),
    ([("D", "d"), ("F", "d/f", b"1")], ("movedir", "d", "e", True)),
    ([("D", "d"), ("F", "d/f", b"1"), ("D", "e"), ("F", "e/f", b"2")], ("movedir", "d", "e", False)),
    ([("D", "d"), ("F", "d/f", b"1")], ("copydir", "d", "e/e2", True)),
    ([("F", "f", b"x")], ("makedirs", "f/g", True)),
    ([("D", "d")], ("makedirs", "d/e/f", False)),
    ([], ("remove", "")),
    ([], ("removedir", "")),
    ([], ("makedir", "", False)),
    ([], ("makedir", "", True)),
    ([], ("settimes", "nope")),
]

# mode strings Mode.validate used to accept and io.open rejected (fixed: Mode.validate has io.open's
# two rules now): a documented ValueError on every backend, before anything is touched.  They are
# not in fsharness.MODES, so they are also run on MemoryFS here (judged by the Ref-level judge and
# by the exact MemoryFS transcription like any other `mem` step)
FORMER_MULTIMODE = [([("F", "f", b"x")], ("openbin", "f", "rw")), ([], ("openbin", "g", "wa")),
                    ([("F", "f", b"x")], ("openbin", "f", "r++")), ([], ("openbin", "g", "wbb")),
                    ([("F", "f", b"x")], ("openbin", "f", "ra")), ([("F", "f", b"x")], ("openbin", "f", "xw"))]
DIRECTED += FORMER_MULTIMODE


def directed_steps(kinds=("os", "sub-os")):
    """the directed cases, each on a fresh backend, as ordinary steps (judged by the property's own
    Ref-level judge *and* exactly against the transcription)"""
    steps = []
    hid = 2 * 10 ** 6
    for kind in kinds:
        for tree, op in DIRECTED:
            steps.append(_one_step(kind, tree, op, hid))
            hid += 1
    for tree, op in FORMER_MULTIMODE:
        steps.append(_one_step("mem", tree, op, hid))
        hid += 1
    return steps


def _one_step(kind, tree, op, hid):
    b = H.build_state(kind, tree)
    try:
        pre = H.snapshot(b.fs)
        impl = H.apply_op(b.fs, op, keep_order=True)
        post = H.snapshot(b.fs)
        return H.Step(kind, pre, op, impl, post, hid, 0)
    finally:
        b.close()


def run_os_exact(rep, steps, drv):
    """everything this module checks, as called from c01.py / c06.py"""
    judge_os_exact(rep, steps, drv)
    check_posix_model(rep, drv)
    check_errno_table(rep, drv)
    rep.assumptions = list(rep.assumptions) + [
        "POSIX model (FsModel/Posix.lean): one device, no symbolic links, every permission granted, clean path components; "
        "errno values are Linux's; validated against the running kernel on every run",
    ]


# ----------------------------------------------------------------------------- replay


def is_mine(case):
    sig = case.get("signature") or ""
    return "/os-exact/" in sig or sig.startswith("posix/") or sig.startswith("os-table/")


def replay(rep, case):
    """re-execute a replay file written by this module"""
    sig = case.get("signature") or ""
    drv = vlib.Driver()
    c = case["case"]
    try:
        if sig.startswith("os-table/"):
            check_errno_table(rep, drv)
        elif sig.startswith("posix/"):
            tree = []
            for e in c["tree"]:
                tree.append(tuple(e))
            # the recorded tree has no file contents: rebuild the small-scope trees that match its shape
            from props import _stateful as S

            trees = [t for t in S.small_trees() if [list(x[:2]) for x in t] == [list(x[:2]) for x in tree]]
            check_posix_model(rep, drv, trees=trees or None)
        else:
            kind, pre, op = H.case_to_step(c)
            op = H.fix_op_bytes(op)
            s = _one_step(kind, pre, op, 0)
            judge_os_exact(rep, [s], drv)
            print("impl:", s.impl[:2])
    finally:
        H.cleanup_scratch()
    rep.flush_deferred()
    return 1 if rep.violations else 0
