"""InfoModel — correspondence of lean/FsModel/Info.lean (Permissions, fs.time, Info accessors)
with the real `fs.permissions.Permissions`, `fs.time`, `fs.info.Info`, plus the C10 oracle
"an accessor is the independent conversion of the raw value".

Theorems: lean/FsProofs/InfoLaws.lean.  Called from props/c10.py (`check_info_model`).

Verdict rule:
  * the *oracle* (needs no model: bit table, `stat.filemode`, `EPOCH + timedelta`, plain dict
    look-ups) fails on the real code            → violation with the failing input (found_input=True,
                                                   signature C10/info/<law>)
  * only model and code disagree                → found_input=False (signature C10/infomodel/<kind>)
Not compared: object identities, the iteration order of `Permissions.__iter__` (a set).
Floats reach the model as their exact ratio; only "float-safe" values are generated (the double
product `frac * 1e6` inside CPython is exact for them), see FsModel/Info.lean.
"""
from __future__ import annotations

import itertools
import math
import stat
from fractions import Fraction

from vlib import hx, hxlist

PERM_NAMES = ["setuid", "setguid", "sticky", "u_r", "u_w", "u_x", "g_r", "g_w", "g_x", "o_r", "o_w", "o_x"]
# independent table (POSIX, <sys/stat.h>): not read from fs.permissions
BITS = {"setuid": stat.S_ISUID, "setguid": stat.S_ISGID, "sticky": stat.S_ISVTX,
        "u_r": stat.S_IRUSR, "u_w": stat.S_IWUSR, "u_x": stat.S_IXUSR,
        "g_r": stat.S_IRGRP, "g_w": stat.S_IWGRP, "g_x": stat.S_IXGRP,
        "o_r": stat.S_IROTH, "o_w": stat.S_IWOTH, "o_x": stat.S_IXOTH}
EXTRA_NAMES = ["u_s", "g_S", "o_t", "o_T", "x", "", "U_R", "u_r ", "\xe9", "sticky2"]
TIME_KEYS = ("accessed", "modified", "created", "metadata_changed")
MIN_EPOCH, MAX_EPOCH = -62135596800, 253402300799


# ------------------------------------------------------------------ encodings (driver format)

def enc_val(v):
    """JSON-like python value -> driver tokens"""
    if v is None:
        return "n"
    if v is True:
        return "t"
    if v is False:
        return "f"
    if isinstance(v, int):
        return "i%d" % v
    if isinstance(v, float):
        n, d = v.as_integer_ratio()
        return "q%d/%d" % (n, d)
    if isinstance(v, str):
        return "s" + hx(v)
    if isinstance(v, (list, tuple)):
        return " ".join(["l%d" % len(v)] + [enc_val(x) for x in v])
    raise TypeError("not a model value: %r" % (v,))


def enc_raw(raw):
    out = ["R%d" % len(raw)]
    for ns, d in raw.items():
        out += [hx(ns), str(len(d))]
        for k, v in d.items():
            out += [hx(k), enc_val(v)]
    return " ".join(out)


def perm_out(p):
    return "%d %s %s" % (p.mode, hxlist(p.dump()), hx(p.as_str()))


def dt_fields(d):
    return "%d %d %d %d %d %d %d" % (d.year, d.month, d.day, d.hour, d.minute, d.second, d.microsecond)


def float_safe(t):
    """CPython computes round_half_even(double(frac * 1e6)); the model rounds the exact product.
    Both agree when the double product is exact."""
    if isinstance(t, int):
        return True
    if t != t or t in (float("inf"), float("-inf")):
        return False
    frac, _ = math.modf(t)
    return Fraction(frac) * 10 ** 6 == Fraction(frac * 1e6)


def all_float_safe(v):
    if isinstance(v, float):
        return float_safe(v)
    if isinstance(v, (list, tuple)):
        return all(all_float_safe(x) for x in v)
    return True


# ------------------------------------------------------------------ the real code, canonicalised

def _exc(e, time_acc=False):
    from fs.errors import MissingInfoNamespace

    if isinstance(e, MissingInfoNamespace):
        return "err MissingInfoNamespace"
    if time_acc and isinstance(e, (ValueError, OverflowError, OSError)):
        return "err RangeError"
    for cls in (ValueError, TypeError, AttributeError):
        if type(e) is cls:
            return "err " + cls.__name__
    return "err Leak:" + type(e).__name__


def impl_acc(info, accname, a1, a2):
    from fs.permissions import Permissions

    try:
        if accname in ("name", "is_dir", "size", "user", "group", "uid", "gid", "target"):
            return "ok " + enc_val(getattr(info, accname))
        if accname in ("is_file", "is_link"):
            return "ok " + ("1" if getattr(info, accname) else "0")
        if accname in ("suffix", "stem"):
            return "ok " + hx(getattr(info, accname))
        if accname == "suffixes":
            return "ok " + hxlist(info.suffixes)
        if accname == "type":
            return "ok %d" % int(info.type)
        if accname in TIME_KEYS:
            d = getattr(info, accname)
            return "ok " + ("n" if d is None else "T " + dt_fields(d))
        if accname == "permissions":
            p = info.permissions
            if p is not None and not isinstance(p, Permissions):
                return "err Leak:not-a-Permissions"
            return "ok " + ("n" if p is None else "P " + perm_out(p))
        if accname == "copy":
            c = info.copy()
            if c.raw is info.raw or any(c.raw[k] is info.raw[k] for k in info.raw):
                return "err Leak:copy-shares-state"
            return "ok " + enc_raw(c.raw)
        if accname == "namespaces":
            return "ok " + hxlist(sorted(info.namespaces))
        if accname == "has_namespace":
            return "ok " + ("1" if info.has_namespace(a1) else "0")
        if accname == "get":
            return "ok " + enc_val(info.get(a1, a2))
        if accname == "getd":
            return "ok " + enc_val(info.get(a1, a2, "D"))
        if accname == "is_writeable":
            return "ok " + ("1" if info.is_writeable(a1, a2) else "0")
        raise AssertionError(accname)
    except AssertionError:
        raise
    except Exception as e:  # noqa
        return _exc(e, accname in TIME_KEYS)


ACCESSORS = ["name", "is_dir", "is_file", "suffix", "suffixes", "stem", "type", "size", "accessed", "modified", "created",
             "metadata_changed", "permissions", "user", "group", "uid", "gid", "target", "is_link", "copy", "namespaces"]


# ------------------------------------------------------------------ the oracle (no model)

def oracle_perm(p, names=None, mode=None):
    """Permissions built from names / mode: dump, mode, as_str are the conversions of the input"""
    if names is not None:
        want_dump = sorted(set(names))
        want_mode = 0
        for n in set(names):
            want_mode |= BITS.get(n, 0)
    else:
        want_mode = mode & 0o7777
        want_dump = sorted(n for n in PERM_NAMES if mode & BITS[n])
    if p.dump() != want_dump:
        return "permissions_names_dump", "dump %r expected %r" % (p.dump(), want_dump)
    if p.mode != want_mode:
        return "permissions_mode_roundtrip", "mode %o expected %o" % (p.mode, want_mode)
    if p.as_str() != stat.filemode(stat.S_IFREG | want_mode)[1:]:
        return "permissions_as_str", "as_str %r expected %r" % (p.as_str(), stat.filemode(stat.S_IFREG | want_mode)[1:])
    for n in PERM_NAMES:
        if getattr(p, n) != (n in want_dump) or p.check(n) != (n in want_dump) or (n in p) != (n in want_dump):
            return "permissions_flag", n
    return None


def oracle_epoch(t):
    """epoch_to_datetime(t) = EPOCH + t seconds (timedelta rounds half-even to microseconds itself);
    datetime_to_epoch inverts it on whole seconds"""
    import datetime as _dt
    from fs.time import epoch_to_datetime, datetime_to_epoch

    epoch0 = _dt.datetime(1970, 1, 1, tzinfo=_dt.timezone.utc)
    try:
        got = epoch_to_datetime(t)
    except (ValueError, OverflowError, OSError):
        us = Fraction(t) * 10 ** 6
        if MIN_EPOCH * 10 ** 6 <= us <= MAX_EPOCH * 10 ** 6 + 999999:
            return "epoch_datetime_roundtrip", "epoch_to_datetime(%r) raises inside years 1-9999" % (t,)
        return None
    try:
        want = epoch0 + _dt.timedelta(seconds=t)
    except OverflowError:
        return "epoch_datetime_roundtrip", "epoch_to_datetime(%r) = %r outside the datetime range" % (t, got)
    if got != want or got.utcoffset() != _dt.timedelta(0):
        return "epoch_datetime_roundtrip", "epoch_to_datetime(%r) = %r expected %r" % (t, got, want)
    back = datetime_to_epoch(got)
    if back != (got - epoch0) // _dt.timedelta(seconds=1) or (isinstance(t, int) and back != t):
        return "epoch_datetime_roundtrip", "datetime_to_epoch(epoch_to_datetime(%r)) = %r" % (t, back)
    return None


def oracle_info(raw):
    """every accessor of Info(raw) against an independent conversion of the raw value; returns
    (law, detail) or None.  Values of the wrong type are not judged (only the correspondence)."""
    import datetime as _dt
    from fs.info import Info
    from fs.errors import MissingInfoNamespace

    info = Info(raw)
    epoch0 = _dt.datetime(1970, 1, 1, tzinfo=_dt.timezone.utc)

    def need(ns, fn):
        """accessor must raise MissingInfoNamespace iff the namespace is missing"""
        try:
            v = fn()
        except MissingInfoNamespace:
            return (ns in raw), None
        except Exception as e:  # noqa
            return None, e
        return (ns not in raw), v

    b = raw.get("basic", {})
    if info.name != b.get("name") or info.is_dir != b.get("is_dir") or info.is_file != (not b.get("is_dir")):
        return "info_basic_conversion", repr(b)
    if set(info.namespaces) != set(raw) or any(info.has_namespace(n) != (n in raw) for n in list(raw) + ["basic", "details", "access", "link", "zz"]):
        return "info_namespaces", repr(sorted(raw))
    d = raw.get("details", {})
    for key in TIME_KEYS:
        bad, got = need("details", lambda: getattr(info, key))
        if bad is None:
            v = d.get(key)
            if isinstance(v, (int, float)) and MIN_EPOCH <= v <= MAX_EPOCH:
                return "info_time_conversion", "%s raw=%r raises %r" % (key, v, got)
            continue
        if bad:
            return "missing_namespace", "details/%s" % key
        if "details" in raw:
            v = d.get(key)
            if v is None:
                want = None
            elif isinstance(v, (int, float)):
                want = epoch0 + _dt.timedelta(seconds=v)
            else:
                continue
            if got != want or (got is None) != (v is None):
                return "info_time_conversion", "%s raw=%r accessor=%r expected=%r" % (key, v, got, want)
    bad, got = need("details", lambda: info.type)
    if bad:
        return "missing_namespace", "details/type"
    if bad is False and "details" in raw and int(got) != d.get("type", 0):
        return "info_type_conversion", "raw=%r accessor=%r" % (d.get("type", 0), got)
    if bad is None and isinstance(d.get("type", 0), int) and 0 <= d.get("type", 0) <= 7:
        return "info_type_conversion", "raw=%r raises %r" % (d.get("type"), got)
    bad, got = need("details", lambda: info.size)
    if bad:
        return "missing_namespace", "details/size"
    if bad is False and "details" in raw and got != d.get("size"):
        return "info_size_conversion", repr(d)
    a = raw.get("access", {})
    for k in ("user", "group", "uid", "gid"):
        bad, got = need("access", lambda: getattr(info, k))
        if bad:
            return "missing_namespace", "access/" + k
        if bad is False and "access" in raw and got != a.get(k):
            return "info_access_conversion", k
    bad, got = need("access", lambda: info.permissions)
    if bad:
        return "missing_namespace", "access/permissions"
    if bad is False and "access" in raw:
        names = a.get("permissions")
        if names is None:
            if got is not None:
                return "info_permissions_conversion", "None -> %r" % (got,)
        elif isinstance(names, list) and all(isinstance(n, str) for n in names):
            if got is None:
                return "info_permissions_conversion", "%r -> None" % (names,)
            r = oracle_perm(got, names=names)
            if r:
                return "info_permissions_conversion", "%r: %s %s" % (names, r[0], r[1])
    ln = raw.get("link", {})
    bad, got = need("link", lambda: info.target)
    if bad:
        return "missing_namespace", "link/target"
    if bad is False and "link" in raw and got != ln.get("target"):
        return "info_link_conversion", repr(ln)
    bad, got = need("link", lambda: info.is_link)
    if bad:
        return "missing_namespace", "link/is_link"
    if bad is False and "link" in raw and got != (ln.get("target") is not None):
        return "info_link_conversion", repr(ln)
    return None


# ------------------------------------------------------------------ generators

def epoch_grid(rng, quick):
    import calendar

    ts = [0, 1, -1, 59, 60, 3599, 3600, 86399, 86400, 86401, -86400, -86401, 2 ** 31 - 1, 2 ** 31, -2 ** 31, 2 ** 32,
          MIN_EPOCH, MIN_EPOCH + 1, MIN_EPOCH - 1, MAX_EPOCH, MAX_EPOCH - 1, MAX_EPOCH + 1, 10 ** 12, -10 ** 12, 10 ** 20, -10 ** 20]
    for y in range(1970, 2101):
        j1 = calendar.timegm((y, 1, 1, 0, 0, 0))
        ts += [j1, j1 - 1]
        f28 = calendar.timegm((y, 2, 28, 23, 59, 59))
        ts += [f28, f28 + 1, f28 + 86400, f28 + 86401]      # Feb 28/29, Mar 1 around every year (leap or not)
    for y in (1, 4, 100, 400, 1582, 1600, 1700, 1900, 1969, 2000, 2400, 9999):
        for (m, d) in ((1, 1), (2, 28), (3, 1), (12, 31)):
            ts.append(calendar.timegm((y, m, d, 0, 0, 0)) if y >= 1 else 0)
    for _ in range(3000 if quick else 20000):
        ts.append(rng.randrange(MIN_EPOCH, MAX_EPOCH + 1))
    for _ in range(200 if quick else 5000):
        ts.append(rng.randrange(-10 ** 10, 10 ** 10))
    # fractional values: dyadic fractions (exact doubles, exact product with 1e6), ties of the
    # half-even rule (k + 0.5 microseconds are not dyadic: only .5/.25/… of a second), negatives
    fr = [0.0, -0.0, 0.5, -0.5, 1.5, -1.5, 0.25, 0.75, -0.25, 1e9, 1582934400.25, 951782400.5, -86400.5, 86399.999, 0.000001,
          2.0 ** -20, -(2.0 ** -20), 3 * 2.0 ** -21, 5 * 2.0 ** -21, -3 * 2.0 ** -21, 1 + 2.0 ** -20, float(MAX_EPOCH), float(MIN_EPOCH),
          MAX_EPOCH + 0.5, MIN_EPOCH - 0.5, 1e18, -1e18, 4102444800.0]
    for _ in range(2000 if quick else 20000):
        j = rng.randrange(1, 24)
        fr.append(rng.randrange(-2 ** 33, 2 ** 33) + rng.randrange(2 ** j) / 2.0 ** j)
    return ts + [t for t in fr if float_safe(t)]


def name_grid(rng, quick):
    out = []
    for alpha, n in ((".ab", 6 if quick else 9), (".a\xe9 ", 4 if quick else 6)):
        for ln in range(n + 1):
            out += ["".join(t) for t in itertools.product(alpha, repeat=ln)]
    out += ["foo.tar.gz", "foo.py", "bar", ".bashrc", ".hidden.txt", "..", "...", "a.", "a..", ".a.", "a..b", "日本.語", "x" * 50 + "." + "y" * 50]
    return out


def raw_grid(rng, n_random):
    """raw infos with missing namespaces / keys, null values and edge values"""
    times = [None, 0, 0.0, 1, -1, 1.5, 86399, 86400, 951782400, 1e9, 1582934400.25, 2 ** 31, 4102444800, MAX_EPOCH, MAX_EPOCH + 1,
             MIN_EPOCH, MIN_EPOCH - 1, True, False, "0", [0], -0.5]
    names = ["n", "", "foo.tar.gz", ".bashrc", ".a.b", "a.", None, 5, "\xe9.x"]
    cases = [{}, {"basic": {}}, {"details": {}}, {"access": {}}, {"link": {}}, {"basic": {"name": "x"}}, {"basic": {"is_dir": True}}]
    for t in times:
        for key in TIME_KEYS:
            cases.append({"basic": {"name": "n", "is_dir": False}, "details": {key: t, "type": 2, "size": 0}})
    for ty in list(range(-1, 9)) + [None, True, 2.0, 2.5, "2", [1]]:
        for size in (0, 1, 2 ** 40, None):
            cases.append({"basic": {"name": "x", "is_dir": ty == 1}, "details": {"type": ty, "size": size}})
    cases.append({"basic": {"name": "x", "is_dir": False}, "details": {"size": 3}})            # type missing -> unknown
    for nm in names:
        for isd in (True, False, None, 0, 1, "", "x", []):
            cases.append({"basic": {"name": nm, "is_dir": isd}})
    for perms in (None, [], ["u_r"], ["u_r", "u_r"], ["zz", "u_x"], "ab", 5, ["setuid", "u_x"], ["sticky"]):
        cases.append({"basic": {"name": "p", "is_dir": False}, "access": {"permissions": perms, "uid": 0, "gid": None, "user": "", "group": "g"}})
        cases.append({"basic": {"name": "p", "is_dir": False}, "access": {"permissions": perms}})
    for tgt in (None, "", "t", 0):
        cases.append({"basic": {"name": "l", "is_dir": False}, "link": {"target": tgt}})
    cases.append({"basic": {"name": "l", "is_dir": False}, "link": {}})
    for w in (["modified"], [], "modified", None, 5, ["accessed", "modified"]):
        cases.append({"basic": {"name": "w", "is_dir": False}, "details": {"_write": w, "modified": 1}})
    pool_t = [t for t in times if all_float_safe(t)]
    for _ in range(n_random):
        raw = {}
        if rng.random() < 0.9:
            raw["basic"] = {}
            if rng.random() < 0.9:
                raw["basic"]["name"] = rng.choice(names)
            if rng.random() < 0.9:
                raw["basic"]["is_dir"] = rng.choice([True, False, None])
        if rng.random() < 0.7:
            raw["details"] = {}
            for k in TIME_KEYS:
                if rng.random() < 0.6:
                    raw["details"][k] = rng.choice(pool_t + [rng.randrange(-10 ** 10, 10 ** 10), rng.randrange(2 ** 34) + rng.randrange(1024) / 1024.0])
            if rng.random() < 0.7:
                raw["details"]["type"] = rng.choice([0, 1, 2, 3, 4, 5, 6, 7, 8, None])
            if rng.random() < 0.7:
                raw["details"]["size"] = rng.choice([0, 1, 2 ** 40, None])
            if rng.random() < 0.3:
                raw["details"]["_write"] = rng.choice([["modified"], ["accessed", "modified"], []])
        if rng.random() < 0.6:
            raw["access"] = {}
            if rng.random() < 0.8:
                raw["access"]["permissions"] = rng.choice([None, [n for n in PERM_NAMES + EXTRA_NAMES[:4] if rng.random() < 0.4]])
            for k, vals in (("uid", [0, 1000, None]), ("gid", [0, 70000, None]), ("user", ["u", "", None]), ("group", ["g", None])):
                if rng.random() < 0.6:
                    raw["access"][k] = rng.choice(vals)
        if rng.random() < 0.3:
            raw["link"] = {"target": rng.choice([None, "t", ""])} if rng.random() < 0.8 else {}
        if rng.random() < 0.2:
            raw[rng.choice(["stat", "zip", "ftp", ""])] = {"k": rng.choice([1, "v", None, [1, [2, "x"]]])}
        cases.append(raw)
    return [c for c in cases if all(all_float_safe(v) for d in c.values() for v in d.values())]


# ------------------------------------------------------------------ the check

class _Batch:
    def __init__(self, rep, drv):
        self.rep, self.drv = rep, drv
        self.reqs, self.want, self.meta = [], [], []

    def add(self, req, want, kind, case):
        self.reqs.append(req)
        self.want.append(want)
        self.meta.append((kind, case))

    def run(self):
        got = self.drv.batch(self.reqs)
        nbad = {}
        for g, w, (kind, case), req in zip(got, self.want, self.meta, self.reqs):
            self.rep.evaluations += 1
            if g != w:
                self.rep.disagreements_checked += 1
                nbad[kind] = nbad.get(kind, 0) + 1
                if nbad[kind] <= 2:
                    self.rep.violation({"kind": kind, "case": case, "request": req, "model": g, "impl": w},
                                       "InfoModel correspondence (%s): model %r, implementation %r on %r" % (kind, g[:200], w[:200], case),
                                       found_input=False, signature="C10/infomodel/%s" % kind)
        n = len(self.reqs)
        self.reqs, self.want, self.meta = [], [], []
        return n


def _oracle_fail(rep, law, detail, case, seen):
    if law in seen:
        return
    seen.add(law)
    rep.violation({"law": law, "detail": detail, "case": case}, "%s fails on the real code — %s (input %r)" % (law, detail[:300], case),
                  found_input=True, signature="C10/info/%s" % law)


def check_info_model(rep, drv, rng, tier):
    from fs.permissions import Permissions
    from fs.time import epoch_to_datetime, datetime_to_epoch
    from fs.info import Info
    import datetime as _dt

    quick = tier == "quick"
    B = _Batch(rep, drv)
    seen = set()
    sizes = {}

    # --- Permissions(mode=m): all 4096 modes, plus modes outside 12 bits and negative ones
    modes = list(range(4096)) + [4096, 4097, 0o10777, 0o17777, 0o100644, 0o40755, 2 ** 20 + 7, -1, -2, -4096, -4091, -(2 ** 20) + 0o644]
    for m in modes:
        p = Permissions(mode=m)
        r = oracle_perm(p, mode=m)
        if r:
            _oracle_fail(rep, r[0], r[1], {"mode": m}, seen)
        B.add("info.perm mode %d" % m, "ok " + perm_out(p), "perm.mode", {"mode": m})
        rep.nontrivial("perm.mode", m)
    for init, req in ((None, "none"), (0o700, "mode 448"), (["u_r", "u_w", "zz"], "names " + hxlist(["u_r", "u_w", "zz"])), ("rwx", "other"), (-1, "mode -1")):
        try:
            q = Permissions.create(init)
            want = "ok %d %s" % (q.mode, hxlist(q.dump()))
            if Permissions.get_mode(init) != q.mode:
                _oracle_fail(rep, "permissions_get_mode", repr(init), {"init": init}, seen)
        except ValueError:
            want = "err ValueError"
        B.add("info.create " + req, want, "perm.create", {"init": init})
    sizes["modes"] = B.run()

    # --- Permissions(names=…): all 2^12 subsets; lists with duplicates / unknown names
    subsets = []
    for k in range(4096):
        subsets.append([n for i, n in enumerate(PERM_NAMES) if k >> i & 1])
    extra = []
    for _ in range(500 if quick else 20000):
        l = [rng.choice(PERM_NAMES + EXTRA_NAMES) for _ in range(rng.randrange(0, 10))]
        extra.append(l)
    for names in subsets + extra:
        p = Permissions(names=list(names))
        r = oracle_perm(p, names=names)
        if r:
            _oracle_fail(rep, r[0], r[1], {"names": names}, seen)
        B.add("info.perm names " + hxlist(names), "ok " + perm_out(p), "perm.names", {"names": names})
        rep.nontrivial("perm.names", tuple(names))
    # add / remove / check / copy / == on random pairs
    for _ in range(1500 if quick else 10000):
        a = [rng.choice(PERM_NAMES + EXTRA_NAMES[:3]) for _ in range(rng.randrange(0, 8))]
        b = [rng.choice(PERM_NAMES + EXTRA_NAMES[:3]) for _ in range(rng.randrange(0, 4))]
        for op in ("add", "remove", "check", "copy", "eq", "eqnames"):
            p = Permissions(names=list(a))
            if op == "add":
                p.add(*b); want = "ok " + perm_out(p)
                ok = set(p.dump()) == set(a) | set(b)
            elif op == "remove":
                p.remove(*b); want = "ok " + perm_out(p)
                ok = set(p.dump()) == set(a) - set(b)
            elif op == "check":
                v = p.check(*b); want = "ok " + ("1" if v else "0")
                ok = v == (set(b) <= set(a))
            elif op == "copy":
                c = p.copy(); want = "ok " + perm_out(c)
                ok = c == p and c is not p and c._perms is not p._perms
            elif op == "eq":
                v = p == Permissions(names=list(b)); want = "ok " + ("1" if v else "0")
                ok = v == (set(a) == set(b)) and (p != Permissions(names=list(b))) == (not v)
            else:
                v = p == list(b); want = "ok " + ("1" if v else "0")
                ok = v == (sorted(set(a)) == list(b))
            if not ok:
                _oracle_fail(rep, "permissions_" + op, "%r %s %r" % (a, op, b), {"a": a, "b": b, "op": op}, seen)
            B.add("info.permop %s %s %s" % (hxlist(a), op, hxlist(b)), want, "perm.op", {"a": a, "op": op, "b": b})
    sizes["names"] = B.run()

    # --- Permissions.parse / Permissions(user,group,other): strings over {r,w,x,-,s,S,t,T}
    A = "rwx-sStT"
    strs = set()
    for ln in range(0, 5):
        strs.update("".join(t) for t in itertools.product(A, repeat=ln))
    trip = ["".join(t) for t in itertools.product(A, repeat=3)]
    for t in trip:                                   # every triplet in every position
        strs.update([t + "rwxr-x", "r-x" + t + "---", "rw-r--" + t, t + t + t])
    for t in itertools.product("r-", "w-", "xsS-", "r-", "w-", "xsS-", "r-", "w-", "xtT-"):    # the 4096 strings RE_LINUX lets through
        strs.add("".join(t))
    for _ in range(20000 if quick else 300000):      # 8^9 = 134 M: sampled (parse acts per position)
        strs.add("".join(rng.choice(A) for _ in range(9)))
    for _ in range(300 if quick else 5000):
        strs.add("".join(rng.choice(A + "ab.+ \xe9") for _ in range(rng.randrange(0, 13))))
    special = 0
    for s in sorted(strs):
        p = Permissions.parse(s)
        B.add("info.perm str " + hx(s), "ok " + perm_out(p), "perm.str", {"str": s})
        rep.nontrivial("perm.str", s)
        if len(s) == 9 and p.as_str() != s:
            special += 1
    for _ in range(300 if quick else 5000):
        u, g, o = ("".join(rng.choice(A) for _ in range(rng.randrange(0, 4))) for _ in range(3))
        fl = [rng.random() < 0.3 for _ in range(3)]
        p = Permissions(user=u, group=g, other=o, sticky=fl[0], setuid=fl[1], setguid=fl[2])
        B.add("info.perm ugo %s %s %s %s" % (hx(u), hx(g), hx(o), "".join("1" if f else "0" for f in fl)), "ok " + perm_out(p), "perm.ugo", {"ugo": [u, g, o], "flags": fl})
    sizes["strings"] = B.run()
    # parse(as_str(p)) = p exactly for the sets without setuid/setguid/sticky (InfoLaws.permissions_str_parse_mode)
    rt_bad = [m for m in range(4096) if (Permissions.parse(Permissions(mode=m).as_str()) == Permissions(mode=m)) != (m < 512)]
    if rt_bad:
        rep.violation({"modes": rt_bad[:10]}, "InfoLaws.permissions_str_parse_mode no longer describes the code: parse(as_str(mode)) == mode differs from (mode < 0o1000) for %r" % rt_bad[:5],
                      found_input=False, signature="C10/infomodel/perm.parse-roundtrip")
    rep.extra["perm_strings_not_roundtripping_as_str"] = special

    # --- fs.time
    for t in epoch_grid(rng, quick):
        r = oracle_epoch(t)
        if r:
            _oracle_fail(rep, r[0], r[1], {"epoch": t}, seen)
        try:
            want = "ok " + dt_fields(epoch_to_datetime(t))
        except (ValueError, OverflowError, OSError):
            want = "err RangeError"
        n, d = (t, 1) if isinstance(t, int) else t.as_integer_ratio()
        B.add("info.time %d %d" % (n, d), want, "time.epoch_to_datetime", {"epoch": t})
        rep.nontrivial("time", n, d)
    for _ in range(2000 if quick else 20000):
        y = rng.choice([1, 2, 1600, 1900, 1969, 1970, 1999, 2000, 2024, 2038, 2100, 9998, 9999, rng.randrange(1, 10000)])
        mo = rng.randrange(1, 13)
        leap = y % 4 == 0 and (y % 100 != 0 or y % 400 == 0)
        dd = rng.randrange(1, [31, 29 if leap else 28, 31, 30, 31, 30, 31, 31, 30, 31, 30, 31][mo - 1] + 1)
        hh, mi, ss = rng.randrange(24), rng.randrange(60), rng.randrange(60)
        off = rng.choice([0, 0, 0, 3600, -3600, 19800, -34200, 86399, -86399])
        if (y == 1 and off > 0) or (y == 9999 and off < 0):
            off = 0                                   # utctimetuple() would leave the datetime range
        tz = _dt.timezone(_dt.timedelta(seconds=off))
        dtv = _dt.datetime(y, mo, dd, hh, mi, ss, rng.choice([0, 0, 1, 999999]), tzinfo=tz if off or rng.random() < 0.5 else None)
        got = datetime_to_epoch(dtv)
        want = (dtv.replace(tzinfo=None, microsecond=0) - _dt.datetime(1970, 1, 1)) // _dt.timedelta(seconds=1) - off
        if got != want:
            _oracle_fail(rep, "epoch_datetime_roundtrip", "datetime_to_epoch(%r) = %r expected %r" % (dtv, got, want), {"datetime": repr(dtv)}, seen)
        B.add("info.dt2epoch %d %d %d %d %d %d %d" % (y, mo, dd, hh, mi, ss, off), "ok %d" % got, "time.datetime_to_epoch", {"datetime": repr(dtv)})
    sizes["times"] = B.run()

    # --- suffix / suffixes / stem as pure functions of the name (laws of InfoLaws evaluated too)
    law_bad = None
    for nm in name_grid(rng, quick):
        i = Info({"basic": {"name": nm, "is_dir": False}})
        sfx, sfxs, stem = i.suffix, i.suffixes, i.stem
        B.add("info.name " + hx(nm), "ok %s %s %s" % (hx(sfx), hxlist(sfxs), hx(stem)), "name", {"name": nm})
        rep.nontrivial("name", nm)
        good = not (nm.startswith(".") and nm.count(".") >= 2)
        if law_bad is None and (sfx != (sfxs[-1] if sfxs else "") or ((stem + "".join(sfxs) == nm) != good)):
            law_bad = nm
    if law_bad is not None:
        rep.violation({"name": law_bad}, "InfoLaws.suffix_stem_laws no longer describe the code at name %r" % law_bad, found_input=False,
                      signature="C10/infomodel/name-laws")
    sizes["names_suffix"] = B.run()

    # --- Info accessors over raw infos with missing namespaces / keys / null values
    raws = raw_grid(rng, 900 if quick else 6000)
    for raw in raws:
        try:
            r = oracle_info(raw)
        except Exception as e:  # noqa
            r = ("info_accessor_raises", repr(e))
        if r:
            _oracle_fail(rep, r[0], r[1], {"raw": raw}, seen)
        try:
            enc = enc_raw(raw)
        except TypeError:
            continue
        info = Info(raw)
        rep.nontrivial("raw", enc)
        for a in ACCESSORS:
            B.add("info.acc %s - - %s" % (a, enc), impl_acc(info, a, None, None), "acc." + a, {"raw": raw, "accessor": a})
        for ns in ("basic", "details", "access", "link", "zz"):
            B.add("info.acc has_namespace %s - %s" % (hx(ns), enc), impl_acc(info, "has_namespace", ns, None), "acc.has_namespace", {"raw": raw, "ns": ns})
        for ns, key in (("basic", "name"), ("details", "modified"), ("details", "type"), ("access", "permissions"), ("zz", "k"), ("details", "zz")):
            for g in ("get", "getd", "is_writeable"):
                B.add("info.acc %s %s %s %s" % (g, hx(ns), hx(key), enc), impl_acc(info, g, ns, key), "acc." + g, {"raw": raw, "ns": ns, "key": key})
    sizes["accessor_calls"] = B.run()
    sizes["raw_infos"] = len(raws)

    # --- observation for C20 (not a C10 verdict): what decode_linux makes of s/S/t/T
    rep.extra["c20_list_special_bits"] = list_special_bits_observation()

    # --- raw infos built by the modelled getinfo()s: MemoryFS.to_info, ReadZipFS / ReadTarFS
    _backend_raws(rep, B, seen)
    sizes["backend_raws"] = B.run()
    rep.extra["info_model"] = sizes
    rep.sample({"info_model": "Permissions(mode=0o4755)", "as_str": Permissions(mode=0o4755).as_str(), "parse('rwsr-xr-t').dump": Permissions.parse("rwsr-xr-t").dump()})


def list_perm_names(perms):
    """the permissions a LIST permission field states (ls(1) notation), independent of fs.permissions"""
    out = set()
    for who, trip, special, lo in (("u", perms[0:3], "setuid", "s"), ("g", perms[3:6], "setguid", "s"), ("o", perms[6:9], "sticky", "t")):
        if trip[0] == "r":
            out.add(who + "_r")
        if trip[1] == "w":
            out.add(who + "_w")
        if trip[2] in ("x", lo):
            out.add(who + "_x")
        if trip[2] in (lo, lo.upper()):
            out.add(special)
    return sorted(out)


def list_special_bits_observation():
    """C20 says a well-formed LIST line returns exactly the permissions it states.  Every permission
    field RE_LINUX accepts is parsed through fs._ftp_parse and compared with `list_perm_names`.
    Recorded in the evidence (signature C20/line/unfaithful/permissions-special-bits, see
    findings/C20-list-special-permission-bits.md); it is not a C10 verdict."""
    from fs._ftp_parse import parse_line

    dev, first = 0, None
    total = 0
    for t in itertools.product("r-", "w-", "xsS-", "r-", "w-", "xsS-", "r-", "w-", "xtT-"):
        perms = "".join(t)
        line = "-%s 1 root root 10 Jan 01 2020 f" % perms
        info = parse_line(line)
        total += 1
        got = None if info is None else info["access"]["permissions"]
        if got != list_perm_names(perms):
            dev += 1
            if first is None:
                first = {"line": line, "parsed": got, "stated": list_perm_names(perms)}
    return {"signature": "C20/line/unfaithful/permissions-special-bits", "strings": total, "deviating": dev, "first": first}


def _backend_raws(rep, B, seen):
    import io
    import json
    from fs.memoryfs import MemoryFS
    from fs.zipfs import ZipFS
    from fs.tarfs import TarFS
    import zipfile

    def basic_ok(raw, p):
        b = raw.get("basic")
        if not isinstance(b, dict) or not isinstance(b.get("name"), str) or not isinstance(b.get("is_dir"), bool):
            _oracle_fail(rep, "raw_has_basic", "%r: %r" % (p, raw), {"path": p}, seen)
        for ns in ("basic", "details", "access", "link"):
            if ns in raw:
                try:
                    json.dumps(raw[ns])
                except Exception as e:  # noqa
                    _oracle_fail(rep, "raw_json_serialisable", "%r ns=%s: %r" % (p, ns, e), {"path": p}, seen)

    m = MemoryFS()
    m.makedirs("d/e")
    m.writebytes("d/f.txt", b"12345")
    m.setinfo("d/f.txt", {"details": {"modified": 0, "accessed": 86400}})
    for p, isd, sz in (("/", True, 0), ("d", True, 0), ("d/e", True, 0), ("d/f.txt", False, 5)):
        for ns in ((), ("details",), ("details", "access")):
            raw = m.getinfo(p, namespaces=list(ns)).raw
            basic_ok(raw, p)
            d = raw.get("details", {})
            ts = [d.get(k) for k in ("accessed", "modified", "created")]
            if not all_float_safe(ts):
                ts = [None if isinstance(t, float) and not float_safe(t) else t for t in ts]
                raw = {k: dict(v) for k, v in raw.items()}
                for k, t in zip(("accessed", "modified", "created"), ts):
                    raw["details"][k] = t
            B.add("info.raw mem %s %d %d %d %s" % (hx(raw["basic"]["name"]), isd, sz, "details" in ns, " ".join(enc_val(t) for t in ts)),
                  "ok " + enc_raw(raw), "raw.mem", {"path": p, "namespaces": ns})
    # archives: explicit member, implied directory (zip: no member; tar: synthesised), root
    zb = io.BytesIO()
    with zipfile.ZipFile(zb, "w") as z:
        z.writestr(zipfile.ZipInfo("a/b/f.txt", date_time=(2020, 2, 29, 12, 0, 0)), b"xyz")
        z.writestr(zipfile.ZipInfo("d/", date_time=(1999, 12, 31, 23, 59, 58)), b"")
    zb.seek(0)
    zf = ZipFS(zb)
    tb = io.BytesIO()
    import tarfile
    with tarfile.open(fileobj=tb, mode="w") as t:
        ti = tarfile.TarInfo("a/b/f.txt"); ti.size = 3; ti.mtime = 0
        t.addfile(ti, io.BytesIO(b"xyz"))
        td = tarfile.TarInfo("d"); td.type = tarfile.DIRTYPE; td.mtime = 951782400
        t.addfile(td)
    tb.seek(0)
    tf = TarFS(tb)
    for kind, f in (("zip", zf), ("tar", tf)):
        for p in ("/", "a", "a/b", "a/b/f.txt", "d"):
            for ns in ((), ("details",)):
                raw = f.getinfo(p, namespaces=list(ns)).raw
                basic_ok(raw, p)
                d = raw.get("details")
                isroot = p == "/"
                if kind == "zip":
                    size = "~" if d is None or "size" not in d else str(d["size"])
                else:
                    size = "~" if isroot else str((d or {}).get("size", f.getinfo(p, ["details"]).raw["details"]["size"]))
                mod = enc_val(d["modified"]) if d and "modified" in d else ""
                B.add("info.raw arch %s %d %s %d %d %s" % (hx(raw["basic"]["name"]), raw["basic"]["is_dir"], size, "details" in ns, isroot, mod),
                      "ok " + enc_raw(raw), "raw." + kind, {"path": p, "namespaces": ns})
    zf.close()
    tf.close()
    m.close()
