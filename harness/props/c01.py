"""C01 — all writable filesystems implement one reference semantics.

Theorems: lean/FsProofs/C01.lean (Ref preserves well-formedness; histories compose);
lean/FsProofs/MemRefines.lean, lean/FsProofs/OsRefines.lean (MemoryFS / OSFS as coded refine Ref),
lean/FsProofs/FtpRefines.lean (FTPFS as coded, over any conforming FTP server, refines Ref).
Correspondence = the property's quantifier on the real code: every backend is compared,
step by step from identical pre-states, with Ref.step on verdict, value and resulting tree.
"""
from __future__ import annotations

import vlib
import fsharness as H
from props import _stateful as S
from props import _wrapexact as W
from props import _osexact as X
from props import _handles as HD
from props import _ftp as F
from props import _multiexact as MX
from props import _ftpexact as FX
from props import _mountexact as MNT
from props import _basewalk as BW

EXTRA_PROOF_MODULES = ("FsProofs.MemRefines", "FsProofs.WrapRefines", "FsProofs.OsRefines", "FsProofs.HandleLaws",
                       "FsProofs.MultiRefines", "FsProofs.FtpRefines", "FsProofs.MountRefines", "FsProofs.BaseWalkLaws")

QUERY_ON_INVALID_OK = {"exists", "isdir", "isfile"}


def judge(rep, s, m):
    (mout, mtree, mclosed, adm, wf) = m
    impl = s.impl
    rep.evaluations += 1
    rep.count("%s/%s:%s" % (s.kind, s.op[0], impl[0]))
    rep.nontrivial(s.kind, s.op, H.enc_tree(s.pre))
    loose = mout == ("err", "OperationFailed")
    why = None
    if loose:
        rep.count("loose")
        if impl[0] == "ok":
            why = "verdict: reference says the bulk operation must fail (file/directory conflict inside), backend returned"
    elif impl[0] != mout[0]:
        if (s.op[0] in QUERY_ON_INVALID_OK and mout[0] == "err" and mout[1] in ("InvalidCharsInPath", "IllegalBackReference")
                and impl[:2] == ("ok", "bool:0")):
            rep.count("query-on-invalid-path-returns-false")
        else:
            why = "verdict: backend %s, reference %s" % (impl[:2], mout)
    elif impl[0] == "ok" and H.canon_val(impl[1]) != mout[1]:
        why = "value: backend %s, reference %s" % (impl[1], mout[1])
    if why is None and not loose:
        if s.post is None:
            why = "tree: backend state cannot be snapshotted after the call (corrupt)"
        elif H.canon_tree(s.post) != H.canon_tree(H.dec_tree(mtree)):
            why = "tree: backend %r, reference %r" % ([e[:2] for e in H.canon_tree(s.post)][:12],
                                                      [e[:2] for e in H.canon_tree(H.dec_tree(mtree))][:12])
    if not wf:
        why = (why or "") + " reference tree not well-formed"
    if why:
        kindw = why.split(":")[0]
        kc = S.known_class(s)
        rep.violation(H.step_case(s, model=[list(mout), mtree]),
                      "%s.%s%r from tree %r — %s" % (s.kind, s.op[0], s.op[1:], [e[:2] for e in s.pre][:10], why),
                      found_input=True,
                      signature=("C01/known/" + kc) if kc else "C01/%s/%s/%s" % (s.kind, s.op[0], kindw))


def judge_mem_exact(rep, s, m, before):
    (mout, mtree, mclosed, adm, wf) = m
    rep.count("mem-exact")
    if mout == ("err", "OperationFailed"):
        return  # loose: the bulk operation fails mid-way, partial state not modelled
    impl = tuple(s.impl[:2])
    why = None
    if impl != tuple(mout):
        why = "outcome: MemoryFS %s, transcription %s" % (impl, mout)
    elif s.post is not None and (H.canon_tree(s.post) != H.canon_tree(H.dec_tree(mtree)) if s.op[0] in W.BULK_DIR
                                 else H.enc_tree(s.post) != mtree):
        # (entry ORDER after a bulk directory copy is not modelled: copy_dir creates the directories first
        # and the files afterwards, FsModel.Mem merges in source entry order — compared as sets there)
        why = "tree/order: MemoryFS %r, transcription %r" % ([e[:2] for e in s.post][:10], [e[:2] for e in H.dec_tree(mtree)][:10])
    if why:
        rep.disagreements_checked += 1
        # the Ref-level judge has already run on this step: if it did not fire, the property
        # still holds at this input and only the transcription is out of date
        rep.violation(H.step_case(s, model=[list(mout), mtree]),
                      "correspondence FsModel.Mem (transcription of fs/memoryfs.py) vs MemoryFS.%s%r from tree %r broke — %s; "
                      "the backend still agrees with the reference semantics on this input"
                      % (s.op[0], s.op[1:], [e[:2] for e in s.pre][:10], why),
                      found_input=False, signature="C01/mem-exact/%s" % s.op[0])


def run(rep, tier, seed, deep=False):
    drv = vlib.Driver()
    rng = vlib.rng_for(seed, "c01")
    quick = tier == "quick"
    n_hist, n_ops = (40, 25) if quick else (1500, 40)
    if deep:
        n_hist *= 3
    rep.rule = ("random mostly-valid histories (%d per backend x %d ops) on %s, plus every op over paths "
                "{'',a,b,a/a,a/b,b/a} x all flags from every tree with <=3 nodes on mem/os; each step compared with "
                "Ref.step (verdict, value, tree) from the identical pre-state; distinct = distinct (backend, op, pre-tree); "
                "sub-mem / wrap-mem steps re-executed with PARENT snapshots and compared exactly with wrapm.step "
                "(FsModel.Wrap over FsModel.Mem), plus a directed corpus (closed wrappers, root branches, climbing, "
                "exception classes); mount / mount-root steps re-executed with MEMBER snapshots (default_fs + every mounted "
                "filesystem) and compared exactly with mountfs.step (FsModel.MountFs over FsModel.Mem), plus histories on "
                "mount-nested / MountFS-in-MountFS and a directed corpus (spellings around mount points, fixtures, cross-member "
                "two-path operations, closed MountFS, NUL paths)"
                % (n_hist, n_ops, S.WRITABLE))
    rep.assumptions = [
        "directory sizes, timestamps and listing order are outside the observable tree",
        "mount points are fixtures of a MountFS (removing/moving them is steered around)",
        "exists/isdir/isfile may answer False instead of raising on an invalid path",
        "OSFS behaviour is the kernel's, modelled by FsModel/Posix.lean (no symlinks, no permissions, one device) and "
        "compared with the kernel on every run",
        "FTPFS (thorough tier only): against a loopback pyftpdlib 1.5.10 server, MLSD and LIST variants; names with CR/LF, "
        "';', '=' or leading/trailing blanks are exercised by directed cases only (open findings / LIST ambiguity); "
        "connection errors are infrastructure (retried on a fresh server, exit 2 when the server is unhealthy)",
    ]
    try:
        steps = S.collect(S.WRITABLE, n_hist, n_ops, rng)
        trees = S.small_trees()
        ops = S.exhaustive_small_ops()
        for kind in (["mem", "os", "sub-mem"] if quick else ["mem", "os", "sub-mem", "sub-os", "mount-root", "multi", "wrap-mem"]):
            steps += S.exhaustive_steps(kind, trees, ops, limit=None)
        steps += X.directed_steps()   # one step per branch of FsModel.Os the generators reach rarely
        rep.programs = len(set(s.hist_id for s in steps))
        for s, m in S.with_model(drv, steps):
            judge(rep, s, m)
        # MemoryFS is additionally tied to its line-by-line transcription FsModel.Mem, *exactly*:
        # same error class, same listing order (insertion order), same entry order in the tree.
        mem_steps = [s for s in steps if s.kind == "mem"]
        before = len(rep.violations)
        for s, m in zip(mem_steps, H.model_replies(drv, mem_steps, cmd="mem.step", sort_names=False)):
            judge_mem_exact(rep, s, m, before)
        # SubFS (at x/y of a MemoryFS) and WrapFS(MemoryFS) are tied, *exactly*, to the functor model
        # FsModel.Wrap over FsModel.Mem (`wrapm.step`): error class, listing order and the resulting tree of
        # the PARENT MemoryFS, everything outside the sub-directory included (FsProofs/WrapRefines.lean
        # proves that this model preserves refinement of Ref at every nesting depth); plus closed wrappers,
        # ClosingSubFS.close, and the decided exception classes, from a directed corpus
        n_wrap = W.judge_wrap_exact(rep, steps, drv, ref_judge=judge)
        rep.extra["wrap_exact_steps"] = n_wrap
        # MultiFS is tied, *exactly* and at LAYER level, to the functor model FsModel.MultiFs over FsModel.Mem
        # (`multifs.step`: error class, value, every layer's resulting tree and order): the `multi` steps above
        # re-executed with layer snapshots, random histories on 2-3 layer stacks (shadowed files/dirs, no write
        # layer, equal priorities) and a directed corpus; queries on type-consistent stacks and unshadowed
        # mutators are also judged against Ref.step on the OVERLAY tree (FsProofs/MultiRefines.lean)
        rep.extra["multi_exact_steps"] = MX.judge_multi_exact(
            rep, steps, drv, ref_judge=judge, seed_rng=vlib.rng_for(seed, "c01-multifs"),
            n_hist=12 if quick else 150, n_ops=20 if quick else 40)
        # MountFS is tied the same way to the functor model FsModel.MountFs over FsModel.Mem members (`mountfs.step`),
        # at the level of the MEMBERS: error class, value, the tree of default_fs and of every mounted filesystem,
        # closed flags (FsProofs/MountRefines.lean proves that this model refines Ref on the glued tree when the
        # members do, at every nesting); plus histories on a MountFS mounted inside a MountFS and a directed corpus
        import time as _time
        _t0 = _time.time()
        rep.extra["mount_exact_steps"] = MNT.judge_mount_exact(
            rep, steps, drv, ref_judge=judge, rng=vlib.rng_for(seed, "c01-mount"), n_hist=6 if quick else 60,
            n_ops=20 if quick else 40, max_steps=None if quick else 30000)
        rep.extra["mount_exact_seconds"] = round(_time.time() - _t0, 1)
        # OSFS / TempFS / SubFS(OSFS) are tied the same way to FsModel.Os (+ Posix, + the GENERATED errno
        # table) and FsModel.OsSub: exact error class, exact tree up to entry order; the POSIX model
        # itself is compared with the kernel, the extracted table with the live one
        X.run_os_exact(rep, steps, drv)
        # regression of the fixed finding removetree-unvalidated-path (/repo 433aea4): `FS.removetree` (inherited by
        # MultiFS / MountFS / FTPFS) validates its path like every other method (BaseWalkLaws.removetree_nul_repaired)
        BW.removetree_unvalidated_regression(rep)
        # file objects kept open ACROSS filesystem calls, several handles on one file, files removed / moved /
        # overwritten while open: whole histories against FsModel.Handles (FsProofs/HandleLaws.lean)
        HD.check_handles(rep, drv, vlib.rng_for(seed, "c01-handles"), tier)
        if not quick:
            # FTPFS against a loopback pyftpdlib server, MLSD and LIST variants (thorough tier only: ~100x slower
            # than the in-memory backends): histories, a sample of the exhaustive small scope, one directed case per
            # open FTPFS finding; every step also cross-checked against the server's directory seen through the OS
            fsteps = F.run_ref_level(rep, drv, vlib.rng_for(seed, "c01-ftp"), judge, "C01", 60 * (3 if deep else 1), 15, 1200)
            rep.programs += len(set(s.hist_id for s in fsteps))
            # FTPFS is tied, *exactly*, to FsModel.Ftp (fs/ftpfs.py as programs over FTP commands) run against the
            # modelled server FsModel.FtpServer (`ftp.step`: error class, value, resulting server tree), and the
            # server model itself is compared with the real pyftpdlib server on a raw-command corpus
            # (FsProofs/FtpRefines.lean proves that this model refines Ref over every conforming server)
            xsteps = FX.run_ftp_exact(rep, fsteps, drv, judge)
            rep.programs += len(set(s.hist_id for s in xsteps))
        rep.sample({"backend": steps[0].kind, "op": H.op_json(steps[0].op), "impl": list(steps[0].impl[:2])})
        for s in steps[1::max(1, len(steps) // 5)][:5]:
            rep.sample({"backend": s.kind, "pre": [e[:2] for e in s.pre][:6], "op": H.op_json(s.op), "impl": list(s.impl[:2])})
    finally:
        H.cleanup_scratch()


def replay(rep, case):
    if case["case"].get("wrapm_kind"):
        try:
            W.replay_case(rep, case["case"], vlib.Driver())
        finally:
            H.cleanup_scratch()
        return 1 if rep.violations else 0
    if case["case"].get("multifs_stack"):
        try:
            MX.replay_case(rep, case["case"], vlib.Driver(), ref_judge=judge)
        finally:
            H.cleanup_scratch()
        return 1 if rep.violations else 0
    if case["case"].get("mountfs_kind"):
        try:
            MNT.replay_case(rep, case["case"], vlib.Driver())
        finally:
            H.cleanup_scratch()
        return 1 if rep.violations else 0
    if X.is_mine(case):
        return X.replay(rep, case)
    if HD.is_mine(case):
        return HD.replay(rep, case)
    if FX.is_mine(case):
        return FX.replay(rep, case)
    kind, pre, op = H.case_to_step(case["case"])
    op = H.fix_op_bytes(op)
    if kind in H.FTP_KINDS:
        try:
            s = F.one_step(kind, pre, op, 0)
        finally:
            H.cleanup_scratch()
        m = H.model_replies(vlib.Driver(), [s])[0]
        print("impl:", s.impl[:2], "model:", m[0], "known-class:", F.known_class(s, m), "disk:", F.disk_mismatch(s))
        if F.known_class(s, m) is None:
            judge(rep, s, m)
        return 1 if (rep.violations or F.known_class(s, m) or F.disk_mismatch(s)) else 0
    b = H.build_state(kind, pre)
    try:
        pre2 = H.snapshot(b.fs)
        impl = H.apply_op(b.fs, op)
        post = H.snapshot(b.fs)
    finally:
        b.close()
        H.cleanup_scratch()
    s = H.Step(kind, pre2, op, impl, post, 0, 0)
    m = H.model_replies(vlib.Driver(), [s])[0]
    judge(rep, s, m)
    print("impl:", impl[:2], "model:", m[0])
    return 1 if rep.violations else 0
