"""Exact correspondence for the functor model of MultiFS (lean/FsModel/MultiFs.lean over FsModel.Mem).

A *stack* is a list of layers `(name, priority, write?, tree)` in `add_fs` order plus `auto_close`.
The real `MultiFS` over `MemoryFS` layers is compared with `multifs.step` (= `MultiFs.step` over
`Mem.step`) EXACTLY, from identical LAYER-level pre-states: error class, value (listing order
included), the resulting tree of EVERY layer in its own entry order, the closed flags.

What is run:
* every `multi` step of the c01 run, re-executed on a fresh single-write-layer stack (the
  configuration `fsharness.make_backend("multi")` builds) with the layer snapshotted around the call;
* random histories on 2-3 layer stacks (the `multi2` stack of fsharness with its shadowed files /
  directories and file-over-directory conflicts, a type-consistent stack, equal priorities, no write
  layer, write layer on top / at the bottom), paths drawn from the union of the layers' trees;
* a directed corpus (file over dir, dir over file, remove revealing, append / r+ on a file living in a
  read layer, makedirs across layers, no write layer, equal priorities, closed stacks, `scandir` Infos).

Oracles that need no MultiFS model (found_input=True):
* queries on a TYPE-CONSISTENT stack answer what `Ref.step` answers on the overlay tree
  (`FsProofs/MultiRefines.multi_queries_refine_overlay` on the real code);
* a mutating call whose paths are UNSHADOWED (their first component exists in no read layer; the same
  decidable condition as `MultiRefines.unshadowed`) behaves like `Ref.step` on the overlay — verdict,
  value, resulting overlay — and touches no read layer (`multi_mutators_refine_when_unshadowed`);
* a creating / writing call changes no layer but the write layer; without a write layer nothing changes;
* a closed MultiFS changes nothing and fails.
The abstraction function itself is compared too: `overlay` of the model = the tree a user sees by
walking the real MultiFS (exact, entry order included) on consistent stacks.

A model/code disagreement is `found_input=False` (broken correspondence).
"""
from __future__ import annotations

import vlib
import fsharness as H

WRITING = {"makedir", "makedirs", "writebytes", "appendbytes", "create", "touch", "settimes"}
QUERY = set(H.QUERIES)


# ----------------------------------------------------------------------------- stacks

def _t(*es):
    return list(es)


def multi2_layers():
    """the stack of fsharness.make_backend("multi2"), as layer trees"""
    def base(nm):
        return [("D", "a"), ("D", "a/b"), ("F", "a/b/c", b"deep"), ("F", "a/" + nm, nm.encode()), ("F", "c", nm.encode()),
                ("F", "only-" + nm, b"x")]
    lo = base("lo") + [("D", "k"), ("D", "k/inner"), ("F", "j", b"dir wins")]
    hi = base("hi") + [("F", "k", b"file wins"), ("D", "j"), ("D", "j/inner")]
    return [("lo", 1, False, lo), ("hi", 5, False, hi), ("w", 3, True, [])]


STACKS = {
    "multi": [("w", 0, True, [])],
    "multi2": multi2_layers(),
    # type-consistent: every path has one type in all layers that have it
    "cons3": [("lo", 1, False, _t(("D", "a"), ("F", "a/f", b"lo"), ("F", "a/g", b"lo-g"), ("D", "d"), ("F", "d/x", b"x"), ("F", "c", b"lo"))),
              ("hi", 5, False, _t(("D", "a"), ("F", "a/f", b"hi"), ("D", "a/b"), ("F", "c", b"hi"), ("D", "e"))),
              ("w", 3, True, _t(("D", "a"), ("F", "a/w", b"w"), ("F", "only-w", b"w")))],
    # the write layer on top of one read layer / below it / with the same priority (latest added first)
    "wtop": [("ro", 0, False, _t(("D", "a"), ("F", "a/f", b"ro"), ("F", "c", b"ro"), ("D", "d"))), ("w", 1, True, _t(("D", "a"), ("F", "a/f", b"w")))],
    "wbot": [("w", 0, True, _t(("D", "a"), ("F", "a/f", b"w"), ("F", "b", b"w"))), ("ro", 1, False, _t(("D", "a"), ("F", "a/f", b"ro"), ("F", "c", b"ro")))],
    "tie": [("x", 0, False, _t(("F", "c", b"x"), ("D", "a"), ("F", "a/x", b"x"))), ("w", 0, True, _t(("F", "c", b"w"))),
            ("y", 0, False, _t(("F", "c", b"y"), ("D", "a"), ("F", "a/y", b"y")))],
    "nowrite": [("lo", 1, False, _t(("D", "a"), ("F", "a/f", b"lo"), ("F", "c", b"lo"))), ("hi", 2, False, _t(("D", "a"), ("F", "a/f", b"hi")))],
    "empty": [],
}
HISTORY_STACKS = ["multi2", "cons3", "wtop", "wbot", "tie", "nowrite"]


class MStep:
    __slots__ = ("stack", "layers", "auto_close", "mclosed", "op", "impl", "layer_pre", "layer_post", "lclosed_post",
                 "mclosed_post", "ov_pre", "ov_post", "directed", "scan")

    def __init__(self, stack, layers, op, auto_close=True, mclosed=False, directed=False):
        self.stack, self.layers, self.op, self.auto_close, self.mclosed = stack, layers, op, auto_close, mclosed
        self.directed = directed
        self.layer_pre = [l[3] for l in layers]
        self.impl = self.layer_post = self.lclosed_post = self.mclosed_post = self.ov_pre = self.ov_post = self.scan = None


def build(layers, auto_close=True):
    """(MultiFS, [MemoryFS per add_fs call]) holding exactly the given layer trees"""
    from fs.memoryfs import MemoryFS
    from fs.multifs import MultiFS

    mu = MultiFS(auto_close=auto_close)
    objs = []
    for (name, prio, write, tree) in layers:
        m = MemoryFS()
        for e in tree:
            if e[0] == "D":
                m.makedirs(e[1], recreate=True)
            else:
                m.writebytes(e[1], e[2])
        mu.add_fs(name, m, write=write, priority=prio)
        objs.append(m)
    return mu, objs


def _snap_layers(objs):
    return [None if o.isclosed() else H.snapshot(o) for o in objs]


def _do_scan(mu, path):
    try:
        return ("ok", [(i.name, bool(i.is_dir), 0 if i.is_dir else int(i.size)) for i in mu.scandir(path, namespaces=["details"])])
    except BaseException as e:  # noqa
        return ("err", H.exc_name(e))


def execute(ms):
    mu, objs = build(ms.layers, ms.auto_close)
    try:
        ms.ov_pre = H.snapshot(mu)
        if ms.mclosed:
            mu.close()
        ms.layer_pre = [l[3] for l in ms.layers]
        if ms.op[0] == "scandir":
            ms.scan = _do_scan(mu, ms.op[1])
            ms.impl = ("ok", "unit")
        else:
            ms.impl = H.apply_op(mu, ms.op, keep_order=True)
        ms.mclosed_post = bool(mu.isclosed())
        ms.lclosed_post = [bool(o.isclosed()) for o in objs]
        ms.layer_post = _snap_layers(objs)
        ms.ov_post = None if ms.mclosed_post else H.snapshot(mu)
    finally:
        try:
            mu.close()
        except Exception:
            pass
        for o in objs:
            try:
                o.close()
            except Exception:
                pass
    return ms


def run_stack_history(stack, rng, n_ops):
    """one random history on a live stack; every step carries the layer trees before / after"""
    layers0 = STACKS[stack]
    mu, objs = build(layers0)
    out = []
    try:
        pre = _snap_layers(objs)
        ov_pre = H.snapshot(mu)
        for _ in range(n_ops):
            if any(p is None for p in pre):
                break
            union = sorted(set(e for p in pre for e in p), key=lambda e: e[1])
            op = H.gen_op(rng, union)
            ms = MStep(stack, [(l[0], l[1], l[2], p) for l, p in zip(layers0, pre)], op)
            ms.ov_pre = ov_pre
            ms.impl = H.apply_op(mu, op, keep_order=True)
            ms.mclosed_post = bool(mu.isclosed())
            ms.lclosed_post = [bool(o.isclosed()) for o in objs]
            ms.layer_post = _snap_layers(objs)
            ms.ov_post = None if ms.mclosed_post else H.snapshot(mu)
            out.append(ms)
            pre, ov_pre = ms.layer_post, ms.ov_post
    finally:
        try:
            mu.close()
        except Exception:
            pass
    return out


# ----------------------------------------------------------------------------- model side

def _spec(ms):
    closed_layers = ms.mclosed and ms.auto_close
    return "L" + ",".join("%s:%d:%d:%d" % (vlib.hx(n), prio, 1 if w else 0, 1 if closed_layers else 0)
                           for (n, prio, w, _t2) in ms.layers)


def request(ms):
    head = "%d %d %s %s" % (1 if ms.auto_close else 0, 1 if ms.mclosed else 0, _spec(ms),
                            " ".join(H.enc_tree(t) for t in ms.layer_pre))
    head = " ".join(head.split())
    if ms.op[0] == "scandir":
        return "multifs.scan %s %s" % (head, vlib.hx(ms.op[1]))
    a = [ms.op[0]]
    for x in ms.op[1:]:
        a.append(("1" if x else "0") if isinstance(x, bool) else vlib.hx(x))
    return "multifs.step %s %s" % (head, " ".join(a))


def parse(line):
    parts = [p.strip() for p in line.split(" | ")]
    out = parts[0]
    res = ("ok", out[3:]) if out.startswith("ok ") else ("err", out[4:])
    mclosed = parts[1] == "1"
    layers = []
    for p in parts[2:-1]:
        nm, cl, tree = p.split(":", 2)
        layers.append((vlib.unhx(nm), cl == "1", tree))
    return res, mclosed, layers, parts[-1][3:]


def _tj(t):
    return None if t is None else [[e[0], e[1]] + ([e[2].decode("latin-1")] if e[0] == "F" else []) for e in t]


def _case(ms, model=None):
    return {"multifs_stack": ms.stack, "auto_close": ms.auto_close, "multifs_closed": ms.mclosed,
            "layers": [[n, p, w, _tj(t)] for (n, p, w, t) in ms.layers], "op": H.op_json(ms.op),
            "impl": [ms.impl[0], ms.impl[1]], "layer_post": [_tj(t) for t in (ms.layer_post or [])], "model": model}


def compare(rep, ms, reply):
    rep.count("multi-exact/%s" % ms.stack)
    rep.count("multi-exact/%s:%s" % (ms.op[0], ms.impl[0]))
    why = None
    if ms.op[0] == "scandir":
        got = ms.scan
        if reply.startswith("ok L"):
            body = reply[4:]
            mod = ("ok", [(vlib.unhx(x.split(":")[0]), x.split(":")[1] == "1", int(x.split(":")[2])) for x in body.split(",")] if body else [])
        else:
            mod = ("err", reply[4:])
        if got != mod:
            why = "scandir Infos (name, is_dir, size of the winning layer): real %r, model %r" % (got, mod)
        model = list(mod)
    else:
        (mout, mclosed, mlayers, mov) = parse(reply)
        model = [list(mout), [l[2] for l in mlayers]]
        impl = tuple(ms.impl[:2])
        if impl != tuple(mout):
            why = "outcome: real %s, model %s" % (impl, mout)
        elif ms.mclosed_post != mclosed:
            why = "closed flag: real %r, model %r" % (ms.mclosed_post, mclosed)
        elif len(mlayers) != len(ms.layer_post):
            why = "number of layers: real %d, model %d" % (len(ms.layer_post), len(mlayers))
        else:
            for i, (post, lc, ml) in enumerate(zip(ms.layer_post, ms.lclosed_post, mlayers)):
                if lc != ml[1]:
                    why = "layer %s closed flag: real %r, model %r" % (ms.layers[i][0], lc, ml[1])
                    break
                if lc:
                    continue          # a closed MemoryFS has dropped its tree: only the flags are compared
                if post is None:
                    why = "layer %s cannot be snapshotted after the call" % ms.layers[i][0]
                    break
                if H.enc_tree(post) != ml[2]:
                    why = "layer %s tree/order: real %r, model %r" % (ms.layers[i][0], [e[:2] for e in post][:14],
                                                                      [e[:2] for e in H.dec_tree(ml[2])][:14])
                    break
        if why is None and not ms.mclosed_post and consistent(ms.layer_post) and ms.layers:
            # the abstraction function: what a user sees by walking the real MultiFS = `overlay` of the model
            if ms.ov_post is None or H.enc_tree(ms.ov_post) != mov:
                why = "overlay: the tree seen through the real MultiFS %r, `overlay` of the model %r" % (
                    None if ms.ov_post is None else [e[:2] for e in ms.ov_post][:14], [e[:2] for e in H.dec_tree(mov)][:14])
    if why:
        rep.disagreements_checked += 1
        rep.violation(_case(ms, model=model),
                      "correspondence FsModel.MultiFs (transcription of fs/multifs.py + inherited fs/base.py defaults, over "
                      "FsModel.Mem layers) vs the real MultiFS.%s%r on stack %s (layers %r, closed=%s) broke — %s"
                      % (ms.op[0], ms.op[1:], ms.stack, [(l[0], l[1], l[2], [e[:2] for e in l[3]][:8]) for l in ms.layers],
                         ms.mclosed, why),
                      found_input=False, signature="C01/multi-exact/%s" % ms.op[0])


# ----------------------------------------------------------------------------- model-free oracles

def consistent(trees):
    """every path has ONE type in all the layers that have it"""
    kind = {}
    for t in trees:
        if t is None:
            return False
        for e in t:
            if kind.setdefault(e[1], e[0]) != e[0]:
                return False
    return True


def doc_overlay(layers, trees):
    """the documented union (docs/source/reference/multifs.rst; `add_fs`: "searched in descending priority order and
    then by the reverse order they were added"), computed from the layer trees alone: every path shows what the
    first layer in that order that has it holds (sorted snapshot form)"""
    order = sorted(range(len(layers)), key=lambda i: (layers[i][1], i), reverse=True)
    seen = {}
    for i in order:
        for e in trees[i]:
            seen.setdefault(e[1], e)
    return sorted(seen.values())


def _comps(p):
    import fs.path as P

    if "\0" in p:
        return None
    try:
        return [c for c in P.normpath(p).split("/") if c]
    except Exception:
        return None


def unshadowed(ms):
    """the decidable side condition `MultiRefines.unshadowed`: there is a write layer and every path argument either
    does not validate or validates to a non-root path whose FIRST component is held by no other layer"""
    if sum(1 for l in ms.layers if l[2]) != 1:
        return False
    paths = [x for x in ms.op[1:] if isinstance(x, str)]
    if ms.op[0] == "openbin":
        paths = paths[:1]
    for p in paths:
        cs = _comps(p)
        if cs is None:
            continue            # refused by validation: both sides fail
        if not cs:
            return False        # the root: every layer has it
        for (l, t) in zip(ms.layers, ms.layer_pre):
            if not l[2] and any(e[1] == cs[0] for e in t):
                return False
    return True


def oracle(rep, ms, drv_ref, ref_judge):
    """returns a fsharness.Step to be judged against Ref.step on the overlay, or None"""
    name = ms.op[0]
    if name in ("close", "scandir") or not ms.layers:
        return None
    if ms.mclosed:
        if ms.impl[0] != "err" or any((p is not None and p != q) for p, q in zip(ms.layer_post, ms.layer_pre) if not ms.auto_close):
            rep.violation(_case(ms), "closed MultiFS: %s%r -> %r; a closed MultiFS must fail and change nothing" % (name, ms.op[1:], ms.impl[:2]),
                          found_input=True, signature="C01/multi-closed/%s" % name)
        return None
    # writes go to the write layer only; without one nothing changes
    if name in WRITING or name in ("copy", "copydir") or (name == "openbin" and any(c in ms.op[2] for c in "wax+")):
        for l, pre, post in zip(ms.layers, ms.layer_pre, ms.layer_post):
            if not l[2] and post != pre:
                rep.violation(_case(ms), "MultiFS.%s%r changed the read-only layer %r: %r -> %r" % (
                    name, ms.op[1:], l[0], [e[:2] for e in pre][:10], [e[:2] for e in (post or [])][:10]),
                    found_input=True, signature="C01/multi-write-layer/%s" % name)
    if ms.ov_pre is None or not consistent(ms.layer_pre):
        return None
    # the view itself: what a user sees by walking the MultiFS is the documented union of the layers
    if H.canon_tree(ms.ov_pre) != doc_overlay(ms.layers, ms.layer_pre):
        rep.violation(_case(ms), "MultiFS over layers %r shows %r; the documented union (priority descending, then latest "
                      "added first; directories merge) is %r" % ([(l[0], l[1]) for l in ms.layers], [e[:2] for e in ms.ov_pre][:14],
                                                                   [e[:2] for e in doc_overlay(ms.layers, ms.layer_pre)][:14]),
                      found_input=True, signature="C01/multi-overlay-rule")
        return None
    if name in QUERY or (name == "openbin" and not any(c in ms.op[2] for c in "wax+")):
        rep.count("multi-oracle/query-on-consistent-stack")
        return H.Step("multifs:" + ms.stack, ms.ov_pre, ms.op, ms.impl, ms.ov_post, 3 * 10 ** 6, 0)
    if unshadowed(ms):
        rep.count("multi-oracle/unshadowed-mutator")
        for l, pre, post in zip(ms.layers, ms.layer_pre, ms.layer_post):
            if not l[2] and post != pre:
                rep.violation(_case(ms), "unshadowed MultiFS.%s%r changed the read layer %r" % (name, ms.op[1:], l[0]),
                              found_input=True, signature="C01/multi-unshadowed-frame/%s" % name)
        return H.Step("multifs:" + ms.stack, ms.ov_pre, ms.op, ms.impl, ms.ov_post, 3 * 10 ** 6, 0)
    rep.count("multi-oracle/shadowed-mutator(not judged against Ref)")
    return None


# ----------------------------------------------------------------------------- directed corpus

_ONE_PATH_OPS = lambda p: [("exists", p), ("isdir", p), ("isfile", p), ("listdir", p), ("getsize", p), ("gettype", p),  # noqa
                           ("isempty", p), ("getinfo", p), ("readbytes", p), ("scandir", p), ("makedir", p, False),
                           ("makedir", p, True), ("makedirs", p, False), ("makedirs", p, True), ("writebytes", p, b"new"),
                           ("appendbytes", p, b"+"), ("create", p, False), ("create", p, True), ("touch", p), ("settimes", p),
                           ("openbin", p, "r"), ("openbin", p, "r+"), ("openbin", p, "a"), ("openbin", p, "w"), ("openbin", p, "x"),
                           ("openbin", p, "rt"), ("openbin", p, "zz"), ("remove", p), ("removedir", p), ("removetree", p)]

_TWO = [("move", "c", "n", False), ("move", "c", "a/n", True), ("move", "a/f", "a/g", True), ("move", "a/g", "z", False),
        ("move", "only-lo", "c", True), ("move", "c", "c", True), ("move", "k", "n", True), ("move", "j", "n", True),
        ("copy", "c", "n", False), ("copy", "a/f", "a/h", False), ("copy", "a/f", "h", False), ("copy", "c", "c", True),
        ("copy", "only-hi", "c", False), ("copy", "k/inner", "n", True), ("copy", "zz", "n", True),
        ("copydir", "a", "e", True), ("copydir", "a", "e", False), ("copydir", "a", "d", False), ("copydir", "a", "a/b", True),
        ("copydir", "a/b", "a", True), ("copydir", "k", "n", True), ("copydir", "j", "n", True), ("copydir", "/", "n", True),
        ("copydir", "a", "c", True), ("copydir", "d", "a", False),
        ("movedir", "a", "e", True), ("movedir", "d", "e", True), ("movedir", "a", "e", False), ("movedir", "a/b", "a", True),
        ("movedir", "j", "n", True), ("movedir", "k", "n", True), ("movedir", "a", "a", True), ("movedir", "a", "a/b/z", True),
        ("move", "..", "n", True), ("copy", "c", "x\0", True), ("copydir", "a", "../e", True)]

_DIRECTED_PATHS = ["/", "", "a", "a/f", "a/g", "a/b", "a/b/c", "a/n", "a/n/m", "c", "d", "d/x", "e", "k", "k/inner", "k/new", "j", "j/inner",
                   "j/new", "only-lo", "only-hi", "only-w", "n", "n/m", "..", "x\0", "a/..", "/a/./f"]


def directed():
    out = []
    for stack in ("multi2", "cons3", "wtop", "wbot", "tie", "nowrite"):
        ops = []
        for p in _DIRECTED_PATHS:
            ops += _ONE_PATH_OPS(p)
        ops += _TWO + [("close",)]
        for op in ops:
            out.append(MStep(stack, STACKS[stack], op, directed=True))
    for op in _ONE_PATH_OPS("/") + _ONE_PATH_OPS("a") + [("move", "a", "b", True), ("copydir", "/", "n", True), ("close",)]:
        out.append(MStep("empty", STACKS["empty"], op, directed=True))
    # closed stacks (auto_close on and off): every call fails and changes nothing; `close` is idempotent
    for ac in (True, False):
        for op in _ONE_PATH_OPS("a/f") + _ONE_PATH_OPS("..") + [("move", "c", "n", True), ("copy", "c", "n", True), ("movedir", "a", "n", True),
                                                                   ("copydir", "a", "n", True), ("close",)]:
            out.append(MStep("cons3", STACKS["cons3"], op, auto_close=ac, mclosed=True, directed=True))
        out.append(MStep("cons3", STACKS["cons3"], ("close",), auto_close=ac, directed=True))
    return out


# ----------------------------------------------------------------------------- entry point

def judge_multi_exact(rep, steps, drv, ref_judge=None, seed_rng=None, n_hist=12, n_ops=20):
    """`steps`: the fsharness.Step list of the c01 run — the `multi` ones are re-executed on a fresh single
    write-layer stack with LAYER snapshots; then random histories on 2-3 layer stacks and the directed corpus.
    Everything is compared exactly with `multifs.step`; queries on consistent stacks and unshadowed mutators
    are additionally handed to the Ref-level judge of c01 on the OVERLAY tree."""
    todo = []
    for s in steps:
        if s.kind == "multi" and s.pre is not None:
            todo.append(MStep("multi", [("w", 0, True, s.pre)], s.op))
    done = []
    for ms in todo + directed():
        execute(ms)
        if any(t is None for t in ms.layer_pre):
            continue
        done.append(ms)
    rng = seed_rng or vlib.rng_for(0, "c01-multifs")
    for stack in HISTORY_STACKS:
        for _ in range(n_hist):
            done += run_stack_history(stack, rng, n_ops)
    replies = drv.batch([request(ms) for ms in done])
    ref_steps = []
    for ms, r in zip(done, replies):
        rep.evaluations += 1
        rep.nontrivial("multi-exact", ms.stack, ms.mclosed, ms.auto_close, ms.op, tuple(H.enc_tree(t) for t in ms.layer_pre))
        compare(rep, ms, r)
        st = oracle(rep, ms, drv, ref_judge)
        if st is not None:
            ref_steps.append(st)
    if ref_judge is not None and ref_steps:
        for st, m in zip(ref_steps, H.model_replies(drv, ref_steps)):
            ref_judge(rep, st, m)
    return len(done)


def replay_case(rep, case, drv, ref_judge=None):
    layers = []
    for (n, p, w, t) in case["layers"]:
        layers.append((n, p, w, [tuple([e[0], e[1]] + ([e[2].encode("latin-1")] if e[0] == "F" else [])) for e in t]))
    op = case["op"]
    if op[0] in ("writebytes", "appendbytes"):
        op = [op[0], op[1], op[2].encode("latin-1")]
    ms = execute(MStep(case["multifs_stack"], layers, tuple(op), auto_close=case.get("auto_close", True),
                       mclosed=case.get("multifs_closed", False)))
    r = drv.batch([request(ms)])[0]
    compare(rep, ms, r)
    st = oracle(rep, ms, drv, ref_judge)
    if st is not None and ref_judge is not None:
        ref_judge(rep, st, H.model_replies(drv, [st])[0])
    print("impl:", ms.impl[:2], ms.scan, "model:", r[:200])
    return ms, r
