"""C20 — parsers of external text are total and faithful.

Theorems: lean/FsProofs/C20.lean (over FsModel.Parse / FsModel.FtpParse).
Correspondence: `fs.opener.parse.parse_fs_url`, `fs._ftp_parse.parse/parse_line/_parse_time`,
`FTPFS._parse_facts/_parse_mlsx/_parse_ftp_time/_parse_features`, `fs._url_tools` and the
`urllib.parse` / `str` / `int` primitives they rest on, against the compiled Lean model on

  * every string of length <= 6 over ``a : / @ ! ? % =`` (thorough: plus every fifth string of
    length 7),
    a second alphabet with hex digits / `&` / `+` / line feed, random Unicode strings, and URLs
    built from random part tuples by the model's own builder (round trip on the real parser);
  * LIST / MLSD / FEAT lines generated from the grammars (every permission string, both year
    forms, 12/24 h, names with spaces / Unicode / `->`; MLSD / MLST entries `facts SP pathname`
    whose names contain `;`, `=`, leading / trailing blanks, CR / LF, entries without facts,
    without a space, with a facts part that does not end in `;`), mutated and truncated lines,
    random latin-1 garbage, huge numbers.

Oracle (the property itself, on the real code): (a) totality — `parse_fs_url` raises nothing but
ParseError, the FTP parsers raise nothing; (b) faithfulness — a URL / line generated from parts
parses back to exactly those parts.
"""
from __future__ import annotations

import itertools
import os
import time
import unicodedata

import vlib
from vlib import hx, hxlist

MAXVIOL = 6
LEANCHECKER_MODULES = ["FsProofs.C20"]

# ----------------------------------------------------------------------------- encoders


def opt(s):
    return "~" if s is None else hx(s)


def alist(items):
    flat = []
    for k, v in items:
        flat += [k, v]
    return hxlist(flat)


def fnum(x):
    """numbers as the driver prints them (Python floats with integral value -> int)"""
    if x is None:
        return "~"
    if isinstance(x, float):
        if x != int(x):
            return repr(x)
        x = int(x)
    return str(x)


def leak(e):
    return "err Leak:" + type(e).__name__


# ----------------------------------------------------------------------------- real code


def impl_url(s):
    from fs.opener.parse import parse_fs_url
    from fs.opener.errors import ParseError

    try:
        r = parse_fs_url(s)
    except ParseError:
        return "err ParseError"
    except Exception as e:
        return leak(e)
    if type(r.params) is not dict or len(r) != 6:
        return "err Leak:shape"
    out = "ok " + " ".join(
        [hx(r.protocol), opt(r.username), opt(r.password), hx(r.resource), alist(r.params.items()), opt(r.path)]
    )
    # parsing is a function of the text: whatever the receiver does with one result (openers pop and set
    # their options) must not show in the next parse of the same URL
    try:
        r.params.clear()
        r.params["zz-caller-owned"] = "1"
        r2 = parse_fs_url(s)
        out2 = "ok " + " ".join(
            [hx(r2.protocol), opt(r2.username), opt(r2.password), hx(r2.resource), alist(r2.params.items()), opt(r2.path)])
    except Exception as e:  # noqa
        out2 = leak(e)
    if out2 != out:
        return "err Leak:stateful-parse(second parse of the same text gave %s)" % out2[:80].replace(" ", "_")
    return out


KNOWN_PROTOCOLS = ["x", "osfs", "a", "ftp", "a:", "\xe9"]
_REG = []


def impl_open(default, url):
    """Registry.open with a stub opener registered for KNOWN_PROTOCOLS: what reaches the opener."""
    from fs.opener.registry import Registry
    from fs.opener.base import Opener
    from fs.opener.errors import ParseError, UnsupportedProtocol

    if not _REG:
        class Stub(Opener):
            protocols = KNOWN_PROTOCOLS

            def open_fs(self, fs_url, parse_result, writeable, create, cwd):
                return ("STUB", fs_url, parse_result)

        reg = Registry(load_extern=False)
        reg.install(Stub)
        _REG.append(reg)
    try:
        (tag, fs_url, r), path = _REG[0].open(url, default_protocol=default)
    except ParseError:
        return "err ParseError"
    except UnsupportedProtocol:
        return "err Unsupported"
    except Exception as e:
        return leak(e)
    if tag != "STUB" or path != r.path:
        return "err Leak:dispatch"
    return "ok " + hx(fs_url) + " " + " ".join(
        [hx(r.protocol), opt(r.username), opt(r.password), hx(r.resource), alist(r.params.items()), opt(r.path)])


def impl_re(s):
    from fs.opener.parse import _RE_FS_URL

    m = _RE_FS_URL.match(s)
    if m is None:
        return "ok N"
    g = m.groups()
    return "ok " + " ".join([hx(g[0]), opt(g[1]), opt(g[2]), opt(g[3]), opt(g[4])])


def impl_unquote(s):
    from six.moves.urllib.parse import unquote

    try:
        return "ok " + hx(unquote(s))
    except Exception as e:
        return leak(e)


def impl_quote(s):
    from six.moves.urllib.parse import quote

    return "ok " + hx(quote(s, safe=""))


def impl_urlquote(s):
    from fs._url_tools import url_quote

    try:
        return "ok " + hx(url_quote(s))
    except Exception as e:
        return leak(e)


def impl_hasdrive(s):
    from fs._url_tools import _has_drive_letter

    try:
        return "ok " + ("1" if _has_drive_letter(s) else "0")
    except Exception as e:
        return leak(e)


LIST_KEYS = {
    "basic": {"name", "is_dir"},
    "details": {"size", "type", "modified"},
    "access": {"permissions", "user", "group"},
    "ftp": {"ls"},
}


def render_listinfo(raw, model_name_nfc=True):
    """canonical form of one raw_info dict of fs._ftp_parse (driver format `I …`)."""
    for ns, keys in raw.items():
        if ns not in LIST_KEYS or not set(keys) <= LIST_KEYS[ns]:
            return "BADSHAPE:%r" % (sorted((k, sorted(v)) for k, v in raw.items()),)
    b, d = raw["basic"], raw["details"]
    want_type = 1 if b["is_dir"] else 2
    if d.get("type") != want_type or type(b["is_dir"]) is not bool:
        return "BADTYPE:%r" % (d.get("type"),)
    acc = raw.get("access")
    return " ".join(
        [
            "I",
            hx(b["name"]),
            "1" if b["is_dir"] else "0",
            fnum(d.get("size")),
            fnum(d.get("modified")),
            "~" if acc is None else hxlist(acc["permissions"]),
            "~" if acc is None else hx(acc["user"]),
            "~" if acc is None else hx(acc["group"]),
            hx(raw["ftp"]["ls"]),
        ]
    )


def impl_line(line):
    from fs import _ftp_parse as F

    try:
        r = F.parse_line(line)
    except ValueError:
        return "err ValueError"
    except Exception as e:
        return leak(e)
    return "ok N" if r is None else "ok " + render_listinfo(r)


def impl_list(lines):
    from fs import _ftp_parse as F

    try:
        r = F.parse(lines)
    except ValueError:
        return "err ValueError"
    except Exception as e:
        return leak(e)
    return "ok %d" % len(r) + ("" if not r else " " + " ; ".join(render_listinfo(i) for i in r))


def impl_time(kind, t):
    from fs import _ftp_parse as F

    f = F._decode_linux_time if kind == "linux" else F._decode_windowsnt_time
    try:
        return "ok " + fnum(f(t))
    except ValueError:
        return "err ValueError"
    except Exception as e:
        return leak(e)


def render_mlsd(raw):
    if set(raw) != {"basic", "ftp", "details"} or not set(raw["details"]) <= {"type", "size", "modified", "created"}:
        return "BADSHAPE:%r" % (raw,)
    b, d = raw["basic"], raw["details"]
    if d.get("type") != (1 if b["is_dir"] else 2) or set(b) != {"name", "is_dir"}:
        return "BADTYPE"

    def oo(k):
        if k not in d:
            return "~"
        return "N" if d[k] is None else fnum(d[k])

    return " ".join(["M", hx(b["name"]), "1" if b["is_dir"] else "0", alist(raw["ftp"].items()), fnum(d["size"]), oo("modified"), oo("created")])


def impl_mlsd(lines):
    from fs.ftpfs import FTPFS

    try:
        r = list(FTPFS._parse_mlsx(lines))
    except ValueError:
        return "err ValueError"
    except Exception as e:
        return leak(e)
    return "ok %d" % len(r) + ("" if not r else " " + " ; ".join(render_mlsd(i) for i in r))


def impl_facts(line):
    from fs.ftpfs import FTPFS

    try:
        name, facts = FTPFS._parse_facts(line)
    except Exception as e:
        return leak(e)
    return "ok " + opt(name) + " " + alist(facts.items())


def impl_ftptime(t):
    from fs.ftpfs import FTPFS

    try:
        return "ok " + fnum(FTPFS._parse_ftp_time(t))
    except ValueError:
        return "err ValueError"
    except Exception as e:
        return leak(e)


def impl_feat(s):
    from fs.ftpfs import FTPFS

    try:
        return "ok " + alist(FTPFS._parse_features(s).items())
    except Exception as e:
        return leak(e)


def impl_int(s):
    try:
        return "ok " + str(int(s))
    except ValueError:
        return "ok ~"


def impl_epoch(y, m, d, h, mi, s):
    import calendar
    import datetime as dt

    try:
        v = calendar.timegm((y, m, d, h, mi, s))
        w = (dt.datetime(y, m, d, h, mi, s, tzinfo=dt.timezone.utc) - dt.datetime.fromtimestamp(0, dt.timezone.utc)).total_seconds()
        assert v == w
        return "ok %d" % v
    except ValueError:
        return "err ValueError"


def current_year():
    return time.localtime().tm_year


# ----------------------------------------------------------------------------- case plumbing
#
# a case = (kind, payload); `request(case)` is the driver line, `impl(case)` the canonical reply of
# the real code.


def request(case):
    k, a = case
    if k == "url":
        return "parse.url " + hx(a)
    if k == "re":
        return "parse.re " + hx(a)
    if k == "open":
        return "parse.open %s %s %s" % (hxlist(KNOWN_PROTOCOLS), hx(a[0]), hx(a[1]))
    if k in ("unquote", "quote", "urlquote", "hasdrive", "feat", "facts", "int", "strip", "lower", "splitlines", "cls", "perms"):
        return "parse.%s %s" % (k, hx(a))
    if k == "line":
        return "parse.line %s %d" % (hx(a[0]), a[1])
    if k == "list":
        return "parse.list %s %d" % (hxlist(a[0]), a[1])
    if k in ("time.linux", "time.nt"):
        return "parse.%s %s %d" % (k, hx(a[0]), a[1])
    if k == "mlsd":
        return "parse.mlsd " + hxlist(a)
    if k == "ftptime":
        return "parse.ftptime " + hx(a)
    if k == "epoch":
        return "info.epoch %d %d %d %d %d %d" % tuple(a)
    raise AssertionError(k)


def impl(case):
    k, a = case
    if k == "url":
        return impl_url(a)
    if k == "re":
        return impl_re(a)
    if k == "open":
        return impl_open(a[0], a[1])
    if k == "unquote":
        return impl_unquote(a)
    if k == "quote":
        return impl_quote(a)
    if k == "urlquote":
        return impl_urlquote(a)
    if k == "hasdrive":
        return impl_hasdrive(a)
    if k == "line":
        return impl_line(a[0])
    if k == "list":
        return impl_list(a[0])
    if k == "time.linux":
        return impl_time("linux", a[0])
    if k == "time.nt":
        return impl_time("nt", a[0])
    if k == "mlsd":
        return impl_mlsd(a)
    if k == "facts":
        return impl_facts(a)
    if k == "ftptime":
        return impl_ftptime(a)
    if k == "feat":
        return impl_feat(a)
    if k == "int":
        return impl_int(a)
    if k == "epoch":
        return impl_epoch(*a)
    if k == "strip":
        return "ok " + hx(a.strip())
    if k == "lower":
        return "ok " + hx(a.lower())
    if k == "splitlines":
        return "ok " + hxlist(a.splitlines())
    if k == "cls":
        return "ok " + " ".join(cls_flags(ch) for ch in a)
    if k == "perms":
        from fs.permissions import Permissions

        return "ok " + hxlist(Permissions.parse(a).dump())
    raise AssertionError(k)


def cls_flags(ch):
    import re

    def int_space(c):
        try:
            return int(c + "1" + c) == 1
        except ValueError:
            return False

    return "".join([
        "s" if (ch.isspace() and re.match(r"\s", ch) and ch.strip() == "") else "-",
        "d" if re.match(r"\d", ch) else "-",
        "w" if re.match(r"\w", ch) else "-",
        "D" if ch.isdigit() else "-",
        "b" if len(("a" + ch + "b").splitlines()) == 2 else "-",
        "i" if int_space(ch) else "-",
    ])


def nfc_fix(model_reply):
    """apply unicodedata.normalize('NFC') (external, not modelled) to the name field of every
    `I …` record whose permissions field is present (decode_linux normalises, decode_windowsnt
    does not)."""
    if " I " not in " " + model_reply:
        return model_reply
    toks = model_reply.split(" ")
    for i, t in enumerate(toks):
        if t == "I" and i + 8 < len(toks) + 0 and toks[i + 5] != "~":
            name = vlib.unhx(toks[i + 1])
            n2 = unicodedata.normalize("NFC", name)
            if n2 != name:
                toks[i + 1] = hx(n2)
    return " ".join(toks)


TOTAL_KINDS_ALLOWED = {"url": ("err ParseError",), "open": ("err ParseError", "err Unsupported"), "epoch": ("err ValueError",)}


def signature_of(case, impl_reply):
    """signature of an undocumented exception: function and exception class"""
    fn = {"url": "parse_fs_url", "open": "Registry.open", "line": "_ftp_parse.parse_line", "list": "_ftp_parse.parse",
          "time.linux": "_ftp_parse._parse_time", "time.nt": "_ftp_parse._parse_time", "mlsd": "FTPFS._parse_mlsx",
          "facts": "FTPFS._parse_facts", "ftptime": "FTPFS._parse_ftp_time", "feat": "FTPFS._parse_features"}.get(case[0], case[0])
    exc = impl_reply.split(":", 1)[1] if impl_reply.startswith("err Leak:") else impl_reply[4:]
    return "C20/%s/raises/%s" % (fn, exc)


def is_undocumented(case, impl_reply):
    """(a) of the property: the real parser raised something it must not raise."""
    if not impl_reply.startswith("err"):
        return False
    return impl_reply not in TOTAL_KINDS_ALLOWED.get(case[0], ())


class Engine:
    def __init__(self, rep, drv):
        self.rep = rep
        self.drv = drv

    def check(self, cases, tag, expect=None):
        """run cases on both sides.  `expect[i]` (optional) is the reply the *property* demands
        (faithfulness oracle for generated-from-parts inputs)."""
        rep, drv = self.rep, self.drv
        CH = 20000
        for i in range(0, len(cases), CH):
            chunk = cases[i : i + CH]
            replies = drv.batch([request(c) for c in chunk])
            for j, (c, model) in enumerate(zip(chunk, replies)):
                got = impl(c)
                rep.evaluations += 1
                if c[0] in ("line", "list"):
                    model = nfc_fix(model)
                rep.count("%s:%s" % (c[0], got[:6].strip() if got.startswith("err") else ("ok-none" if got in ("ok N", "ok ~", "ok 0") else "ok")))
                want = expect[i + j] if expect is not None else None
                if got == model and not is_undocumented(c, got) and (want is None or want == got):
                    continue
                self.disagree(c, model, got, want, tag)
            rep.programs += len(chunk)

    def room(self, found_input):
        """at most 3 replays of each sort, so that a broken correspondence cannot crowd out the
        search for an input that fails the property itself (the from-parts oracles run later)"""
        n = sum(1 for v in self.rep.violations if bool(v["found_input"]) == bool(found_input))
        return n < MAXVIOL // 2

    def disagree(self, c, model, got, want, tag):
        rep, drv = self.rep, self.drv
        rep.disagreements_checked += 1
        case = {"kind": c[0], "arg": c[1], "model": model, "impl": got, "expected": want, "stream": tag}
        if is_undocumented(c, got):
            sig = signature_of(c, got)
            if rep.match_known(sig) is not None or self.room(True):
                rep.violation(case, "%s raises %s on %r (the property allows no such exception)" % (c[0], got[4:], c[1]),
                              found_input=True, signature=sig)
            return
        if want is not None and got != want and not got.startswith("err"):
            if self.room(True):
                rep.violation(case, "%s does not return the parts the input was built from: %r -> %s, expected %s" % (c[0], c[1], got, want),
                              found_input=True, signature="C20/%s/unfaithful" % c[0])
            return
        if got == model:
            return
        if self.room(False):
            rep.violation(case, "correspondence broke: %s on %r: model %s, impl %s; no input failing the property itself was found here"
                          % (c[0], c[1], model[:200], got[:200]), found_input=False, signature="C20/%s/correspondence" % c[0])


# ----------------------------------------------------------------------------- URL generators

ALPHA1 = "a:/@!?%="
ALPHA2 = "a:/@!?%=4F&+\n"


def strings_over(alpha, maxlen, stride6=None):
    for n in range(maxlen + 1):
        for i, t in enumerate(itertools.product(alpha, repeat=n)):
            yield "".join(t)


POOL_CHARS = "abzAZ09-._~ :/@!?%=&+#\t\n\r\x0b\x1c\x85\xa0\xe9\xff\u03b1\u03b2\u0436\u65e5\u672c\u3000\u2028\U0001f600\ufffd$<>\\"


def rand_text(rng, n, pool=POOL_CHARS):
    return "".join(rng.choice(pool) for _ in range(n))


def rand_part(rng):
    r = rng.random()
    if r < 0.15:
        return ""
    if r < 0.5:
        return rand_text(rng, rng.randint(1, 4), "abc019-._~")
    if r < 0.7:
        return rand_text(rng, rng.randint(1, 6), ":/@!?%=&+ #")
    if r < 0.8:
        return "%" + rng.choice(["41", "2541", "zz", "", "C3%A9", "e9", "F0%9F%98%80", "ED%A0%80"]) + rand_text(rng, rng.randint(0, 2))
    return rand_text(rng, rng.randint(1, 8))


def rand_parts(rng):
    """a ParseResult-shaped tuple satisfying WFParts (see lean/FsProofs/C20.lean)"""
    proto = rand_part(rng).replace("\n", "")
    while "://" in proto + ":/":
        proto = proto.replace(":", "", 1)
    if rng.random() < 0.5:
        user = pw = None
    else:
        user, pw = rand_part(rng), rand_part(rng)
    res = rand_part(rng)
    params = {}
    for _ in range(rng.choice([0, 0, 1, 2, 3])):
        params[rand_part(rng)] = rand_part(rng)
    if rng.random() < 0.4:
        path = None
    else:
        path = rand_part(rng).replace("\n", "")
        if user is None:
            path = path.replace("@", "")
    return (proto, user, pw, res, list(params.items()), path)


def build_request(parts):
    proto, user, pw, res, params, path = parts
    return "parse.build %s %s %s %s %s %s" % (hx(proto), opt(user), opt(pw), hx(res), alist(params), opt(path))


def parts_reply(parts):
    proto, user, pw, res, params, path = parts
    return "ok " + " ".join([hx(proto), opt(user), opt(pw), hx(res), alist(params), opt(path)])


def run_urls(eng, tier, rng, deep):
    rep, drv = eng.rep, eng.drv
    seen = set()
    urls = []
    for s in strings_over(ALPHA1, 6):
        urls.append(s)
    if tier == "thorough":
        # a fixed stride through the 8^7 strings of length 7
        for i, t in enumerate(itertools.product(ALPHA1, repeat=7)):
            if i % 5 == 3:
                urls.append("".join(t))
    n2 = 5 if tier == "thorough" else 4
    for s in strings_over(ALPHA2, n2):
        urls.append(s)
    # all strings of the shape  x://<body>  with body <= L over the richer alphabet
    Lb = 5 if tier == "thorough" else 4
    for s in strings_over("a:@!?%=&4\n", Lb):
        urls.append("x://" + s)
    R = 20000 if tier == "quick" else 400000
    if deep:
        R *= 3
    for _ in range(R):
        r = rng.random()
        if r < 0.4:
            urls.append(rand_text(rng, rng.choice([1, 2, 3, 5, 8, 13, 30])))
        elif r < 0.8:
            urls.append(rand_part(rng) + "://" + rand_text(rng, rng.choice([0, 1, 2, 3, 5, 8, 13, 30])))
        else:
            urls.append(rand_text(rng, rng.randint(0, 3), "ab:") + "://" + rand_part(rng) + rng.choice(["", "@", ":", ":@"]) + rand_part(rng)
                        + rng.choice(["", "?", "?a=1&b", "?" + rand_part(rng)]) + rng.choice(["", "!", "!" + rand_part(rng)]) + rng.choice(["", "\n"]))
    urls = [u for u in urls if not (u in seen or seen.add(u))]
    rep.extra["url_inputs"] = len(urls)
    for u in urls:
        if "://" in u:
            rep.nontrivial("url", u)
    eng.check([("url", u) for u in urls], "urls")
    eng.check([("re", u) for u in urls[:: (2 if tier == "thorough" else 5)]], "regex-groups")
    # Registry.open: default protocol rule and dispatch by protocol (stub opener)
    opens = [(rng.choice(["osfs", "x", "zip", "", "a:"]), u) for u in urls[:: (7 if tier == "thorough" else 13)]]
    opens += [(d, u) for d in ("osfs", "nope") for u in ("", "a/b", "~/x", "x://h", "://h", "nope://h", "a:://h", "\xe9://h!p", "x://@h", "a\nb", "h!p")]
    eng.check([("open", o) for o in opens], "Registry.open")
    # unquote / quote / url_quote / _has_drive_letter
    texts = []
    for s in strings_over("%4aFc\xe9", 5 if tier == "quick" else 6):
        texts.append(s)
    for _ in range(R // 2):
        r = rng.random()
        if r < 0.5:
            bs = bytes(rng.choice([rng.randrange(256), rng.choice([0xC3, 0xE0, 0xED, 0xF0, 0xF4, 0x80, 0xBF, 0xA0, 0x9F, 0x90, 0x8F, 0x41])]) for _ in range(rng.randint(1, 6)))
            texts.append("".join("%%%02X" % b if rng.random() < 0.9 else chr(b) for b in bs))
        else:
            texts.append(rand_text(rng, rng.randint(1, 10)))
    texts = list(dict.fromkeys(texts))
    for t in texts:
        rep.nontrivial("unquote", t)
    eng.check([("unquote", t) for t in texts], "unquote")
    plain = [t for t in texts[::4]]
    eng.check([("quote", t) for t in plain], "quote")
    eng.check([("urlquote", t) for t in plain], "url_quote")
    drv_texts = list(strings_over("C:/\\a\n", 5)) + plain[:2000]
    eng.check([("hasdrive", t) for t in drv_texts], "_has_drive_letter")
    # generated-from-parts round trips (the builder is the model's; the parser is the real one)
    N = 6000 if tier == "quick" else 120000
    parts = [rand_parts(rng) for _ in range(N)]
    built = drv.batch([build_request(p) for p in parts])
    cases, expect = [], []
    for p, b in zip(parts, built):
        assert b.startswith("ok "), b
        cases.append(("url", vlib.unhx(b[3:])))
        expect.append(parts_reply(p))
        rep.nontrivial("built", cases[-1][1])
    eng.check(cases, "url-from-parts", expect)
    rep.sample({"built_from": repr(parts[0]), "url": cases[0][1], "parsed": impl_url(cases[0][1])})
    directed_excluded_points(eng)


EXCLUDED_POINTS = [
    # (hypothesis of wfParts that is violated, parts) — each is run through the model's builder and
    # the real parser; the parser must agree with the model and must NOT give the parts back
    ("sub-path contains '@' and there are no credentials", ("x", None, None, "h", [], "a@b")),
    ("protocol contains '://'", ("a://b", None, None, "h", [], None)),
    ("duplicate parameter name", ("x", None, None, "h", [("k", "1"), ("k", "2")], None)),
    ("user name without password", ("x", "u", None, "h", [], None)),
    ("password without user name", ("x", None, "p", "h", [], None)),
    ("line feed in the sub-path", ("x", None, None, "h", [], "a\nb")),
    ("line feed in the protocol", ("x\n", None, None, "h", [], None)),
]


def directed_excluded_points(eng):
    rep, drv = eng.rep, eng.drv
    built = drv.batch([build_request(p) for _w, p in EXCLUDED_POINTS])
    out = []
    cases = []
    for (why, parts), b in zip(EXCLUDED_POINTS, built):
        url = vlib.unhx(b[3:])
        got = impl_url(url)
        cases.append(("url", url))
        out.append({"excluded_by": why, "url": url, "real_parser_returns_parts": got == parts_reply(parts), "real_parser": got})
        if got == parts_reply(parts) and len(rep.violations) < MAXVIOL:
            rep.violation({"kind": "url", "arg": url, "parts": repr(parts)},
                          "hypothesis of url_roundtrip (%s) is not needed on the real parser: the model is too strict here" % why,
                          found_input=False, signature="C20/url/wfParts-hypothesis/" + why)
    eng.check(cases, "excluded-points")
    rep.extra["wfParts_excluded_points"] = out


# ----------------------------------------------------------------------------- FTP generators

# characters on which the model's character classes are exact (checked at start-up by
# `check_classes`): all of latin-1 plus a few others
FTP_POOL = ("abzAZ09-._~ :/@!?%=&+#;<>$\\|\t\n\r\x0b\x0c\x1c\x1f\x85\xa0\xb2\xb5\xbd\xc9\xd7\xe9\xff"
            "αβж日本　   \U0001f600�")

TYPES = "-dlpscbD"
UIDS = ["root", "u", "user.name", "a-b_c@d", "0", "1000", "u$", "A9", "ftp", "-x", "a$$", "\xe9", "u$x"]
MONTHS = ["Jan", "Feb", "Mar", "Apr", "May", "Jun", "Jul", "Aug", "Sep", "Oct", "Nov", "Dec"]
BADMON = ["Foo", "J4n", "jan", "JAN", "jAN", "Ja", "Janu", "\xc9t\xe9", "___", "Sept"]
DAYS = ["1", "01", "9", "10", "28", "29", "30", "31", "32", "0", "00", "5", "123", "\xb2"]
YEARS = ["2020", "1900", "0000", "9999", "1969", "0001", "2024", "2023", "20", "20200", "1970", "2100", "19x0"]
CLOCKS = ["12:00", "0:00", "00:00", "23:59", "24:00", "12:60", "7:5", "1:2:3", ":", "12:", "12", "ab:cd", "09:30", "9:05", ":30", "12::0", "1_2:00"]
NAMES = ["file.txt", "my file", "  lead", "trail ", "a -> b", "a->b", "->", "日本 語", "αβ", "\xe9", "é",
         "x\n", "a\nb", "", "\U0001f600.png", "dir/", ".", "..", "a  ->  b -> c", "link ->", "-> t", "\xa0n\xa0", "n\n\n", "\n"]
SEPS = [" ", " ", " ", "  ", "\t", "   ", "\xa0", " \t ", "\x0b", "\n", "　"]
SIZES = ["0", "10", "007", "4096", "123456789012", "9" * 30, "18446744073709551616", "1"]


def perm_strings():
    a, b, c, d = "r-", "w-", "xsS-", "xtT-"
    for t in itertools.product(a, b, c, a, b, c, a, b, d):
        yield "".join(t)


def linux_line(rng, perms=None, good=False):
    ty = rng.choice(TYPES)
    perms = perms or "".join(rng.choice(x) for x in ("r-", "w-", "xsS-", "r-", "w-", "xsS-", "r-", "w-", "xtT-"))
    suffix = rng.choice(["", "", ".", "+"])
    sep = (lambda: " ") if good else (lambda: rng.choice(SEPS))
    links = rng.choice(["1", "2", "12", "001", "345"])
    uid, gid = rng.choice(UIDS[:9] if good else UIDS), rng.choice(UIDS[:9] if good else UIDS)
    size = rng.choice(SIZES)
    mon = rng.choice(MONTHS) if (good or rng.random() < 0.8) else rng.choice(BADMON)
    day = rng.choice(DAYS[:8]) if good else rng.choice(DAYS)
    if rng.random() < 0.5:
        last = rng.choice(YEARS[:5] + YEARS[9:11]) if good else rng.choice(YEARS)
    else:
        last = rng.choice(CLOCKS[:4] + CLOCKS[12:14]) if good else rng.choice(CLOCKS)
    name = rng.choice(NAMES)
    if ty == "l" and rng.random() < 0.7:
        name = rng.choice(["a", "my link", "日"]) + rng.choice([" -> ", "->", " ->", "  ->  "]) + rng.choice(["target", "/x/y z", "", "a -> b"])
    return ty + perms + suffix + sep() + links + sep() + uid + sep() + gid + sep() + size + sep() + mon + sep() + day + sep() + last + sep() + name


NT_DATES = ["11-02-18", "1-2-18", "01-01-00", "31-12-99", "29-02-20", "29-02-21", "30-02-20", "31-04-19", "32-01-18", "0-1-18", "00-01-18",
            "13-13-18", "1-13-18", "11-02-68", "11-02-69", "11-02-2018", "11-02-1", "11/02/18", "11-02", "11-02-18-1", "-1-1-18", "\xb2-1-18", "5-01-20"]
NT_TIMES = ["02:12PM", "2:12pm", "12:00AM", "12:00PM", "12:30am", "13:12PM", "00:12", "15:33", "24:00", "7:5", "07:05Am", "12:60PM", "1212PM",
            "12:12XM", "12:12", "0:00", "0:00AM", "00:00PM", "1:2:3", "10:10AMPM", "PM", ":PM", "1:PM", "23:59", "11:59P", "9:5pM"]
NT_SIZES = ["<DIR>", "<DIR>", "9276", "0", "007", "<dir>", "12x", "<DIR>x", "9" * 25, "-5", "1 2"]


def nt_line(rng, good=False):
    sep = (lambda: rng.choice([" ", "  ", "       "])) if good else (lambda: rng.choice(SEPS))
    d = rng.choice(NT_DATES[:5] + NT_DATES[13:15]) if good else rng.choice(NT_DATES)
    t = rng.choice(NT_TIMES[:5] + NT_TIMES[6:8]) if good else rng.choice(NT_TIMES)
    z = rng.choice(NT_SIZES[:5]) if good else rng.choice(NT_SIZES)
    return d + sep() + t + sep() + z + sep() + rng.choice(NAMES)


def mutate(rng, line):
    r = rng.random()
    if not line:
        return rand_text(rng, 3, FTP_POOL)
    i = rng.randrange(len(line))
    if r < 0.3:
        return line[:i]
    if r < 0.5:
        return line[:i] + line[i + 1 :]
    if r < 0.7:
        return line[:i] + rng.choice(FTP_POOL) + line[i:]
    if r < 0.9:
        return line[:i] + rng.choice(FTP_POOL) + line[i + 1 :]
    j = rng.randrange(len(line))
    return line[: max(i, j)] + line[min(i, j) :]


def garbage(rng):
    r = rng.random()
    if r < 0.5:
        return bytes(rng.randrange(256) for _ in range(rng.choice([1, 2, 3, 5, 8, 13, 30, 60]))).decode("latin-1")
    if r < 0.8:
        return rand_text(rng, rng.choice([1, 2, 3, 5, 8, 13, 30]), FTP_POOL)
    return rng.choice(["", " ", "\t\n", "\xa0", "\x1c", "　 ", "total 12", "\n", "d", "drwxr-xr-x", "<DIR>"])


MLSD_KEYS = ["type", "Type", "TYPE", " type ", "size", "Size", "sizd", "modify", "Modify", "create", "perm", "unique", "UNIX.mode", "", "\xc9", "lang", "media-type"]
MLSD_TYPES = ["dir", "file", "cdir", "pdir", "other", "OS.unix=slink:/foo", "DIR", "", " dir ", "File"]
MLSD_SIZES = ["0", "123", "007", "\xb2", "1\xb2", "-1", " 12", "1_0", "", "9" * 25, "12 ", "\xb9\xb2\xb3", "1.5", "+1"]
MLSD_TIMES = ["20200101120000", "20200229235959", "20200101120000.123", "2020", "20201301000000", "20200001000000", "00000101000000",
              "20200100000000", "20200132256199", "2020010112000", "202001011200", "99991231235959", "10000101000000", " 2020101010101", "2020 1 1 1 1 1 ",
              "+2020101010101", "2_20010101010", "20200101-1-1-1", "abcd0101000000", "2020\xb20101000000", "", "19700101000000", "00010101000000", "2020+1+1+1+1+1",
              "\xa0\xa0\xa0\xa001010000", "20200230000000"]
MLSD_NAMES = ["name", " name", "a b", "a; b=c", "dir/", "a/b", ".", "..", "", "日本", "/", "//", "x/ ", " . ", "a/..", "\xe9", "n\xa0",
              "a;b", "k=v", ";", "=", " ;", "; ", "trail ", "  both  ", "type=dir;", "type=dir; x", "a\rb", "a\n", "\r", "tab\t", "\tx", ". ", " ..",
              "x;", "x; y", "a=b; c=d; e", "./", "../", "a/ b", " /"]


def mlsd_line(rng, good=False):
    facts = []
    keys = rng.sample(MLSD_KEYS, rng.randint(0, 5))
    if rng.random() < 0.7 and not any(k.strip().lower() == "type" for k in keys):
        keys.append(rng.choice(["type", "Type"]))
    rng.shuffle(keys)
    for k in keys:
        kl = k.strip().lower()
        if kl == "type":
            v = rng.choice(MLSD_TYPES[:2] if good or rng.random() < 0.6 else MLSD_TYPES)
        elif kl in ("size", "sizd"):
            v = rng.choice(MLSD_SIZES[:3] if good else MLSD_SIZES)
        elif kl in ("modify", "create"):
            v = rng.choice(MLSD_TIMES[:3] if good else MLSD_TIMES)
        else:
            v = rng.choice(["x", "", "el", "a=b", "0755", " v ", "a b", "\tv", "a;b"])
        # a fact is `key=value`; now and then a piece without '=' (ignored by the parser)
        facts.append(k + "=" + v if good or rng.random() < 0.95 else rng.choice([k, v, "x", " "]))
    name = rng.choice(MLSD_NAMES[:4] if good else MLSD_NAMES)
    # `facts; SP name` is the grammar; the other tails give a line without any space (`;name`), a facts
    # part that does not end with ';' (` ; name`, ` name`) and a name that starts with blanks (`;  name`)
    tail = rng.choice(["; ", "; ", "; ", ";", " ; ", " ", ";  ", ";\t"]) if facts else rng.choice(["", "", " "])
    if good:
        tail = "; " if facts else ""
    r = rng.random()
    if r < 0.06:
        return ";".join(facts)  # no name, no terminating ';'
    if r < 0.1:
        return ";".join(facts) + ";"  # no name and no space at all
    # MLSD form, or the MLST reply form (one leading space); line terminators are the caller's, but a
    # server's CR / LF may be left on the line
    return rng.choice(["", "", " ", "  "]) + ";".join(facts) + tail + name + rng.choice(["", "", "", "\r", " ", "\r\n", "\n", " \r\n", "\n\n"])


FEAT_LINES = [" MDTM", " MLST type*;size*;modify*;", " UTF8", " REST STREAM", " SIZE", "  two spaces", " ", "", "MLSD", " MLST other", "\tTVFS",
              " \xc9 \xe9", " a  b", "211 End", "211-Extensions supported:", "500 no"]


def feat_text(rng):
    head = rng.choice(["211-Features:", "211-Features:", "211-", "211", "211 Features", "500-", " 211-x", "211-a-b", "", "2110-"])
    n = rng.randint(0, 6)
    nl = rng.choice(["\n", "\n", "\r\n", "\r", "\x0b", "\x0c", "\x1c", "\x1d", "\x1e", "\x85", " ", " ", "\x1f", "\n\n"])
    body = nl.join([head] + [rng.choice(FEAT_LINES) for _ in range(n)])
    return body + rng.choice(["", nl, nl + "211 End"])


def check_classes(eng, tier):
    """the model's character tables vs Python, on latin-1 and the generator pools (must be exact);
    the thorough tier also reports how much of the rest of Unicode the tables cover."""
    rep = eng.rep
    chars = [chr(c) for c in range(256)] + sorted(set(FTP_POOL + POOL_CHARS + "".join(NAMES) + "".join(MLSD_NAMES) + "".join(FAITHFUL_MLSD_NAMES)) - {chr(c) for c in range(256)})
    eng.check([("cls", ch) for ch in chars], "character-classes")
    lows = [ch for ch in chars]
    eng.check([("lower", ch) for ch in lows], "str.lower")
    if tier == "thorough":
        drv = eng.drv
        allc = [chr(c) for c in range(0x100, 0x110000) if not 0xD800 <= c < 0xE000]
        bad = 0
        for i in range(0, len(allc), 50000):
            chunk = allc[i : i + 50000]
            for ch, m in zip(chunk, drv.batch(["parse.cls " + hx(ch) for ch in chunk])):
                if m != "ok " + cls_flags(ch) or ch.lower() != ch:
                    bad += 1
        rep.extra["chars_above_latin1_where_tables_are_inexact"] = bad
        rep.extra["chars_above_latin1"] = len(allc)


def run_ftp(eng, tier, rng, deep):
    rep, drv = eng.rep, eng.drv
    year = current_year()
    q = tier == "quick"
    check_classes(eng, tier)
    # --- Python primitives the parsers rest on
    ints = list(strings_over(" \t+-_019\xa0\x1c\xb2a", 4 if q else 5))
    ints += ["9" * 4300, "9" * 4301, "0" * 4301, "1_" * 2200 + "1", " " * 5000 + "1", "-" + "9" * 4300, "1" + "_1" * 4300]
    eng.check([("int", t) for t in ints], "int()")
    texts = [rand_text(rng, rng.randint(0, 8), FTP_POOL) for _ in range(4000 if q else 60000)]
    eng.check([("strip", t) for t in texts], "str.strip")
    eng.check([("lower", t) for t in texts[::4]], "str.lower")
    eng.check([("splitlines", t) for t in texts] + [("splitlines", t) for t in strings_over("a\r\n\x85", 5)], "str.splitlines")
    # --- calendar arithmetic: every day of selected years (valid and invalid dates)
    ys = [1, 2, 4, 100, 400, 1600, 1899, 1900, 1904, 1969, 1970, 1972, 2000, 2020, 2023, 2024, 2038, 2100, 2400, 9999] if q else \
        sorted(set(list(range(1, 30)) + list(range(1890, 2110)) + [100, 200, 300, 400, 800, 1600, 2400, 4000, 9996, 9999]))
    eps = [("epoch", (y, m, d, (y * 7 + d) % 24, (m * 13 + d) % 60, (y + d * 3) % 60)) for y in ys for m in range(1, 13) for d in range(1, 33)]
    eps += [("epoch", (y, m, 1, 0, 0, 0)) for y in (0, 10000, 2020) for m in (0, 13)]
    eng.check(eps, "calendar")
    # --- Permissions.parse(..).dump() on every permission string
    allperms = list(perm_strings())
    eng.check([("perms", p + s) for p in allperms for s in ("", ".", "+")], "Permissions.parse")
    # --- LIST: every permission string x suffix, otherwise well-formed
    lines = []
    for p in allperms:
        lines.append(linux_line(rng, perms=p, good=True))
    good = [linux_line(rng, good=True) for _ in range(3000 if q else 60000)] + [nt_line(rng, good=True) for _ in range(2000 if q else 40000)]
    loose = [linux_line(rng) for _ in range(8000 if q else 200000)] + [nt_line(rng) for _ in range(5000 if q else 120000)]
    pool = lines + good + loose
    mut = [mutate(rng, rng.choice(pool)) for _ in range(10000 if q else 250000)]
    mut2 = [mutate(rng, mutate(rng, rng.choice(pool))) for _ in range(4000 if q else 100000)]
    gar = [garbage(rng) for _ in range(6000 if q else 150000)]
    directed = [
        "-rw-r--r-- 1 u g 10 Feb 29 12:00 x", "-rw-r--r-- 1 u g 10 Feb 29 2021 x", "-rw-r--r-- 1 u g 10 Jan 1 1900 x",
        "-rw-r--r-- 1 u g " + "9" * 4300 + " Jan 01 2020 x", "-rw-r--r-- 1 u g " + "9" * 4301 + " Jan 01 2020 x",
        "11-02-18  02:12PM  " + "9" * 4301 + " x", "11-02-18  02:12PM       <DIR>          images", "11-02-18  15:33                   9276 logo.gif",
        "-rw-r--r-- 1 1000 1000 10 Jan 123 2020 x", "drwxr-xr-x 5 77 x", "lrwxrwxrwx 1 root root 4 Jan  5 09:30 a b -> c -> d ",
        "-rw-r--r--    1 ftp      ftp         10 Dec 31  2999 trailing\n", "-rw-r--r--. 1 u g 1 Jan 1 2020 ", "-rw-r--r--+ 1 u g 1 Jan 1 2020",
    ]
    every = list(dict.fromkeys(directed + lines + good + loose + mut + mut2 + gar))
    rep.extra["list_lines"] = len(every)
    for l in every:
        rep.nontrivial("line", l)
    eng.check([("line", (l, year)) for l in every], "LIST-lines")
    # faithfulness of well-formed lines: what the line states is what comes back
    faithful_lines(eng, rng, year, 3000 if q else 60000)
    oracle_list_permissions(eng, rng)
    # --- parse(lines): blank lines skipped, garbage skipped, order kept
    lists = []
    for _ in range(3000 if q else 60000):
        n = rng.randint(0, 6)
        lists.append([rng.choice(every) if rng.random() < 0.8 else garbage(rng) for _ in range(n)])
    eng.check([("list", (l, year)) for l in lists], "parse(lines)")
    oracle_garbage_skipped(eng, lists)
    # --- _parse_time directly
    tl = [m + a + d + b + y for m in MONTHS[:3] + BADMON[:4] for a in (" ", "  ", "\t") for d in DAYS for b in (" ", "\xa0 ") for y in YEARS + CLOCKS]
    tl += [rng.choice(["", " "]) + rng.choice(MONTHS) + rng.choice(SEPS) + rng.choice(DAYS) + rng.choice(SEPS) + rng.choice(YEARS + CLOCKS) + rng.choice(["", "", " ", "x"]) for _ in range(2000 if q else 40000)]
    tl += [mutate(rng, rng.choice(tl)) for _ in range(2000 if q else 40000)]
    tl = list(dict.fromkeys(tl))
    eng.check([("time.linux", (t, year)) for t in tl], "_decode_linux_time")
    tn = [d + " " + t for d in NT_DATES for t in NT_TIMES] + [" " + d + " " + t for d in NT_DATES[:3] + ["5-01-20", "12-01-20"] for t in NT_TIMES[:3]]
    tn += [mutate(rng, rng.choice(tn)) for _ in range(2000 if q else 40000)]
    tn = list(dict.fromkeys(tn))
    eng.check([("time.nt", (t, year)) for t in tn], "_decode_windowsnt_time")
    # --- MLSD
    ml = [mlsd_line(rng, good=True) for _ in range(3000 if q else 60000)] + [mlsd_line(rng) for _ in range(12000 if q else 250000)]
    ml += [mutate(rng, rng.choice(ml)) for _ in range(4000 if q else 80000)] + [garbage(rng) for _ in range(3000 if q else 60000)]
    ml += ["size=" + "9" * 4300 + "; f", "size=" + "9" * 4301 + "; f", "sizd=12;type=dir; d", "Type=cdir;Modify=20200101000000; .", "type=pdir; ..", "x", "",
           "type=file;size=3; a; b=c", "type=dir;  x \r\n", " type=file; mlst form", "  two leading blanks", " name only", "name only", "a; b", " a; b", " k=v; b",
           "type=dir;x=a b; n", "type=dir;x=a; b; n", "x=a;b;type=dir; n", "\tK=\tv\t;Size=1;size=2; n", "type=file;n", "type=file ; n", "type=file", "type=file;",
           " ", "  ", ";", "; ", " ;", "; ;", "=", "= ", " =", "=; =", "\r\n", " \r\n", "\n ", "type=dir; /\r\n", "type=dir; a/\n/"]
    ml += [f + "; " + n + e for f in ("type=file", "Type=dir;size=1", "") for n in MLSD_NAMES for e in ("", "\r\n")]
    ml += [lead + n + e for lead in ("", " ", "  ") for n in MLSD_NAMES for e in ("", "\r\n")]
    ml = list(dict.fromkeys(ml))
    rep.extra["mlsd_lines"] = len(ml)
    for l in ml:
        rep.nontrivial("mlsd", l)
    eng.check([("mlsd", [l]) for l in ml], "MLSD-lines")
    eng.check([("facts", l) for l in ml[::2]], "_parse_facts")
    eng.check([("ftptime", t) for t in MLSD_TIMES] + [("ftptime", mutate(rng, rng.choice(MLSD_TIMES))) for _ in range(4000 if q else 80000)], "_parse_ftp_time")
    okl = [l for l in ml if not impl_mlsd([l]).startswith("err")]
    eng.check([("mlsd", [rng.choice(okl) for _ in range(rng.randint(0, 5))]) for _ in range(2000 if q else 30000)], "MLSD-listings")
    faithful_mlsd(eng, rng, 2000 if q else 40000)
    mlsd_excluded_points(eng)
    # --- FEAT
    ft = list(dict.fromkeys([feat_text(rng) for _ in range(6000 if q else 100000)] + [garbage(rng) for _ in range(1000 if q else 20000)]))
    for t in ft:
        rep.nontrivial("feat", t)
    eng.check([("feat", t) for t in ft], "FEAT")
    faithful_feat(eng, rng, 1000 if q else 20000)


def epoch(y, m, d, h=0, mi=0, s=0):
    import calendar

    return calendar.timegm((y, m, d, h, mi, s))


def faithful_lines(eng, rng, year, n):
    """render a LIST line from chosen values and demand exactly those values back (oracle (b))."""
    from fs.permissions import Permissions

    cases, expect = [], []
    perms_all = list(perm_strings())
    for _ in range(n):
        if rng.random() < 0.6:
            ty = rng.choice(TYPES)
            perms = rng.choice(perms_all)
            suffix = rng.choice(["", ".", "+"])
            uid, gid = rng.choice(UIDS[:9]), rng.choice(UIDS[:9])
            size = rng.choice([0, 1, 10, 4096, 2 ** 40, 10 ** 25])
            mon = rng.randrange(1, 13)
            yy = rng.choice([1970, 1999, 2000, 2020, 2024, 2038, 9999, 1901])
            if rng.random() < 0.5:
                day = rng.randint(1, [31, 29 if (yy % 4 == 0 and (yy % 100 != 0 or yy % 400 == 0)) else 28, 31, 30, 31, 30, 31, 31, 30, 31, 30, 31][mon - 1])
                last, when = "%04d" % yy, epoch(yy, mon, day)
            else:
                day = rng.randint(1, [31, 28, 31, 30, 31, 30, 31, 31, 30, 31, 30, 31][mon - 1])
                hh, mm = rng.randrange(24), rng.randrange(60)
                last, when = "%02d:%02d" % (hh, mm), epoch(year, mon, day, hh, mm)
            name = rng.choice(["file.txt", "my file", "日本 語.txt", "αβ", "a->b", "x -> y", "\U0001f600", "trail "])
            shown = name
            if ty == "l":
                name = rng.choice(["lnk", "my link", "日"])
                shown = name + " -> " + rng.choice(["target", "/x/y z", "a -> b"])
            line = "%s%s%s %3d %-8s %-8s %8d %s %s %s %s" % (ty, perms, suffix, rng.randint(1, 99), uid, gid, size, MONTHS[mon - 1],
                                                            rng.choice(["%2d", "%02d", "%d"]) % day, last, shown)
            isdir = ty in "dl"
            want = "ok " + " ".join(["I", hx(name), "1" if isdir else "0", str(size), str(when), hxlist(Permissions.parse(perms).dump()), hx(uid), hx(gid), hx(line)])
        else:
            d, mo, yy = rng.randint(1, 28), rng.randint(1, 12), rng.choice([0, 18, 68, 69, 99])
            full = 2000 + yy if yy <= 68 else 1900 + yy
            hh, mm = rng.randrange(24), rng.randrange(60)
            if rng.random() < 0.5:
                tt = "%02d:%02d%s" % ((hh % 12) or 12, mm, ("AM" if hh < 12 else "PM") if rng.random() < 0.7 else ("am" if hh < 12 else "pm"))
            else:
                tt = "%02d:%02d" % (hh, mm)
            isdir = rng.random() < 0.4
            size = rng.choice([0, 9276, 10 ** 12])
            name = rng.choice(["images", "logo.gif", "my docs", "日本", " x", "é"])
            line = "%02d-%02d-%02d  %s  %s %s" % (d, mo, yy, tt, "     <DIR>         " if isdir else "%19d" % size, name)
            want = "ok " + " ".join(["I", hx(name.lstrip()) if False else hx(name.lstrip(" ")), "1" if isdir else "0", "~" if isdir else str(size), str(epoch(full, mo, d, hh, mm)), "~", "~", "~", hx(line)])
        cases.append(("line", (line, year)))
        expect.append(want)
    eng.rep.sample({"line": cases[0][1][0], "parsed": impl_line(cases[0][1][0])})
    eng.check(cases, "LIST-from-parts", expect)


def independent_perm_names(perms):
    """the permissions a 9-character `ls -l` field states (written without fs.permissions)"""
    names = []
    for who, chunk in zip("ugo", (perms[0:3], perms[3:6], perms[6:9])):
        if chunk[0] == "r":
            names.append(who + "_r")
        if chunk[1] == "w":
            names.append(who + "_w")
        x = chunk[2]
        if x in "xst":
            names.append(who + "_x")
        if x in "sS" and who == "u":
            names.append("setuid")
        if x in "sS" and who == "g":
            names.append("setguid")
        if x in "tT" and who == "o":
            names.append("sticky")
    return sorted(names)


def oracle_list_permissions(eng, rng):
    """'for every well-formed line return exactly the ... permissions ... it states': the
    permission field decoded independently vs what fs._ftp_parse returns"""
    from fs import _ftp_parse as F

    rep = eng.rep
    fields = [p for p in perm_strings()]
    rng.shuffle(fields)
    bad_special = bad_plain = 0
    first = None
    for perms in fields[:600]:
        line = "-%s   1 u g 10 Jan 01 2020 f" % perms
        info = F.parse_line(line)
        rep.evaluations += 1
        got = sorted((info.raw if hasattr(info, "raw") else info).get("access", {}).get("permissions", [])) if info is not None else None
        want = independent_perm_names(perms)
        if got != want:
            special = any(c in perms for c in "sStT")
            if special:
                bad_special += 1
                first = first or (line, got, want)
            else:
                bad_plain += 1
                rep.violation({"kind": "line", "arg": [line, current_year()], "impl": got, "expected": want},
                              "LIST line %r: permissions %r, the field states %r" % (line, got, want), found_input=True,
                              signature="C20/line/unfaithful/permissions")
    rep.extra["list_special_permission_fields_wrong"] = bad_special
    if first is not None:
        rep.violation({"kind": "line", "arg": [first[0], current_year()], "impl": first[1], "expected": first[2]},
                      "LIST line %r: permissions %r, the field states %r" % first, found_input=True,
                      signature="C20/line/unfaithful/permissions-special-bits")


def oracle_garbage_skipped(eng, lists):
    """parse(lines) == [parse_line(l) for non-blank l, dropping None] on the real code"""
    from fs import _ftp_parse as F

    rep = eng.rep
    for ls in lists:
        try:
            want = [r for r in (F.parse_line(l) for l in ls if l.strip()) if r is not None]
            got = F.parse(ls)
        except ValueError:
            continue
        rep.evaluations += 1
        if got != want and len(rep.violations) < MAXVIOL:
            rep.violation({"kind": "list", "arg": [ls, current_year()], "impl": repr(got)[:300], "expected": repr(want)[:300]},
                          "parse(lines) is not the parse_line results of the non-blank lines", found_input=True, signature="C20/parse/garbage-skipped")


# names an MLSD line can state (WFName + NoEol of FsModel/FtpParse.lean, written independently): anything
# but "", names containing "/", "." and "..", and names ending with CR / LF (the line terminator)
FAITHFUL_MLSD_NAMES = ["name", "a b", "日本", "x.y", "\xe9", "a;b", "k=v", "a; b=c", " lead", "trail ", "  both  ", ";", "=", " ", "  ", "type=dir;",
                       "type=dir; x", "size=7; modify=19990101000000; n", "a\rb", "a\nb ", "tab\t", "\tx", "n\xa0", "\xa0", ". ", " .", ".. ", "...", "X.Y",
                       "MiXeD CaSe;=", "\\", "a\\b", "*?[]", "\U0001f600 ;", "　x　", "a=b; c=d; e", "-> x", "x;", "x; y"]


def name_without_facts_part(name):
    """`not sep or (facts_text and not facts_text.endswith(';'))` of a text, written from RFC 3659's
    `entry = [ facts ] SP pathname`: can ` name` (no facts) be told from `facts SP pathname`?"""
    if " " not in name:
        return True
    head = name.split(" ")[0]
    return head != "" and not head.endswith(";")


def faithful_mlsd(eng, rng, n):
    """render an MLSD / MLST line from chosen values and demand exactly those values back"""
    cases, expect = [], []
    for i in range(n):
        name = FAITHFUL_MLSD_NAMES[i % len(FAITHFUL_MLSD_NAMES)] if i < 4 * len(FAITHFUL_MLSD_NAMES) else rng.choice(FAITHFUL_MLSD_NAMES)
        eol = rng.choice(["", "", "\r\n", "\n", "\r", "\n\r\n"])
        lead = rng.choice(["", "", " "])  # MLSD form / MLST reply form
        if rng.random() < 0.08 and name_without_facts_part(name):
            # an entry without facts: `SP name` (or the bare name): a file of size 0
            cases.append(("mlsd", [rng.choice([" ", ""]) + name + eol]))
            expect.append("ok 1 " + " ".join(["M", hx(name), "0", alist([]), "0", "~", "~"]))
            continue
        ty = rng.choice(["dir", "file", None, "cdir", "pdir", "OS.unix=slink:/foo"])
        size = rng.choice([None, 0, 123, 10 ** 15])
        sizd = rng.choice([None, 7])
        y, mo, d, hh, mi, ss = rng.choice([1970, 2020, 2038, 9999, 1]), rng.randint(1, 12), rng.randint(1, 28), rng.randrange(24), rng.randrange(60), rng.randrange(60)
        facts = []
        if ty is not None:
            facts.append((rng.choice(["type", "Type", "TYPE"]), ty))
        if size is not None:
            facts.append((rng.choice(["size", "Size"]), str(size)))
        if sizd is not None:
            facts.append(("sizd", str(sizd)))
        has_m, has_c = rng.random() < 0.7, rng.random() < 0.3
        stamp = "%04d%02d%02d%02d%02d%02d" % (y, mo, d, hh, mi, ss)
        if has_m:
            facts.append((rng.choice(["modify", "Modify"]), stamp + rng.choice(["", ".123"])))
        if has_c:
            facts.append(("create", stamp))
        if rng.random() < 0.3:
            facts.append((rng.choice(["media-type", "UNIX.mode", "\xc9"]), rng.choice(["a=b", "0755", "", "==", "\xe9"])))
        facts.append(("unique", "801g4804045"))
        rng.shuffle(facts)
        line = lead + "".join("%s=%s;" % kv for kv in facts) + " " + name + eol
        if ty not in ("dir", "file", None):
            cases.append(("mlsd", [line]))
            expect.append("ok 0")
            continue
        when = epoch(y, mo, d, hh, mi, ss)
        fl = [(k.lower(), v) for k, v in facts]
        want_size = size if size is not None else (sizd if sizd is not None else 0)
        want = "ok 1 " + " ".join(["M", hx(name), "1" if ty == "dir" else "0", alist(fl), str(want_size), str(when) if has_m else "~", str(when) if has_c else "~"])
        cases.append(("mlsd", [line]))
        expect.append(want)
    eng.rep.sample({"mlsd": cases[0][1][0], "parsed": impl_mlsd(cases[0][1])})
    for c in cases:
        eng.rep.nontrivial("mlsd-parts", c[1][0])
    eng.check(cases, "MLSD-from-parts", expect)


MLSD_EXCLUDED_POINTS = [
    # (hypothesis of mlsd_roundtrip / mlsd_nofacts_roundtrip that is violated, line, the name the line
    # "states") — the Lean file has a `…_counterexample` theorem for each; the real parser must agree with
    # the model and must NOT list the entry under the stated name
    ("name contains '/'", "type=file; a/b", "a/b"),
    ("name ends with '/'", "type=dir; d/", "d/"),
    ("name is '/'", "type=dir; /", "/"),
    ("empty name", "type=file; ", ""),
    ("name is '.'", "type=dir; .", "."),
    ("name is '..'", "type=dir; ..", ".."),
    ("name ends with CR", "type=file; a\r", "a\r"),
    ("name ends with LF CR LF", "type=file; a\n\r\n", "a\n\r\n"),
    ("space inside a fact value", "type=dir;x=a b; n", "n"),
    ("space between facts", "type=dir;x=a; b; n", "n"),
    ("no facts and the name starts with a blank", "  x", " x"),
    ("no facts and the name reads as 'facts SP name'", " a; b", "a; b"),
]


def mlsd_excluded_points(eng):
    rep = eng.rep
    out, cases = [], []
    for why, line, stated in MLSD_EXCLUDED_POINTS:
        got = impl_mlsd([line])
        toks = got.split(" ")
        listed = vlib.unhx(toks[3]) if got.startswith("ok 1 M ") else None
        cases.append(("mlsd", [line]))
        out.append({"excluded_by": why, "line": line, "stated_name": stated, "real_parser_lists": listed, "real_parser": got})
        if listed == stated and len(rep.violations) < MAXVIOL:
            rep.violation({"kind": "mlsd", "arg": [line]},
                          "hypothesis of mlsd_roundtrip (%s) is not needed on the real parser: the model is too strict here" % why,
                          found_input=False, signature="C20/mlsd/name-hypothesis/" + why)
    eng.check(cases, "MLSD-excluded-points")
    rep.extra["mlsd_excluded_points"] = out


def faithful_feat(eng, rng, n):
    cases, expect = [], []
    for _ in range(n):
        feats = {}
        for _i in range(rng.randint(0, 6)):
            feats[rng.choice(["MDTM", "MLST", "UTF8", "REST", "SIZE", "TVFS", "LANG", "\xc9"])] = rng.choice(["", "STREAM", "type*;size*;modify*;", "EN*", "a  b"])
        nl = rng.choice(["\n", "\r\n"])
        text = "211-Features:" + nl + "".join(" %s%s%s" % (k, " " + v if v else "", nl) for k, v in feats.items()) + "211 End" + rng.choice(["", nl])
        cases.append(("feat", text))
        expect.append("ok " + alist(feats.items()))
    eng.rep.sample({"feat": cases[0][1], "parsed": impl_feat(cases[0][1])})
    eng.check(cases, "FEAT-from-parts", expect)


# ----------------------------------------------------------------------------- run


def run(rep, tier, seed, deep=False):
    os.environ["TZ"] = "UTC"
    time.tzset()
    drv = vlib.Driver()
    eng = Engine(rep, drv)
    rng = vlib.rng_for(seed, "c20")
    rep.rule = (
        "differential execution of the compiled Lean model (FsModel.Parse, FsModel.FtpParse) and the real parsers on the same "
        "inputs, replies compared as canonical strings: parse_fs_url / _RE_FS_URL groups / Registry.open on every string of "
        "length <= 6 over 'a:/@!?%=' (thorough: + every 5th of length 7), all short strings over two richer alphabets, random "
        "unicode; unquote/quote/url_quote on exhaustive and random (in)valid UTF-8 escapes; URLs built from random part tuples "
        "must parse back to the parts; LIST lines from the grammar (all 4096 permission strings x suffix, both date forms, "
        "12/24h), single/double mutations, truncations, latin-1 garbage, 4300/4301-digit sizes; MLSD / MLST lines "
        "('facts SP pathname': names with ';', '=', outer blanks, CR/LF, lines without facts / without a space / with a facts part "
        "not ending in ';', every pool name x with/without facts x line terminator), fact tables, FEAT replies likewise; int(), str.strip/lower/splitlines, character classes, calendar arithmetic directly. "
        "evaluations = single parser calls compared; programs = inputs; distinct_nontrivial = distinct URL/LIST/MLSD/FEAT inputs "
        "containing '://' resp. generated from a grammar or mutated"
    )
    rep.assumptions = [
        "Python re, time.strptime (C locale), calendar.timegm, datetime, urllib.parse.unquote/quote/parse_qs, int(), str methods are "
        "external: each is re-stated in the model (regex -> explicit tokeniser, strptime -> field grammar + date validation, "
        "timegm -> days-from-civil, unquote -> UTF-8 decoder with CPython's replacement rule) and validated differentially here",
        "character classes (\\s \\d \\w isdigit lower splitlines) are exact for U+0000-U+00FF and a few letter blocks; generators "
        "only emit characters on which the start-up table check passes (thorough reports the size of the rest)",
        "unicodedata.normalize('NFC') is applied by the harness to the model's name (not modelled)",
        "TZ=UTC; time.localtime().tm_year is read once and passed to the model as currentYear",
        "lone surrogates are outside Str = List Char; generators never emit them",
        "totality of the implementation is validated on the explored inputs only (theorems are about the model)",
    ]
    rep.trusted_base = [
        "Lean 4.33.0 kernel + elaborator (thorough: leanchecker replays FsProofs.C20)",
        "axioms allowed: propext, Classical.choice, Quot.sound (audited per theorem)",
        "hand-written models FsModel/Parse.lean, FsModel/FtpParse.lean, tied to the repository by this run",
        "harness generators/canonicalisers (harness/props/c20.py) and the compiled Lean driver",
        "decide +kernel only in three closed `example`s (concrete evaluation)",
    ]
    run_urls(eng, tier, rng, deep)
    run_ftp(eng, tier, vlib.rng_for(seed, "c20-ftp"), deep)


def replay(rep, case):
    """re-run one recorded case (a replay file written by this check, or the `replay` object of a
    known-finding entry) on the model and on the real code; exit status 1 if it still fails."""
    os.environ["TZ"] = "UTC"
    time.tzset()
    c = case.get("case", case)
    kind, arg = c["kind"], c["arg"]
    if kind in ("line", "time.linux", "time.nt"):
        arg = (arg[0], current_year())
    elif kind == "list":
        arg = (list(arg[0]), current_year())
    elif kind in ("epoch", "open"):
        arg = tuple(arg)
    cs = (kind, arg)
    drv = vlib.Driver()
    model = drv.batch([request(cs)])[0]
    if kind in ("line", "list"):
        model = nfc_fix(model)
    got = impl(cs)
    print("model:", model[:400])
    print("impl: ", got[:400])
    bad = []
    if is_undocumented(cs, got):
        bad.append("undocumented exception (%s)" % signature_of(cs, got))
    if model != got:
        bad.append("model and implementation disagree")
    if c.get("expected") not in (None, got):
        bad.append("does not return the parts the input was built from (expected %s)" % c["expected"][:300])
    print("still failing: " + "; ".join(bad) if bad else "passes now")
    return 1 if bad else 0
