"""Reflection helpers shared by C04 and C18: "every public method, with arguments synthesised
from its signature" (DESIGN.md section 4.5), outcome canonicalisation, storage snapshots and
the rows of the generated guard table as the compiled Lean model reports them."""
from __future__ import annotations

import datetime
import inspect
import io
import itertools
import os

import fsharness as H

PATH_PARAMS = {"path", "dir_path", "src_path", "dst_path"}
TEXT_METHODS = {"writetext", "appendtext", "settext"}
WRITE_MODES = ["w", "a", "r+", "x", "wb", "ab", "w+", "xb"]
READ_MODES = ["r", "rb"]


class Skip(Exception):
    """the signature has a required parameter the synthesiser knows nothing about"""


def public_names(obj):
    """dir(obj), public, callable or a property of the class (walk, glob)"""
    out = []
    for n in dir(obj):
        if n.startswith("_"):
            continue
        cattr = getattr(type(obj), n, None)
        if isinstance(cattr, property):
            out.append(n)
            continue
        try:
            v = getattr(obj, n)
        except Exception:
            out.append(n)          # reading the attribute itself fails: still part of the API
            continue
        if callable(v):
            out.append(n)
    return out


def is_property(obj, name):
    return isinstance(getattr(type(obj), name, None), property)


def signature_of(obj, name):
    try:
        return inspect.signature(getattr(obj, name))
    except (TypeError, ValueError):
        return None


# Argument values are kept as JSON-able *specs* so that a case can be written to a replay file:
#   plain JSON values, or {"$": "bytes", "v": latin-1 text} / {"$": "bytesio", "v": ...} /
#   {"$": "datetime", "v": [y, m, d, h, mi, s]} / {"$": "memfs"} / {"$": "stringio"}


def materialise(spec):
    if isinstance(spec, dict) and "$" in spec:
        k = spec["$"]
        if k == "bytes":
            return spec["v"].encode("latin-1")
        if k == "bytesio":
            return io.BytesIO(spec["v"].encode("latin-1"))
        if k == "stringio":
            return io.StringIO()
        if k == "datetime":
            return datetime.datetime(*spec["v"], tzinfo=datetime.timezone.utc)
        if k == "memfs":
            from fs.memoryfs import MemoryFS
            return MemoryFS()
        raise ValueError(spec)
    return spec


def materialise_kw(kw):
    return {k: materialise(v) for k, v in kw.items()}


EXTRA_KW = {"tree": {"file": {"$": "stringio"}}}


def arg_variants(obj, name, paths, modes, limit=10, rng=None):
    """list of argument specs (dict param -> spec) for method `name` of `obj`; `paths` = dict
    with keys file / dir / missing / root / deep (a missing path below an existing directory)"""
    sig = signature_of(obj, name)
    if sig is None:
        raise Skip("no signature")
    choices = []
    for p in sig.parameters.values():
        if p.kind in (p.VAR_POSITIONAL, p.VAR_KEYWORD):
            continue
        n = p.name
        if n in PATH_PARAMS:
            if n == "dst_path":
                opts = [paths["missing"], paths["file"], paths["dir"], paths["deep"]]
            elif n == "src_path":
                opts = [paths["file"], paths["dir"], paths["missing"]]
            else:
                opts = [paths["file"], paths["dir"], paths["missing"], paths["root"], paths["deep"]]
        elif n == "mode":
            opts = list(modes)
        elif n in ("data", "contents"):
            opts = ["text-data"] if name in TEXT_METHODS else [{"$": "bytes", "v": "bytes-data"}]
        elif n == "text":
            opts = ["text-data"]
        elif n == "file":
            opts = [{"$": "bytesio", "v": "" if name in ("download", "getfile") else "from-file"}]
        elif n == "info":
            opts = [{"details": {"modified": 1000000.0, "accessed": 1000000.0}}]
        elif n in ("accessed", "modified"):
            opts = [{"$": "datetime", "v": [2001, 2, 3, 4, 5, 6]}]
        elif n in ("wipe", "overwrite", "create", "recreate"):
            opts = [True, False]
        elif n == "patterns":
            opts = [["*"]]
        elif n == "pattern":
            opts = ["**/*", "*"]
        elif n == "name":
            opts = ["md5" if name == "hash" else "a"]
        elif n == "fs":
            opts = [{"$": "memfs"}]
        elif p.default is not inspect.Parameter.empty:
            continue                      # leave the default
        else:
            raise Skip("parameter %r of %s" % (n, name))
        choices.append((n, opts))
    combos = list(itertools.product(*[o for _n, o in choices])) if choices else [()]
    if len(combos) > limit:
        if rng is not None:
            combos = [combos[0]] + rng.sample(combos[1:], limit - 1)
        else:
            step = len(combos) / float(limit)
            combos = [combos[int(i * step)] for i in range(limit)]
    out = []
    for c in combos:
        kw = {n: v for (n, _o), v in zip(choices, c)}
        kw.update(EXTRA_KW.get(name, {}))
        out.append(kw)
    return out


def outcome(fn):
    """run fn(); ("ok", value) | ("err", class name, exception)"""
    try:
        return ("ok", H.with_watchdog(fn, 10))
    except BaseException as e:  # noqa
        if isinstance(e, (KeyboardInterrupt, SystemExit)):
            raise
        return ("err", type(e).__name__, e)


def drain(v, bound=200):
    """consume an iterator/generator result (lazy methods only act when iterated)"""
    if v is None or isinstance(v, (str, bytes, dict, list, tuple, bool, int, float)):
        return v
    if hasattr(v, "read") or hasattr(v, "getinfo"):
        return v
    if hasattr(v, "__next__") or inspect.isgenerator(v):
        return list(itertools.islice(v, bound))
    return v


# ----------------------------------------------------------------------------- snapshots


def snap_fs(f, mtimes=True):
    """(tree with bytes, modified times) of a filesystem through its own query methods;
    None when it cannot be read"""
    t = H.snapshot(f)
    if t is None:
        return None
    out = []
    for e in t:
        m = None
        if mtimes:
            try:
                m = f.getinfo(e[1], namespaces=["details"]).raw.get("details", {}).get("modified")
            except Exception:
                m = "?"
        out.append(tuple(e) + (m,))
    return sorted(out)


def snap_dir(root):
    """a directory on disk: relative paths, bytes, mtimes (ns)"""
    out = []
    if not os.path.isdir(root):
        return None
    for dp, dns, fns in os.walk(root):
        dns.sort()
        for d in dns:
            p = os.path.join(dp, d)
            out.append(("D", os.path.relpath(p, root), os.stat(p).st_mtime_ns))
        for fn in sorted(fns):
            p = os.path.join(dp, fn)
            with open(p, "rb") as fh:
                out.append(("F", os.path.relpath(p, root), fh.read(), os.stat(p).st_mtime_ns))
    return sorted(out)


# ----------------------------------------------------------------------------- the model's table


class Table:
    """rows of the generated guard table, asked from the compiled Lean model"""

    def __init__(self, drv):
        self.drv = drv
        self.rows = {}
        self.classes = drv.batch(["guard.classes"])[0].split(",")
        names = drv.batch(["guard.names %s" % c for c in self.classes])
        self.names = {c: [n for n in ns.split(",") if n] for c, ns in zip(self.classes, names)}
        reqs = [(c, n) for c in self.classes for n in self.names[c]]
        for (c, n), line in zip(reqs, drv.batch(["guard.row %s %s" % cn for cn in reqs])):
            self.rows[(c, n)] = dict(kv.split("=", 1) for kv in line.split(" "))

    def row(self, cls, name):
        r = self.rows.get((cls, name))
        if r is None and cls not in self.names:
            return None
        if r is None:
            line = self.drv.batch(["guard.row %s %s" % (cls, name)])[0]
            r = dict(kv.split("=", 1) for kv in line.split(" "))
            r["absent"] = "1"
            self.rows[(cls, name)] = r
        return r

    def kind(self, name):
        for c in self.classes:
            r = self.rows.get((c, name))
            if r is not None:
                return r["kind"]
        line = self.drv.batch(["guard.row WrapFS %s" % name])[0]
        return dict(kv.split("=", 1) for kv in line.split(" "))["kind"]
