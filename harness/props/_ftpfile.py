"""C16 on FTPFS: `FTPFile` (fs/ftpfs.py) against io.FileIO, thorough tier only.

`FTPFile` is a stream adaptor over FTP data connections, not a random-access file: `read` = RETR from
`pos` (REST), `write` = STOR at `pos` (REST) or APPE, `seek` drops the connections, `truncate` downloads and
re-uploads, `tell` = a local counter.  Three usages work like a Python io file and are compared EXACTLY
(data, tell() after every call, final bytes): reading with absolute/relative seeks inside the file, writing a
file front to back, appending.  Outside them it deviates from io.FileIO in an enumerated set of classes —
each an open finding with its own signature `C16/known/ftpfile-<slug>` (findings/C16-ftpfs-ftpfile.md),
recognised by `classify` from the FIRST call whose observation differs, the reference state before that
call (bytes, position, closed — obtained by running the call prefix on real io.FileIO) and the calls made
before it.  A first difference that fits no class is a fresh violation `C16/FTPFS/<mode>/<call>`.

Sessions: every call sequence of length <= 2 and a seeded sample of length 3 over `alphabet(L)` (25 calls),
for the 8 binary modes x initial content {missing, b"", b"0123", b"ab\\ncd\\n\\nef"}; the file is created in
the server's directory through the OS before `openbin` and read back through the OS after `close`.
The MLSD variant runs all of them, the LIST variant every 4th (`openbin`'s getinfo and `seek(.., 2)`'s
getsize are the only places where the listing path matters to a file object).
"""
from __future__ import annotations

import itertools
import os

import vlib
import fsharness as H
from props import _ftp as F

MISSING = b"<<file does not exist>>"
INITS = [None, b"", b"0123", b"ab\ncd\n\nef"]
MODES = ["r", "r+", "w", "w+", "a", "a+", "x", "x+"]

READS = ("read", "readall", "readline", "readlines", "readinto", "next", "iter")
WRITES = ("write", "writelines")


def alphabet(L):
    return [("read", None), ("read", -1), ("read", 1), ("readall",), ("readline", None), ("readline", 0), ("readlines",),
            ("readinto", 2), ("write", b"X"), ("write", b""), ("writelines", (b"p\n", b"q")), ("seek", 0, 0), ("seek", 1, 0),
            ("seek", L + 1, 0), ("seek", -1, 1), ("seek", -1, 2), ("seek", 0, 2), ("tell",), ("truncate", None), ("truncate", 0),
            ("truncate", L + 1), ("flush",), ("close",), ("next",), ("iter",)]


def inits_for(mode):
    return [None, b"0123"] if "x" in mode else INITS


def sessions(rng, n3):
    """all sessions of length <= 2, then n3 sampled ones of length 3 (seeded)"""
    for mode in MODES:
        for init in inits_for(mode):
            A = alphabet(len(init or b""))
            for n in range(0, 3):
                for seq in itertools.product(A, repeat=n):
                    yield mode, init, seq
    for _ in range(n3):
        mode = rng.choice(MODES)
        init = rng.choice(inits_for(mode))
        A = alphabet(len(init or b""))
        yield mode, init, tuple(rng.choice(A) for _ in range(3))


# ----------------------------------------------------------------------------- running a session on FTPFile


class FtpTarget:
    """one backend (server + FTPFS) per worker; the file `f` is prepared / read back through the OS"""

    def __init__(self, kind):
        self.kind = kind
        self.b = H.make_backend(kind)
        self.path = os.path.join(self.b.root, "f")
        self.conn_errors = 0

    def close(self):
        self.b.close()

    def _prep(self, init):
        try:
            os.unlink(self.path)
        except FileNotFoundError:
            pass
        if init is not None:
            with open(self.path, "wb") as fh:
                fh.write(init)

    def _final(self):
        try:
            with open(self.path, "rb") as fh:
                return fh.read()
        except FileNotFoundError:
            return MISSING

    def run(self, c16, T, mode, init, ops):
        """the session trace in c16's format; connection-level trouble is retried on a new server"""
        for attempt in range(3):
            self._prep(init)
            try:
                res = H.with_watchdog(lambda: T._session(lambda: self.b.fs.openbin("f", mode), ops, self._final), 30)
            except H.Timeout:
                res = "err Leak:Timeout"
            if "RemoteConnectionError" not in res and "Leak:Timeout" not in res:
                return res
            # infrastructure? (a dead server, an exhausted port range ...) -> new server, same session
            self.conn_errors += 1
            healthy = F.server_healthy(self.b)
            try:
                self.b.close()
            except Exception:
                pass
            self.b = H.make_backend(self.kind)
            self.path = os.path.join(self.b.root, "f")
            if not healthy and attempt == 2:
                raise vlib.Infra("loopback FTP server (%s) keeps dying during C16 sessions" % self.kind)
        return res   # reproduces on three servers: judged like any other observation


# ----------------------------------------------------------------------------- classification of a first difference


def _flags(mode):
    return {"R": mode == "r" or "+" in mode, "W": mode != "r", "A": "a" in mode, "T": "w" in mode, "X": "x" in mode}


def _obs(x):
    o, _, t = x.partition("@")
    return o, t


def _since_last_seek(hist, ti=None):
    """calls made since the connections were last dropped (a seek that went through drops them)"""
    out = []
    for j, o in enumerate(hist):
        if o[0] == "seek" and not (ti is not None and j < len(ti) and ti[j].startswith(("E", "Leak"))):
            out = []
        else:
            out.append(o)
    return out


def classify(mode, init, ops, i, impl, ref, pre):
    """slug of the open finding that explains why call i (or the open verdict: i = -1; or only the final bytes:
    i = len(ops)) differs, else None.  `pre` = (bytes, pos, closed) of the io.FileIO reference before call i."""
    fl = _flags(mode)
    R, W, A, T = fl["R"], fl["W"], fl["A"], fl["T"]
    if i == -1:
        if init is None and mode in ("w+", "a+", "x+") and impl == "err ResourceNotFound" and ref.startswith("ok "):
            return "open-plus-mode-missing-file"
        return None
    ti, fi = _parse(impl)
    tr, fr = _parse(ref)
    if ti is None or tr is None:
        return None
    b, p, closed = pre
    hist = list(ops[:i])
    live = _since_last_seek(hist, ti)
    wrote_ever = W and any(o[0] in WRITES for o in hist)
    wrote_live = W and any(o[0] in WRITES for o in live)
    read_live = R and any(o[0] in READS and o != ("readline", 0) for o in live)
    trunc_ever = any(o[0] == "truncate" for o in hist)
    stale_truncate = T and bool(init) and not wrote_ever                      # 'w' did not truncate at open
    not_created = init is None and W and not wrote_ever and not trunc_ever     # 'w'/'a'/'x' did not create at open
    # a STOR stream that started at offset 0 (REST 0 = no REST: the server opens the file with 'wb')
    stor0 = False
    if W and not A:
        seg_has_write = False
        for j, o in enumerate(hist):
            if o[0] == "seek":
                seg_has_write = False
            elif o[0] in WRITES:
                if not seg_has_write:
                    pj = _pos_before(mode, init, tr, j)
                    if pj == 0:
                        stor0 = True
                seg_has_write = True

    if i == len(ops):
        # every call agreed; only the bytes left on disk differ
        return _classify_final(mode, init, ops, fl, fi, fr)
    op = ops[i]
    k = op[0]
    io_, it_ = _obs(ti[i])
    ro_, rt_ = _obs(tr[i])

    # (1) no closed check anywhere in FTPFile
    if closed and k != "close" and ro_ == "Eclosed":
        return "use-after-close"
    # (2) calls that misbehave on their own — the deviant value is part of the predicate
    if k == "readline" and op[1] == 0 and io_ == "Estop" and ro_ == "b-" and (it_ == rt_ or A):
        return "readline-zero-stopiteration" if it_ == rt_ else "append-position"
    if k == "seek" and ro_ == "Einvalid" and io_ == "n0" and it_ == "0":
        return "seek-negative-clamped"
    if k == "truncate" and not W and ro_ == "Enotpermitted" and io_.startswith("n"):
        return "truncate-on-read-only-handle"
    if k in READS and R and p > len(b) and io_ == "Leak:error_perm":
        return "rest-beyond-eof-raw-error-perm"
    if k in WRITES and W and not A and p > len(b) and io_ == "Leak:error_perm" and not read_live:
        return "rest-beyond-eof-raw-error-perm"
    if k == "readlines" and R and io_.startswith("L") and ro_.startswith("L") and it_ == rt_ \
            and io_[1:].split(",") == ([x for x in ro_[1:].split(",") if ro_ != "L"] + ["-"]):
        return "readlines-trailing-empty-line"
    # (3) append mode keeps a position of its own (starts at 0, advances by what was written)
    if A and it_ != rt_ and (io_ == ro_ or k in ("tell", "seek") or (tuple(op) == ("readline", 0) and io_.startswith("E"))):
        return "append-position"
    if A and k == "truncate" and op[1] is None and not closed and ro_.startswith("n"):
        return "append-truncate-none-at-position-0"
    if A and R and k in READS and init and not wrote_live:
        return "append-position"          # a+ reads from 0, io.FileIO from EOF
    # (4) one control connection, two transfers; transfers that outlive what they should not
    if (k in WRITES and read_live) or (k in READS and wrote_live and R):
        return "read-and-write-without-seek"
    if k in READS and R and read_live and any(o[0] == "truncate" for o in live):
        return "read-stream-survives-truncate"
    if stor0 and not wrote_live and (k in READS or k == "truncate" or (k == "seek" and op[2] == 2)):
        return "stor-at-offset-0-replaces-file"
    if stor0 and not wrote_live and k in WRITES and io_ == "Leak:error_perm" and p > 0:
        return "stor-at-offset-0-replaces-file"   # ... so the next REST lies beyond the (now shorter) file
    if k == "seek" and op[2] == 2 and wrote_live:
        return "size-queries-ignore-pending-write"
    # (5) read(None)
    if k == "read" and op[1] is None and R and io_ == "b-" and it_ == str(p) and ro_.startswith("b") and ro_ != "b-":
        return "read-none-returns-nothing"
    # (6) deferred create / truncate
    if not_created and k in ("seek", "truncate") and io_ == "Leak:ResourceNotFound":
        return "open-defers-create-truncate"
    if stale_truncate and (k in READS or k == "truncate" or (k == "seek" and op[2] == 2)):
        return "open-defers-create-truncate"
    # (7) seek() closes the data connection of an unfinished STOR/APPE and does not wait for the server's 226:
    #     what was written before the seek reaches the file a little later (a race; ~1 % of the runs under load)
    if _abandoned_write(hist, W) and (k in READS or k == "truncate" or (k == "seek" and op[2] == 2)):
        return "seek-abandons-pending-write-race"
    return None


def _abandoned_write(hist, W):
    seen_write = False
    for o in hist:
        if o[0] in WRITES and W:
            seen_write = True
        elif o[0] == "seek" and seen_write:
            return True
    return False


def _classify_final(mode, init, ops, fl, fi, fr):
    """all calls agree with io.FileIO (values and positions) but the bytes on disk afterwards do not"""
    R, W, A, T = fl["R"], fl["W"], fl["A"], fl["T"]
    any_write = any(o[0] in WRITES for o in ops)
    any_trunc = any(o[0] == "truncate" for o in ops)
    if not W:
        return None
    if not any_write and not any_trunc:
        # nothing was ever sent: 'w' did not truncate, 'w'/'a'/'x' did not create
        want = MISSING if init is None else init
        if fi == vlib.hx(want) and (init is None or T):
            return "open-defers-create-truncate"
        return None
    if R and any(o[0] in WRITES for o in ops) and any(o[0] in READS and o != ("readline", 0) for o in ops):
        seg_r = seg_w = False
        for o in ops:
            if o[0] == "seek":
                seg_r = seg_w = False
            elif o[0] in WRITES:
                seg_w = True
            elif o[0] in READS and o != ("readline", 0):
                seg_r = True
            if seg_r and seg_w:
                return "read-and-write-without-seek"
    if any_trunc and any_write:
        # truncate() re-uploads through a second connection while this handle's STOR stream / position live on
        return "truncate-mixed-with-writes"
    if any_trunc and T and init:
        # truncate(n) of a 'w' handle re-reads the content that open() should have discarded
        return "open-defers-create-truncate"
    if any_write and not A:
        # STOR with REST 0 replaces the whole file: a write at offset 0 loses everything behind the data sent
        return "stor-at-offset-0-replaces-file"
    return None


def _pos_before(mode, init, tr, j):
    """reference position before call j (from the tell() recorded after call j-1)"""
    if j == 0:
        return len(init or b"") if "a" in mode else 0
    t = tr[j - 1].split("@")[1]
    try:
        return int(t)
    except ValueError:
        return None


def _parse(line):
    if line.startswith("err "):
        return None, line
    body, final = line[3:].split(" | ")
    return ([] if body == "." else body.split(";")), final


def first_diff(impl, ref):
    ti, fi = _parse(impl)
    tr, fr = _parse(ref)
    if ti is None or tr is None:
        return -1
    for j, (x, y) in enumerate(zip(ti, tr)):
        if x != y:
            return j
    return len(ti)


def pre_state(T, mode, init, ops, i):
    """(bytes, pos, closed) of the reference before call i: the prefix, run on real io.FileIO"""
    pref = list(ops[:max(i, 0)])
    res = T.run("fileio", mode, init, pref)
    tr, fin = _parse(res)
    if tr is None:
        return (init or b""), 0, False
    b = vlib.unhxb(fin) if fin != "-" else b""
    closed = any(o[0] == "close" for o in pref)
    if tr:
        t = tr[-1].split("@")[1]
        p = int(t) if t not in ("-",) and not t.startswith("!") else 0
    else:
        p = len(init or b"") if "a" in mode else 0
    return b, p, closed


# ----------------------------------------------------------------------------- the check (called from c16.run, thorough tier)


def tolerate(c16, mode, ops, impl, ref):
    """C16's documented tolerance (IoRef.mayReject, see c16.py): readline(0) on a closed or unreadable handle
    and writelines([]) on a read-only handle may be REJECTED (closed / not permitted) instead of answered;
    such a call changes nothing, so the implementation's entry is replaced by the reference's."""
    ti, fi = _parse(impl)
    tr, fr = _parse(ref)
    if ti is None or tr is None or len(ti) != len(tr):
        return impl
    readable = mode == "r" or "+" in mode
    closed = False
    out = []
    for o, x, y in zip(ops, ti, tr):
        xo, xt = _obs(x)
        yo, yt = _obs(y)
        if x != y and xt == yt and not yo.startswith("E"):
            if tuple(o) == ("readline", 0) and ((closed and xo == "Eclosed") or (not readable and xo == "Enotpermitted")):
                x = y
            elif o[0] == "writelines" and len(o[1]) == 0 and mode == "r" and not closed and xo == "Enotpermitted":
                x = y
        out.append(x)
        if o[0] == "close":
            closed = True
    return c16.render(out, b"").rsplit(" | ", 1)[0] + " | " + fi


def judge_session(c16, col, T, X, mode, init, ops):
    """one session on one FTP variant against real io.FileIO; `col` collects like c16.Collect"""
    ops = list(ops)
    ref = T.run("fileio", mode, init, ops)
    impl = X.run(c16, T, mode, init, ops)
    if impl != ref:
        impl = tolerate(c16, mode, ops, impl, ref)
    col.evaluations += 2
    col.count("ftp/%s/sessions" % X.kind)
    if impl == ref:
        col.count("ftp/%s/agree:%s" % (X.kind, mode))
        tr, _ = _parse(ref)
        if tr is not None and any(not x.startswith("E") for x in tr):
            col.nontrivial(X.kind, mode, init, tuple(ops))
        return
    col.disagreements_checked += 1
    i = first_diff(impl, ref)
    slug = None
    if i == len(ops) and _abandoned_write(ops, mode != "r"):
        # only the bytes on disk differ and a seek() abandoned an unfinished transfer: did they arrive meanwhile?
        import time

        for _ in range(20):
            time.sleep(0.05)
            if vlib.hx(X._final()) == _parse(ref)[1]:
                slug = "seek-abandons-pending-write-race"
                break
    if slug is None:
        slug = classify(mode, init, ops, i, impl, ref, pre_state(T, mode, init, ops, i))
    call = c16.tok(ops[i]).split(":")[0] if 0 <= i < len(ops) else ("open" if i == -1 else "final-bytes")
    case = c16.case_of(X.kind, mode, init, ops, impl=impl, oracle=ref, first_diff=i)
    note = "%s file object, mode %r on %r, calls %s: got %s, io.FileIO gives %s" % (X.kind, mode, init, [c16.tok(o) for o in ops], impl, ref)
    if slug:
        col.count("ftp/known:" + slug)
        col.violation(case, note, found_input=True, signature="C16/known/ftpfile-" + slug)
    else:
        col.count("ftp/unexplained")
        col.violation(case, note + " — the first difference (call %d: %s) fits none of the recorded FTPFile deviation classes" % (i, call),
                      found_input=True, signature="C16/FTPFS/%s/%s" % (mode, call))


def _shard(args):
    import importlib

    seed, deep, k, n, n3, prop_id, open_findings = args
    c16 = importlib.import_module("props.c16")
    col = c16.Collect(prop_id, open_findings)
    T = c16.Targets()
    X = {kind: FtpTarget(kind) for kind in F.KINDS}
    try:
        rng = vlib.rng_for(seed, "c16-ftp")
        for idx, (mode, init, ops) in enumerate(sessions(rng, n3)):
            if idx % n != k:
                continue
            judge_session(c16, col, T, X["ftp"], mode, init, ops)
            if (idx // n) % 4 == 0:
                judge_session(c16, col, T, X["ftp-nomlsd"], mode, init, ops)
            col.programs += 1
        col.lost = T.lost
        col.conn_errors = sum(x.conn_errors for x in X.values())
    finally:
        T.close()
        for x in X.values():
            x.close()
    return col


def run_ftp(c16, rep, seed, deep):
    import time

    t0 = time.time()
    workers = int(os.environ.get("VERIF_FTP_WORKERS", "4"))
    n3 = 12000 * (2 if deep else 1)
    args = [(seed, deep, k, workers, n3, rep.prop_id, rep.open_findings) for k in range(workers)]
    try:
        if workers == 1:
            cols = [_shard(args[0])]
        else:
            import multiprocessing

            with multiprocessing.get_context("fork").Pool(workers) as pool:
                cols = pool.map(_shard, args)
    finally:
        H.cleanup_scratch()     # the servers' directories live under H.SCRATCH_ROOT (shared with the forked workers)
    if sum(getattr(c, "lost", 0) for c in cols) and any(c.violations for c in cols):
        raise vlib.Infra("the scratch directory was removed by a concurrent run while FTP sessions were executing")
    for col in cols:
        rep.evaluations += col.evaluations
        rep.programs += col.programs
        rep.disagreements_checked += col.disagreements_checked
        rep.distinct |= col.distinct
        for key, v in col.histogram.items():
            rep.count(key, v)
        for (case, note, found_input, signature) in col.calls:
            if rep.match_known(signature) is not None or len(rep.violations) < c16.MAXVIOL:
                rep.violation(case, note, found_input=found_input, signature=signature)
    rep.extra["ftp_seconds"] = round(time.time() - t0, 1)
    rep.extra["ftp_workers"] = workers
    rep.extra["ftp_connection_errors_retried"] = sum(getattr(c, "conn_errors", 0) for c in cols)
    rep.extra["ftp_sessions"] = {k[4:]: v for k, v in rep.histogram.items() if k.startswith("ftp/") and k.endswith("/sessions")}


def replay(c16, T, c):
    """re-run a recorded FTP session: prints the traces and the class; 0 when it agrees with io.FileIO"""
    init = None if c["init"] is None else c["init"].encode("latin-1")
    ops = c16.ops_from_case(c)
    X = FtpTarget(c["target"])
    try:
        impl = X.run(c16, T, c["mode"], init, ops)
    finally:
        X.close()
    ref = T.run("fileio", c["mode"], init, ops)
    i = first_diff(impl, ref)
    print("calls     :", [c16.tok(o) for o in ops])
    print("%-10s:" % c["target"], impl)
    print("io.FileIO :", ref)
    if impl != ref:
        print("first difference at call", i, "class:", classify(c["mode"], init, ops, i, impl, ref, pre_state(T, c["mode"], init, ops, i)))
    return 0 if impl == ref else 1
