"""C17 — MountFS and MultiFS route every call by their documented rule.

Theorems: lean/FsProofs/C17.lean over FsModel/Mount.lean, FsModel/Multi.lean (transcriptions
of fs/mountfs.py, fs/multifs.py and of the fs/base.py defaults they inherit, as programs over
the primitives the classes define).

Correspondence: member filesystems are wrapped in logging proxies (`LogFS`); the composite
itself is a reflection-generated subclass that also logs every call of a method the class
defines (`TOP` entries).  For random configurations x random histories, every step is checked
from the identical pre-state:
  (a) the log of (member, method, path) received by the members == the model's trace,
  (b) every member's tree after the call == the model's, and — the property itself, evaluated
      on the real members without the model — no member outside the routed ones changes, no
      call reaches a member that does not own the path,
  (c) the result (value / exception class) == the model's.
Operations: the reference operations of fsharness, plus `scandir`, `validatepath`, `readtext`, `download`,
`writetext` and `open <path> <mode> [data]` (open, write the data once through the file object, close; text and
binary flavours of r, r+, w, a, x).
Exhaustive part: `MountFS._delegate` / `mount` against the model for all paths of <= 4
components over {a, ab, b, .., .} and all mount tables over {/a, /ab, /a/b, /};
`MultiFS.iterate_fs` for all priority vectors over {-1, 0, 1} up to length 4.
quick: 1000 + 1000 configurations x 25 operations (~40 s); thorough: 5000 + 5000 x 40 (~5 min).
"""
from __future__ import annotations

import itertools

import vlib
import fsharness as H
from vlib import hx, hxlist

LEANCHECKER_MODULES = ["FsProofs.C17", "FsProofs.Lemmas.RouteLemmas"]

NAMES = ["a", "ab", "b", "c", "d.e", " f"]
BULK = {"removetree", "movedir", "copydir"}
CREATING = {"makedir", "makedirs", "writebytes", "appendbytes", "create", "touch", "settimes", "copy", "writetext"}
READS = {"exists", "isdir", "isfile", "getsize", "gettype", "getinfo", "readbytes", "readtext", "download"}
# `open(path, mode)`: r, r+, w, a, x in text and binary flavours (and a few strings Mode() rejects)
OPEN_MODES = ["r", "rb", "rt", "r+", "r+b", "rb+", "r+t", "w", "wb", "wt", "w+", "a", "ab", "at", "a+b", "x", "xb", "xt",
              "rw", "z", "", "+r", "rbt"]
MUTATING_METHODS = {
    "makedir", "makedirs", "remove", "removedir", "removetree", "setinfo", "settimes", "upload", "writebytes",
    "writetext", "writefile", "appendbytes", "appendtext", "create", "touch", "move", "copy", "movedir",
    "copydir", "setbytes", "settext", "setbinfile", "setfile",
}
CREATING_METHODS = MUTATING_METHODS - {"remove", "removedir", "removetree"}
NOLOG = {"isclosed", "check", "getmeta", "lock", "desc", "tree", "match", "match_glob", "hassyspath", "hasurl"}


def writable_mode(mode):
    return isinstance(mode, str) and any(c in mode for c in "wax+")


# ----------------------------------------------------------------------------- proxies

_CLASSES = {}


def classes():
    """LogFS (member proxy) and the logging subclasses of MountFS / MultiFS, built by reflection
    so that methods added later are logged too."""
    if _CLASSES:
        return _CLASSES
    from fs.base import FS
    from fs.mountfs import MountFS
    from fs.multifs import MultiFS

    def path_of(a, kw):
        for x in a:
            if isinstance(x, str):
                return x
            break
        for k in ("path", "src_path", "dir_path"):
            if k in kw:
                return kw[k]
        return None

    def mode_of(name, a, kw):
        if name in ("open", "openbin"):
            if "mode" in kw:
                return kw["mode"]
            if len(a) > 1 and isinstance(a[1], str):
                return a[1]
            return "r"
        return None

    class LogFS(FS):
        """WrapFS-like proxy: records (member, method, path, mode) of every call it receives from the
        composite, then forwards it unchanged."""

        def __init__(self, inner, ident, log):
            super(LogFS, self).__init__()
            self._inner, self._ident, self._log = inner, ident, log
            self._meta = inner._meta

        def __del__(self):
            pass

        def __repr__(self):
            return "LogFS(%d)" % self._ident

    def forward(name):
        def m(self, *a, **kw):
            if name not in NOLOG:
                self._log.append((self._ident, name, path_of(a, kw), mode_of(name, a, kw)))
            return getattr(self._inner, name)(*a, **kw)

        m.__name__ = name
        return m

    for name in dir(FS):
        if name.startswith("_"):
            continue
        attr = getattr(FS, name)
        if not callable(attr) or isinstance(attr, type):
            continue
        setattr(LogFS, name, forward(name))
    LogFS.__abstractmethods__ = frozenset()

    def logged(cls, skip):
        ns = {}
        for name, fn in cls.__dict__.items():
            if name.startswith("_") or not callable(fn) or name in skip:
                continue

            def mk(name=name, fn=fn):
                def m(self, *a, **kw):
                    self._toplog.append(("TOP", name, path_of(a, kw), mode_of(name, a, kw)))
                    return fn(self, *a, **kw)

                m.__name__ = name
                return m

            ns[name] = mk()
        ns["__del__"] = lambda self: None
        return type("Logged" + cls.__name__, (cls,), ns)

    _CLASSES["LogFS"] = LogFS
    _CLASSES["Mount"] = logged(MountFS, {"mount", "desc"})
    _CLASSES["Multi"] = logged(MultiFS, {"add_fs", "get_fs", "iterate_fs", "which"})
    return _CLASSES


# ----------------------------------------------------------------------------- trees / configs


def tree_json(snap):
    return [[e[0], e[1]] + ([e[2].decode("latin-1")] if e[0] == "F" else []) for e in snap]


def tree_unjson(t):
    return [tuple([e[0], e[1]] + ([e[2].encode("latin-1")] if e[0] == "F" else [])) for e in t]


def fill(f, snap):
    for e in snap:
        if e[0] == "D":
            f.makedirs(e[1], recreate=True)
        else:
            f.writebytes(e[1], e[2])


def gen_tree(rng, names=NAMES, maxn=6):
    """arbitrary pre-existing content: a small random tree (entries in creation order)"""
    out, dirs = [], [""]
    taken = set()
    for _ in range(rng.randint(0, maxn)):
        d = rng.choice(dirs)
        n = rng.choice(names)
        p = (d + "/" + n) if d else n
        if p in taken or p.count("/") > 2:
            continue
        taken.add(p)
        if rng.random() < 0.5:
            out.append(("D", p))
            dirs.append(p)
        else:
            out.append(("F", p, rng.choice([b"", b"x", b"member-data", bytes([rng.randrange(256)])])))
    return out


MOUNT_SHAPES = [
    [], ["/a"], ["/"], ["a", "b"], ["/a", "/ab"], ["/ab", "/a"], ["/a/b", "/a"], ["/a", "/a/b"], ["/a/b", "/a", "/ab"],
    ["/a", "/"], ["/", "/a"], ["a/b", "c", "/"], ["/a/b/c", "/a/b", "/a"], ["b/../a", "ab/"], ["/a", "/a"], ["/c", "/a/b"],
    ["/a/ab", "/ab/a", "/b"],
]


def gen_mount_config(rng):
    if rng.random() < 0.75:
        pts = list(rng.choice(MOUNT_SHAPES))
    else:
        pool = ["/a", "/ab", "/a/b", "/", "/b", "/a/b/c", "c/d.e", "/ab/a"]
        pts = [rng.choice(pool) for _ in range(rng.randint(0, 3))]
    return {
        "kind": "mount",
        "auto_close": rng.random() < 0.7,
        "trees": [tree_json(gen_tree(rng))] + [tree_json(gen_tree(rng)) for _ in pts],
        "mounts": pts,
    }


def gen_multi_config(rng):
    n = rng.randint(1, 4)
    names = ["m%d" % i for i in range(n)]
    if n > 1 and rng.random() < 0.12:
        names[-1] = names[0]  # re-adding a name replaces the entry (dict assignment)
    wmode = rng.random()
    adds = []
    for i in range(n):
        prio = rng.choice([0, 0, 0, 1, -1, 5])
        write = (wmode < 0.7 and i == 0) if wmode < 0.35 else (wmode < 0.7 and rng.random() < 0.4)
        adds.append([names[i], prio, bool(write)])
    if 0.35 <= wmode < 0.7 and not any(a[2] for a in adds):
        adds[rng.randrange(n)][2] = True
    return {
        "kind": "multi",
        "auto_close": rng.random() < 0.7,
        "trees": [tree_json(gen_tree(rng)) for _ in range(n)],
        "adds": adds,
    }


class Composite:
    """the real composite under test, its members behind proxies, and the shared log"""

    def __init__(self, cfg, trees=None):
        from fs.memoryfs import MemoryFS

        C = classes()
        self.cfg = cfg
        self.kind = cfg["kind"]
        self.log = []
        trees = [tree_unjson(t) for t in (trees if trees is not None else cfg["trees"])]
        self.inner = [MemoryFS() for _ in trees]
        for f, t in zip(self.inner, trees):
            fill(f, t)
        self.proxy = [C["LogFS"](f, i, self.log) for i, f in enumerate(self.inner)]
        self.mount_results = []
        if self.kind == "mount":
            from fs.mountfs import MountError

            top = C["Mount"](auto_close=cfg["auto_close"])
            top._toplog = self.log
            top.default_fs.close()
            top.default_fs = self.proxy[0]
            for k, pt in enumerate(cfg["mounts"]):
                try:
                    top.mount(pt, self.proxy[k + 1])
                    self.mount_results.append("ok")
                except MountError:
                    self.mount_results.append("MountError")
                except Exception as e:  # noqa
                    self.mount_results.append("err " + H.exc_name(e))
            self.top = top
        else:
            top = C["Multi"](auto_close=cfg["auto_close"])
            top._toplog = self.log
            for k, (name, prio, write) in enumerate(cfg["adds"]):
                top.add_fs(name, self.proxy[k], write=write, priority=prio)
            self.top = top
        del self.log[:]

    # -- configuration as the model sees it
    def member_index(self, fs_obj):
        for i, p in enumerate(self.proxy):
            if p is fs_obj:
                return i
        return None

    def mount_keys(self):
        return [mp for mp, _f in self.top.mounts]

    def mount_members(self):
        return [self.member_index(f) for _mp, f in self.top.mounts]

    def multi_entries(self):
        return [(name, pf.priority[0], pf.priority[1], self.member_index(pf.fs))
                for name, pf in self.top._filesystems.items()]

    def multi_write(self):
        return None if self.top.write_fs is None else self.member_index(self.top.write_fs)

    def snapshots(self):
        return [H.snapshot(f) for f in self.inner]

    def flags(self):
        return "".join("1" if f.isclosed() else "0" for f in self.inner)

    def close(self):
        for f in self.inner:
            try:
                f.close()
            except Exception:
                pass


# ----------------------------------------------------------------------------- running ops


def apply(top, log, op):
    """H.apply_op, except: listings keep their order; getsize makes no extra call;
    primitive-level extras: `scandir`, `validatepath`, `open <path> <mode> [data]` (open, write once,
    close), `readtext`, `download`, `writetext`."""
    name = op[0]

    def go():
        if name == "listdir":
            return "names:" + hxlist(top.listdir(op[1]))
        if name == "scandir":
            return "names:" + hxlist([i.name for i in top.scandir(op[1])])
        if name == "validatepath":
            top.validatepath(op[1])
            return "unit"
        if name == "open":
            # open, optionally write the data once (text flavour: as str), close
            f = top.open(op[1], op[2])
            try:
                if op[3] is not None and writable_mode(op[2]):
                    f.write(op[3] if "b" in op[2] else op[3].decode("ascii"))
            finally:
                f.close()
            return "unit"
        if name == "readtext":
            return "bytes:" + hx(top.readtext(op[1], encoding="latin-1").encode("latin-1"))
        if name == "download":
            import io

            buf = io.BytesIO()
            top.download(op[1], buf)
            return "bytes:" + hx(buf.getvalue())
        if name == "writetext":
            top.writetext(op[1], op[2].decode("ascii"))
            return "unit"
        if name == "getsize":
            n = top.getsize(op[1])
            k = len(log)
            isf = top.isfile(op[1])
            del log[k:]
            return "nat:%d" % (n if isf else 0)
        return None

    if name in ("listdir", "scandir", "validatepath", "getsize", "open", "readtext", "download", "writetext"):
        try:
            return ("ok", H.with_watchdog(go, 10))
        except BaseException as e:  # noqa
            if isinstance(e, (KeyboardInterrupt, SystemExit)):
                raise
            return ("err", H.exc_name(e), e)
    return H.apply_op(top, op)


def op_args(op):
    a = [op[0]]
    for x in op[1:]:
        if x is None:
            continue  # `open` without data
        if isinstance(x, bool):
            a.append("1" if x else "0")
        else:
            a.append(hx(x))
    return " ".join(a)


def fix_op(op):
    """ops loaded from JSON: data arguments back to bytes"""
    op = tuple(op)
    if op[0] == "open" and isinstance(op[3], str):
        return op[:3] + (op[3].encode("latin-1"),)
    if op[0] == "writetext" and isinstance(op[2], str):
        return op[:2] + (op[2].encode("latin-1"),)
    return H.fix_op_bytes(op)


def gen_ascii(rng):
    return bytes(rng.choice(b"abcXYZ019 \n") for _ in range(rng.randint(0, 4)))


class Step:
    __slots__ = ("cfg", "kind", "pre", "flags", "closed", "op", "impl", "log", "post", "post_flags", "post_closed",
                 "keys", "mount_members", "entries", "write", "hist", "idx")


def path_pool(comp, pre):
    """existing paths as the composite sees them (without calling it)"""
    pool = []
    if comp.kind == "mount":
        for e in pre[0] or []:
            pool.append((e[0], e[1]))
        for key, j in zip(comp.mount_keys(), comp.mount_members()):
            base = key.strip("/")
            if base:
                pool.append(("D", base))
            for e in (pre[j] or []) if j is not None else []:
                pool.append((e[0], (base + "/" + e[1]) if base else e[1]))
    else:
        for t in pre:
            for e in t or []:
                pool.append((e[0], e[1]))
    return pool


def gen_op(rng, pool, kind=None):
    op = _gen_op(rng, pool)
    if kind == "multi" and op[0] == "openbin" and rng.random() < 0.2:
        # mode strings `Mode()` rejects like io.open does (several of r/w/x/a, repeated characters); only for
        # MultiFS, which validates them itself before any member is asked
        op = ("openbin", op[1], rng.choice(["rw", "wa", "r++", "rr", "ax", "wb+b"]))
    return op


def _gen_op(rng, pool):
    r = rng.random()
    if r < 0.06:
        return ("scandir", H.gen_path(rng, pool, NAMES))
    if r < 0.09:
        return ("validatepath", H.gen_path(rng, pool, NAMES))
    if r < 0.19:
        files = [e[1] for e in pool if e[0] == "F"]
        path = H.spell(rng, rng.choice(files)) if files and rng.random() < 0.6 else H.gen_path(rng, pool, NAMES)
        return ("open", path, rng.choice(OPEN_MODES), None if rng.random() < 0.3 else gen_ascii(rng))
    if r < 0.23:
        k = rng.choice(["readtext", "download", "writetext"])
        path = H.gen_path(rng, pool, NAMES)
        return (k, path, gen_ascii(rng)) if k == "writetext" else (k, path)
    if r < 0.31:  # a file moved/copied to a fresh name in an existing directory (often across members)
        files = [e[1] for e in pool if e[0] == "F"]
        dirs = [e[1] for e in pool if e[0] == "D"] + [""]
        if files:
            d = rng.choice(dirs)
            dst = (d + "/" if d else "") + rng.choice(NAMES)
            return (rng.choice(["move", "copy"]), H.spell(rng, rng.choice(files)), H.spell(rng, dst), rng.random() < 0.5)
    op = H.gen_op(rng, pool, NAMES)
    for _ in range(3):  # keep some junk paths, re-roll most of them so that success branches get traffic
        if all(comps(p) is not None and "\0" not in p for p in op_paths(op)) or rng.random() < 0.3:
            break
        op = H.gen_op(rng, pool, NAMES)
    return op


def record(comp, op, pre, hist, idx):
    s = Step()
    s.cfg, s.kind, s.pre, s.op, s.hist, s.idx = comp.cfg, comp.kind, pre, op, hist, idx
    s.flags = comp.flags()
    s.closed = comp.top.isclosed()
    if comp.kind == "mount":
        s.keys, s.mount_members = comp.mount_keys(), comp.mount_members()
        s.entries, s.write = None, None
    else:
        s.keys, s.mount_members = None, None
        s.entries, s.write = comp.multi_entries(), comp.multi_write()
    del comp.log[:]
    s.impl = apply(comp.top, comp.log, op)
    s.log = list(comp.log)
    del comp.log[:]
    s.post_flags = comp.flags()
    s.post_closed = comp.top.isclosed()
    s.post = comp.snapshots() if "1" not in s.post_flags else None
    if s.post is not None and any(t is None for t in s.post):
        s.post = None  # a member can no longer be walked: the history stops here
    return s


def run_history(cfg, rng, n_ops, hist, with_close):
    comp = Composite(cfg)
    steps = []
    try:
        pre = comp.snapshots()
        for i in range(n_ops):
            if any(t is None for t in pre):
                break
            op = gen_op(rng, path_pool(comp, pre), comp.kind)
            s = record(comp, op, pre, hist, i)
            steps.append(s)
            if s.post is None:
                break
            pre = s.post
        if with_close and steps and steps[-1].post is not None:
            pre = steps[-1].post
            s = record(comp, ("close",), pre, hist, len(steps))
            steps.append(s)
            for k in range(3):  # a few calls on the closed composite: results and routing only
                op = gen_op(rng, path_pool(comp, pre), comp.kind) if comp.kind == "multi" or comp.top.mounts else ("exists", "a")
                s = record(comp, op, pre, hist, len(steps))
                steps.append(s)
                if s.post is not None:  # members left open by auto_close=False can still change
                    pre = s.post
    finally:
        comp.close()
    return steps


# ----------------------------------------------------------------------------- model side


def request(s):
    trees = " ".join(H.enc_tree(t) for t in s.pre)
    n = len(s.pre)
    if s.kind == "mount":
        # the model numbers the member of table entry k as k+1: reorder trees accordingly
        order = [0] + [j for j in s.mount_members]
        trees = " ".join(H.enc_tree(s.pre[j]) for j in order)
        flags = "".join(s.flags[j] for j in order)
        return "mount.step %d %d %s %s %d %s %s" % (
            s.closed, s.cfg["auto_close"], hxlist(s.keys), flags, len(order), trees, op_args(s.op))
    ents = ",".join("%s:%d:%d:%d" % (hx(n_), p, i, f) for (n_, p, i, f) in s.entries) or "-"
    return "multi.step %d %d %s %s %s %d %s %s" % (
        s.closed, s.cfg["auto_close"], "-" if s.write is None else str(s.write), ents, s.flags, n, trees, op_args(s.op))


def member_map(s):
    """model member index -> real member index"""
    if s.kind == "mount":
        return [0] + list(s.mount_members)
    return list(range(len(s.pre)))


def parse_step_reply(line):
    if line == "none":
        return None
    parts = [p.strip() for p in line.split(" | ")]
    out = parts[0]
    calls = []
    if parts[1] != "-":
        for c in parts[1].split(","):
            i, meth, ph = c.split(":")
            calls.append((int(i), meth, vlib.unhx(ph)))
    trees = parts[2].split(" ")
    res = ("ok", out[3:]) if out.startswith("ok ") else ("err", out[4:])
    adm = [a for a in parts[6][4:].split(",") if a] if len(parts) > 6 else []
    return res, calls, trees, parts[3], parts[4] == "1", parts[5], adm


# ----------------------------------------------------------------------------- the property, evaluated directly


def ref_resolve(cs):
    out = []
    for c in cs:
        if c in ("", "."):
            continue
        if c == "..":
            if not out:
                return None
            out.pop()
        else:
            out.append(c)
    return out


def comps(p):
    return None if p is None else ref_resolve(p.split("/"))


def is_prefix(a, b):
    return len(a) <= len(b) and b[: len(a)] == a


def comparable(a, b):
    return is_prefix(a, b) or is_prefix(b, a)


def op_paths(op):
    if op[0] in H.MUT2:
        return [op[1], op[2]]
    if op[0] == "close":
        return []
    return [op[1]]


def is_mutating_entry(e):
    _j, name, _p, mode = e
    return name in MUTATING_METHODS or (name in ("open", "openbin") and writable_mode(mode))


def is_creating_entry(e):
    _j, name, _p, mode = e
    return name in CREATING_METHODS or (name in ("open", "openbin") and writable_mode(mode))


def changed_members(s):
    if s.post is None:
        return []
    return [j for j in range(len(s.pre)) if H.canon_tree(s.pre[j]) != H.canon_tree(s.post[j])]


def oracle_mount(s):
    """Property text on the real objects: every member call denotes a path related to the call's
    argument and reaches a filesystem that owns it (a mount whose point is a whole-component
    prefix; the default tree only when no mount point is); only owners change."""
    bad = []
    if s.op[0] == "close":
        return bad
    mcomps = {}
    for key, j in zip(s.keys, s.mount_members):
        mcomps.setdefault(j, []).append(comps(key))
    all_mounts = [(j, mc) for j, l in mcomps.items() for mc in l]
    args = [comps(p) for p in op_paths(s.op)]
    if any(a is None for a in args):
        if any(is_mutating_entry(e) for e in s.log if e[0] != "TOP") or changed_members(s):
            bad.append("a call with an unresolvable path reached a member as a mutation")
        return bad
    name = s.op[0]

    def related(full, meth=None):
        if name in BULK:
            return any(comparable(full, a) for a in args)
        if name == "makedirs":
            return any(is_prefix(full, a) for a in args)
        if name in ("scandir", "isempty") and meth == "getinfo":
            # MountFS.scandir describes an entry that is a mount point by getinfo on the mounted filesystem
            return any(is_prefix(a, full) and len(full) == len(a) + 1 for a in args)
        return any(full == a for a in args)

    for e in s.log:
        if e[0] == "TOP":
            continue
        j, meth, path, _mode = e
        r = comps(path)
        if r is None:
            bad.append("member %d received the unresolvable path %r" % (j, path))
            continue
        if j == 0:
            full = r
            if any(is_prefix(mc, full) for _k, mc in all_mounts):
                bad.append("default tree received %s(%r) although a mount point is a component prefix" % (meth, path))
        else:
            fulls = [mc + r for mc in mcomps.get(j, [])]
            if not fulls:
                bad.append("call reached the unmounted member %d" % j)
                continue
            full = fulls[0]
            if name not in BULK:
                # nested mounts: the filesystem mounted DEEPEST on the path owns it (an ancestor mount must not
                # receive a path that lies below a mount point inside it)
                for f in fulls:
                    deeper = [mc for _k, mc in all_mounts if is_prefix(mc, f) and len(mc) > len(f) - len(r)]
                    if deeper and related(f, meth):
                        bad.append("member %d (mounted above) received %s(%r) = /%s although a filesystem is mounted deeper on that "
                                   "path, at /%s" % (j, meth, path, "/".join(f), "/".join(max(deeper, key=len))))
                        break
            if not any(related(f, meth) for f in fulls):
                bad.append("member %d received %s(%r) = /%s, unrelated to the arguments %r"
                           % (j, meth, path, "/".join(full), op_paths(s.op)))
            continue
        if not related(full, meth):
            bad.append("member %d received %s(%r), unrelated to the arguments %r" % (j, meth, path, op_paths(s.op)))
    # who may change
    allowed = set()
    for a in args:
        cands = [a]
        if name == "makedirs":
            cands = [a[:k] for k in range(len(a) + 1)]
        for c in cands:
            owners = [j for j, mc in all_mounts if is_prefix(mc, c)]
            allowed.update(owners or [0])
        if name in BULK:
            allowed.update(j for j, mc in all_mounts if is_prefix(a, mc))
    for j in changed_members(s):
        if j not in allowed:
            bad.append("member %d changed although no argument of %s%r routes to it" % (j, name, tuple(op_paths(s.op))))
    return bad


def multi_order(s):
    return [f for (_n, _p, _i, f) in sorted(s.entries, key=lambda e: (e[1], e[2]), reverse=True)]


def oracle_multi(s, inner_at_pre):
    """Property text on the real members: reads are answered by the highest-priority member
    (latest added among equals) containing the path; listings are de-duplicated unions;
    creating/writing calls change the write member only, and without one change nothing
    and raise ResourceReadOnly."""
    bad = []
    name = s.op[0]
    if name == "close" or s.closed:
        return bad
    order = multi_order(s)
    ch = changed_members(s)
    creating = name in CREATING or (name in ("openbin", "open") and writable_mode(s.op[2]) and _mode_ok(s.op[2]))
    reading = name in READS or (name == "open" and not writable_mode(s.op[2]) and _mode_ok(s.op[2]))
    if creating:
        for j in ch:
            if j != s.write:
                bad.append("creating/writing call %s changed member %d, write member is %r" % (name, j, s.write))
        if s.write is None:
            if ch:
                bad.append("no write member, yet members %r changed" % ch)
            if s.impl[0] == "ok" and not (name == "create" and s.impl[1] == "bool:0"):
                bad.append("no write member, yet %s returned %s" % (name, s.impl[1]))
    # member log: creating methods only ever reach the write member (bulk defaults included)
    for e in s.log:
        if e[0] != "TOP" and is_creating_entry(e) and e[0] != s.write:
            bad.append("member %d received the creating call %s(%r); write member is %r" % (e[0], e[1], e[2], s.write))
    for j in ch:
        if not any(e[0] == j and is_mutating_entry(e) for e in s.log if e[0] != "TOP"):
            bad.append("member %d changed without receiving a mutating call" % j)
    if name in ("copy", "move") and s.impl[0] == "ok" and s.post is not None:
        # the data that arrives is the data of the highest-priority member containing the source
        src, dst = comps(s.op[1]), comps(s.op[2])
        if src is not None and dst is not None and src != dst and s.write is not None:
            def content(tree, cs):
                for e in tree:
                    if e[0] == "F" and e[1] == "/".join(cs):
                        return e[2]
                return None

            def has(tree, cs):
                return not cs or any(e[1] == "/".join(cs) for e in tree)

            holder = next((j for j in order if has(s.pre[j], src)), None)
            want = None if holder is None else content(s.pre[holder], src)
            got = content(s.post[s.write], dst)
            if want is None or got != want:
                bad.append("%s wrote %r to the write member; the highest-priority member containing the source (%r) holds %r"
                           % (name, got, holder, want))
    if reading or name in ("listdir", "scandir"):
        if ch:
            bad.append("read %s changed members %r" % (name, ch))
        exp = None
        try:
            if name in ("listdir", "scandir"):
                acc, found = [], False
                import fs.errors as E

                for j in order:
                    try:
                        acc += inner_at_pre[j].listdir(s.op[1])
                        found = True
                    except E.ResourceNotFound:
                        pass
                    except E.DirectoryExpected:
                        # a file of that name: it answers when it is the highest-priority member containing
                        # the path, and is shadowed when a higher one holds the path as a directory
                        if not found:
                            raise
                if not found:
                    exp = ("err", "ResourceNotFound")
                else:
                    exp = ("ok", sorted(set(acc)))
            else:
                holder = None
                for j in order:
                    if inner_at_pre[j].exists(s.op[1]):
                        holder = j
                        break
                if holder is None:
                    exp = ("ok", "bool:0") if name in ("exists", "isdir", "isfile") else ("err", "ResourceNotFound")
                else:
                    exp = apply(inner_at_pre[holder], [], s.op)[:2]
        except Exception as e:  # a member raised: the composite must raise the same class
            exp = ("err", H.exc_name(e))
        got = s.impl[:2]
        if name in ("listdir", "scandir") and got[0] == "ok":
            l = vlib.unhxlist(got[1][6:])
            if len(l) != len(set(l)):
                bad.append("listing contains duplicates: %r" % l)
            got = ("ok", sorted(l))
        if exp is not None and tuple(exp) != tuple(got):
            bad.append("%s%r answered %r; the highest-priority member containing the path answers %r"
                       % (name, s.op[1:], got, exp))
    return bad


def _mode_ok(m):
    try:
        from fs.mode import Mode

        Mode(m)
        return True
    except ValueError:
        return False


# ----------------------------------------------------------------------------- judging


def step_case(s, model=None, why=None):
    return {
        "config": s.cfg,
        "pre_trees": [tree_json(t) for t in s.pre],
        "closed": s.closed,
        "member_closed": s.flags,
        "op": H.op_json(s.op),
        "impl": list(s.impl[:2]) + ([repr(s.impl[2])] if s.impl[0] == "err" else []),
        "log": [list(e) for e in s.log],
        "post_trees": None if s.post is None else [tree_json(t) for t in s.post],
        "model": model,
        "why": why,
    }


MAX_REPORTS = 6


def n_reports(rep, found_input):
    """reports of one kind so far (vlib caps them too; this only avoids building cases for nothing)"""
    every = list(rep.violations) + list(getattr(rep, "_deferred", []))
    return sum(1 for v in every if bool(v["found_input"]) == bool(found_input))


def judge(rep, s, reply, inner_at_pre=None, delegate_checks=None):
    rep.evaluations += 1
    name = s.op[0]
    rep.count("%s/%s:%s" % (s.kind, name, s.impl[0] if s.impl[0] == "ok" else s.impl[1]))
    rep.nontrivial(s.kind, s.op, s.keys, s.entries, s.write, [H.enc_tree(t) for t in s.pre])
    member_log = [e for e in s.log if e[0] != "TOP"]
    # ---- the property itself
    if s.kind == "mount":
        bad = oracle_mount(s)
    else:
        bad = oracle_multi(s, inner_at_pre)
    if bad:
        if n_reports(rep, True) < MAX_REPORTS:
            rep.violation(step_case(s, why=bad), "%s %s%r: %s" % (s.kind, name, s.op[1:], "; ".join(bad)[:500]),
                          found_input=True, signature="C17/%s/%s/oracle" % (s.kind, name))
        return
    # ---- correspondence with the model
    m = parse_step_reply(reply)
    if m is None:
        rep.count("bulk(not transcribed)")
        if name not in BULK:
            rep.violation(step_case(s), "model has no program for %s" % name, found_input=False,
                          signature="C17/%s/%s/model-gap" % (s.kind, name))
        return
    (mres, mcalls, mtrees, mflags, mclosed, _mcfg, madm) = m
    mm = member_map(s)
    why = []
    exp_calls = [(mm[i], meth, p) for (i, meth, p) in mcalls]
    got_calls = [(j, meth, p if p is not None else "") for (j, meth, p, _mode) in member_log]
    if exp_calls != got_calls:
        why.append("routing: members received %r, model predicts %r" % (got_calls[:8], exp_calls[:8]))
    if s.impl[0] != mres[0] or (s.impl[0] == "ok" and s.impl[1] != mres[1]):
        why.append("result: real %r, model %r" % (s.impl[:2], mres))
    elif s.impl[0] == "err" and s.impl[1] != mres[1]:
        # the class of an error raised by a member is the member's choice among the conditions that hold (C06)
        if s.impl[1] in madm:
            rep.count("member error class differs within the admissible set")
        else:
            why.append("error class: real %s, model %s (admissible %r)" % (s.impl[1], mres[1], madm))
    if s.post is not None:
        for k, j in enumerate(mm):
            if H.canon_tree(s.post[j]) != H.canon_tree(H.dec_tree(mtrees[k])):
                why.append("tree of member %d: real %r, model %r" % (
                    j, [e[:2] for e in s.post[j]][:8], [e[:2] for e in H.dec_tree(mtrees[k])][:8]))
    real_flags = "".join(s.post_flags[j] for j in mm)
    if real_flags != mflags or s.post_closed != mclosed:
        why.append("closed flags: real %s/%s, model %s/%s" % (real_flags, s.post_closed, mflags, mclosed))
    if why:
        rep.disagreements_checked += 1
    if why and n_reports(rep, False) < MAX_REPORTS:
        rep.violation(step_case(s, model=[list(mres), mcalls, mtrees], why=why),
                      "%s %s%r (keys=%r entries=%r write=%r): %s" % (s.kind, name, s.op[1:], s.keys, s.entries, s.write,
                                                                     "; ".join(why)[:600]),
                      found_input=False, signature="C17/%s/%s/correspondence" % (s.kind, name))


def top_segments(s):
    """[(top method, top path, [member entries…])] — each call of a method the class defines,
    with the member calls it made before the next one"""
    segs = []
    for e in s.log:
        if e[0] == "TOP":
            segs.append((e[1], e[2], []))
        elif segs:
            segs[-1][2].append(e)
    return segs


def check_mount_primitives(rep, drv, steps):
    """every call of a MountFS-defined method, inside any inherited program (bulk defaults
    included), forwards to exactly the member and member-relative path `mount.delegate` says"""
    reqs, meta = [], []
    for s in steps:
        if s.kind != "mount" or s.closed:
            continue
        mm = member_map(s)
        for (meth, path, ents) in top_segments(s):
            if meth in ("close",) or path is None:
                continue
            if len(ents) > 1 and n_reports(rep, True) < MAX_REPORTS:
                rep.violation(step_case(s), "MountFS.%s(%r) made %d member calls" % (meth, path, len(ents)),
                              found_input=True, signature="C17/mount/%s/multi-forward" % meth)
                continue
            if not ents:
                continue
            q = path   # every method hands `_delegate` the caller's path (removedir too, since /repo 48e26ed)
            reqs.append("mount.delegate %s %s" % (hxlist(s.keys), hx(q)))
            meta.append((s, mm, meth, path, ents[0]))
    for line, (s, mm, meth, path, e) in zip(drv.batch(reqs), meta):
        rep.evaluations += 1
        ok = False
        if line.startswith("ok "):
            _ok, i, r = line.split(" ")
            ok = (mm[int(i)], vlib.unhx(r), meth) == (e[0], e[2], e[1])
        if not ok and n_reports(rep, False) < MAX_REPORTS:
            rep.violation(step_case(s), "MountFS.%s(%r) forwarded %r; model delegate says %s" % (meth, path, e, line),
                          found_input=False, signature="C17/mount/%s/primitive-routing" % meth)


# ----------------------------------------------------------------------------- exhaustive parts

EX_COMPS = ["a", "ab", "b", "..", "."]
EX_MOUNTS = ["/a", "/ab", "/a/b", "/"]


def exhaustive_mount(rep, drv, tier):
    from fs.memoryfs import MemoryFS
    from fs.mountfs import MountError, MountFS

    maxlen = 4
    paths = []
    for n in range(0, maxlen + 1):
        for cs in itertools.product(EX_COMPS, repeat=n):
            body = "/".join(cs)
            paths.append("/" + body)
            paths.append(body)
            paths.append(body + "/")
    # since /repo 48e26ed `_delegate` refuses a NUL on the RAW path (InvalidCharsInPath) before normalising it away
    paths += ["a/z\0/../b", "z\0/../a", "a/b\0", "\0", "ab/\0/..", "z\0/../..", "/a/b/\0/../x/"]
    tables = []
    for n in range(0, 5):
        tables += list(itertools.permutations(EX_MOUNTS, n))
    reqs, expect = [], []
    for tab in tables:
        mfs = MountFS()
        members = [MemoryFS() for _ in tab]
        outs = []
        for pt, mem in zip(tab, members):
            try:
                mfs.mount(pt, mem)
                outs.append("ok")
            except MountError:
                outs.append("MountError")
        keys = [mp for mp, _ in mfs.mounts]
        idx = {id(f): k + 1 for k, (_mp, f) in enumerate(mfs.mounts)}
        idx[id(mfs.default_fs)] = 0
        reqs.append("mount.table " + hxlist(tab))
        expect.append(("table", tab, ",".join(outs) + " | " + hxlist(keys) + " | " + H.enc_tree(H.snapshot(mfs.default_fs))))
        for p in paths:
            try:
                f, r = mfs._delegate(p)
                e = "ok %d %s" % (idx[id(f)], hx(r))
            except Exception as ex:  # noqa
                e = "err " + H.exc_name(ex)
            reqs.append("mount.delegate %s %s" % (hxlist(keys), hx(p)))
            expect.append(("delegate", (keys, p), e))
            if "\0" in p and e != "err InvalidCharsInPath" and n_reports(rep, True) < MAX_REPORTS:
                rep.violation({"mounts": list(tab), "path": p, "delegate": e},
                              "MountFS(%r)._delegate(%r) = %s: a path with NUL reaches a member (its NUL may be normalised "
                              "away on the way)" % (keys, p, e), found_input=True, signature="C17/mount/_delegate/nul")
            # the property itself: the chosen member's mount point is a whole-component prefix
            cs = comps(p)
            if cs is not None and e.startswith("ok "):
                i = int(e.split(" ")[1])
                rel = vlib.unhx(e.split(" ")[2])
                kcs = [comps(k) for k in keys]
                if i == 0:
                    okp = not any(is_prefix(k, cs) for k in kcs) and comps(rel) == cs
                else:
                    okp = is_prefix(kcs[i - 1], cs) and comps(rel) == cs[len(kcs[i - 1]):]
                if not okp and n_reports(rep, True) < MAX_REPORTS:
                    rep.violation({"mounts": list(tab), "path": p, "delegate": e},
                                  "MountFS(%r)._delegate(%r) = %s is not the whole-component-prefix rule" % (keys, p, e),
                                  found_input=True, signature="C17/mount/_delegate/oracle")
        mfs.close()
    rep.programs += len(tables)
    for line, (what, arg, e) in zip(drv.batch(reqs), expect):
        rep.evaluations += 1
        if what == "delegate":
            rep.nontrivial("delegate", arg[0], arg[1])
        if line != e and n_reports(rep, False) < MAX_REPORTS:
            rep.violation({"what": what, "arg": arg, "real": e, "model": line},
                          "mount %s %r: real %s, model %s" % (what, arg, e, line), found_input=False,
                          signature="C17/mount/%s/correspondence" % what)
    rep.count("exhaustive mount tables", len(tables))
    rep.count("exhaustive delegate paths", len(paths) * len(tables))


def exhaustive_multi_order(rep, drv, tier):
    from fs.memoryfs import MemoryFS
    from fs.multifs import MultiFS

    reqs, expect = [], []
    for n in range(0, 5):
        for prios in itertools.product([-1, 0, 1], repeat=n):
            mu = MultiFS()
            for i, p in enumerate(prios):
                mu.add_fs("m%d" % i, MemoryFS(), priority=p)
            real = [int(name[1:]) for name, _f in mu.iterate_fs()]
            # the documented rule, stated independently: descending priority, then latest added first
            doc = sorted(range(n), key=lambda i: (-prios[i], -i))
            if real != doc and n_reports(rep, True) < MAX_REPORTS:
                rep.violation({"priorities": prios, "iterate_fs": real}, "iterate_fs order %r for priorities %r" % (real, prios),
                              found_input=True, signature="C17/multi/iterate_fs/oracle")
            reqs.append("multi.order " + (",".join("%d:%d" % (p, i) for i, p in enumerate(prios)) or "-"))
            expect.append((prios, "ok " + ",".join(str(i) for i in real)))
            mu.close()
    for line, (prios, e) in zip(drv.batch(reqs), expect):
        rep.evaluations += 1
        rep.nontrivial("order", prios)
        if line != e and n_reports(rep, False) < MAX_REPORTS:
            rep.violation({"priorities": prios, "real": e, "model": line}, "multi.order %r: real %s, model %s" % (prios, e, line),
                          found_input=False, signature="C17/multi/iterate_fs/correspondence")
    rep.programs += len(reqs)


def check_configs(rep, drv, cfgs):
    """`mount` / `add_fs` themselves: acceptance, table, default tree, entries, write member, order"""
    reqs, expect = [], []
    for cfg in cfgs:
        comp = Composite(cfg) if cfg["kind"] == "multi" else None
        try:
            if cfg["kind"] == "mount":
                # one mount at a time against the model, from the real table before it
                keys, tree = [], tree_unjson(cfg["trees"][0])
                from fs.memoryfs import MemoryFS
                from fs.mountfs import MountError, MountFS

                mfs = MountFS()
                fill(mfs.default_fs, tree)
                for pt in cfg["mounts"]:
                    keys = [mp for mp, _ in mfs.mounts]
                    pre_tree = H.enc_tree(H.snapshot(mfs.default_fs))
                    try:
                        mfs.mount(pt, MemoryFS())
                        out = "ok"
                    except MountError:
                        out = "MountError"
                    except Exception as e:  # noqa
                        out = "err " + H.exc_name(e)
                    reqs.append("mount.mount %s %s %s" % (hxlist(keys), pre_tree, hx(pt)))
                    expect.append((cfg, out + " | " + hxlist([mp for mp, _ in mfs.mounts]) + " | " +
                                   H.enc_tree(H.snapshot(mfs.default_fs))))
                    # the property: a mount point inside (or equal to) an existing mount is refused
                    new = comps(pt)
                    if new is not None:
                        inside = any(is_prefix(comps(k), new) for k in keys)
                        if inside and out != "MountError" and n_reports(rep, True) < MAX_REPORTS:
                            rep.violation({"mounts": keys, "new": pt, "result": out},
                                          "mount(%r) inside existing mounts %r was not refused: %s" % (pt, keys, out),
                                          found_input=True, signature="C17/mount/mount/inside-accepted")
                        if not inside and out == "MountError":
                            rep.count("mount refused although not inside")
                        if not inside and any(is_prefix(new, comps(k)) for k in keys) and out == "ok":
                            rep.count("outer mount accepted after inner (coded rule)")
                mfs.close()
            else:
                adds = ",".join("%s:%d:%d:%d" % (hx(n), p, 1 if w else 0, k) for k, (n, p, w) in enumerate(cfg["adds"]))
                reqs.append("multi.build " + adds)
                ents = ",".join("%s:%d:%d:%d" % (hx(n), p, i, f) for (n, p, i, f) in comp.multi_entries()) or "-"
                w = comp.multi_write()
                expect.append((cfg, "%s | %s | %d | %s" % (ents, "-" if w is None else w, comp.top._sort_index,
                                                          hxlist([n for n, _f in comp.top.iterate_fs()]))))
        finally:
            if comp is not None:
                comp.close()
    for line, (cfg, e) in zip(drv.batch(reqs), expect):
        rep.evaluations += 1
        if line != e and n_reports(rep, False) < MAX_REPORTS:
            rep.violation({"config": cfg, "real": e, "model": line}, "configuration %r: real %s, model %s" % (cfg.get("mounts", cfg.get("adds")), e, line),
                          found_input=False, signature="C17/%s/config/correspondence" % cfg["kind"])


# ----------------------------------------------------------------------------- directed cases

DIRECTED = [
    # (config, [ops])
    ({"kind": "mount", "auto_close": True, "mounts": ["/a", "/ab"],
      "trees": [[], [["F", "x", "in-a"]], [["F", "x", "in-ab"]]]},
     [("readbytes", "/ab/x"), ("readbytes", "a/x"), ("writebytes", "ab/y", b"1"), ("listdir", "/"), ("exists", "/abx"),
      ("makedirs", "/ab/p/q", False), ("move", "a/x", "ab/z", False), ("copy", "ab/x", "top", True), ("removedir", "/a"),
      ("removedir", "a/.."), ("openbin", "a/x", "z"),
      ("open", "ab/x", "r+", b"Z"), ("open", "ab/new", "x", b"n"), ("open", "ab/x", "a", b"+"), ("open", "/top2", "wt", b"t"),
      ("open", "ab/x", "rw", None), ("open", "ab/x", "rb", None), ("open", "ab/x", "r+t", b"01"), ("readtext", "ab/x"),
      ("download", "ab/x"), ("writetext", "ab/t", b"txt"), ("open", "ab/x", "rb+", None),
      ("removetree", "/"), ("exists", "a/../..")]),
    ({"kind": "mount", "auto_close": True, "mounts": ["/a/b", "/a"],
      "trees": [[], [["F", "inner", "i"]], [["F", "outer", "o"], ["D", "b"], ["F", "b/hidden", "h"]]]},
     [("listdir", "/a"), ("listdir", "/a/b"), ("readbytes", "/a/b/inner"), ("exists", "/a/b/hidden"), ("readbytes", "a/outer"),
      ("writebytes", "a/b/new", b"n"), ("removetree", "a"), ("copydir", "a", "c", True)]),
    ({"kind": "mount", "auto_close": False, "mounts": ["/"], "trees": [[["F", "default-only", "d"]], [["F", "f", "r"]]]},
     [("listdir", "/"), ("exists", "default-only"), ("writebytes", "g", b"g"), ("movedir", "/", "x", True), ("makedirs", "p/q", True)]),
    ({"kind": "multi", "auto_close": True, "adds": [["lo", 0, False], ["w", 0, True], ["hi", 5, False]],
      "trees": [[["F", "f", "lo"], ["F", "only-lo", "x"], ["D", "d"]], [["F", "f", "w"], ["D", "d"], ["F", "d/w", "1"]],
                [["F", "f", "hi"], ["D", "d"], ["F", "d/w", "2"], ["F", "d/h", "3"]]]},
     [("readbytes", "f"), ("listdir", "d"), ("listdir", "/"),
      # `open` routes by check_writable(mode): "+" is a writing mode even for a file that only a read layer holds
      ("open", "only-lo", "r+", b"Z"), ("open", "only-lo", "r+b", None), ("open", "only-lo", "rt", None),
      ("open", "f", "r+t", b"Q"), ("open", "f", "rb+", b"12"), ("open", "only-lo", "a", b"+"), ("open", "newx", "x", b"n"),
      ("open", "f", "w", b"W"), ("readtext", "only-lo"), ("download", "f"), ("writetext", "wt", b"t"),
      ("remove", "only-lo"), ("remove", "f"), ("writebytes", "f", b"new"),
      ("appendbytes", "only-lo", b"+"), ("isempty", "d"), ("move", "only-lo", "moved", False), ("copy", "f", "g", False),
      ("makedirs", "p/q", False), ("removedir", "d"), ("openbin", "f", "r+"), ("openbin", "f", "rt"), ("openbin", "f", "zz"),
      ("scandir", "d"), ("create", "f", False), ("touch", "only-lo"), ("removetree", "d"), ("copydir", "d", "e", True)]),
    # a name that is a directory in one layer and a file in another, both priority orders
    ({"kind": "multi", "auto_close": True, "adds": [["d", 1, False], ["f", 0, True], ["d2", -1, False]],
      "trees": [[["D", "b"], ["F", "b/x", "1"]], [["F", "b", "file"]], [["D", "b"], ["F", "b/y", "2"], ["F", "b/x", "3"]]]},
     [("listdir", "b"), ("scandir", "b"), ("isempty", "b"), ("listdir", "/"), ("isdir", "b"), ("readbytes", "b"), ("listdir", "c")]),
    ({"kind": "multi", "auto_close": True, "adds": [["d", 0, False], ["f", 1, True], ["d2", 5, False]],
      "trees": [[["D", "b"], ["F", "b/x", "1"]], [["F", "b", "file"]], []]},
     [("listdir", "b"), ("scandir", "b"), ("isempty", "b"), ("isfile", "b"), ("readbytes", "b"), ("listdir", "")]),
    ({"kind": "multi", "auto_close": False, "adds": [["a", 0, False], ["b", 0, False]],
      "trees": [[["F", "f", "first"]], [["F", "f", "second"], ["D", "d"]]]},
     [("readbytes", "f"), ("open", "f", "r+", b"Z"), ("open", "f", "rb+", None), ("open", "f", "r+t", b"z"), ("open", "f", "r", None),
      ("open", "g", "w", b"x"), ("open", "f", "a", b"x"), ("open", "g", "x", None), ("writetext", "f", b"t"),
      ("writebytes", "g", b""), ("makedir", "..", False), ("create", "f", False), ("create", "g", False),
      ("touch", "f"), ("settimes", "f"), ("copy", "f", "h", False), ("move", "f", "h", False), ("remove", "f"),
      ("removedir", "d"), ("openbin", "f", "w"), ("makedirs", "x/y", True), ("appendbytes", "f", b"z")]),
]


def run_directed():
    steps = []
    for k, (cfg, ops) in enumerate(DIRECTED):
        comp = Composite(cfg)
        try:
            pre = comp.snapshots()
            for i, op in enumerate(ops):
                s = record(comp, op, pre, 10 ** 6 + k, i)
                steps.append(s)
                if s.post is None:
                    break
                pre = s.post
        finally:
            comp.close()
    return steps


# ----------------------------------------------------------------------------- entry points


def judge_all(rep, drv, steps):
    from fs.memoryfs import MemoryFS

    replies = drv.batch([request(s) for s in steps])
    for s, r in zip(steps, replies):
        inner = None
        if s.kind == "multi" and not s.closed and (s.op[0] in READS or s.op[0] in ("listdir", "scandir", "open")):
            inner = []
            for t in s.pre:
                f = MemoryFS()
                fill(f, t)
                inner.append(f)
        judge(rep, s, r, inner_at_pre=inner)
        if inner:
            for f in inner:
                f.close()
    check_mount_primitives(rep, drv, steps)


def run(rep, tier, seed, deep=False):
    drv = vlib.Driver()
    quick = tier == "quick"
    n_cfg, n_ops = (1000, 25) if quick else (5000, 40)
    if deep:
        n_cfg *= 3
    rep.rule = (
        "MountFS: %d random configurations (0-3 mounts: nested, sibling, /a + /ab, root, refused and outer-after-inner "
        "mounts; arbitrary pre-existing content in the default tree and every member) x %d random operations; MultiFS: %d "
        "random configurations (1-4 members, priorities with ties, write layer present/absent/replaced) x %d operations; "
        "directed cases; every step from the identical pre-state: member call log == model trace, every member tree == "
        "model, result == model, plus the property oracle on the real members (owners only; highest priority answers; "
        "write member only).  Exhaustive: _delegate and mount for all paths of <= 4 components over {a,ab,b,..,.} x all "
        "mount tables over {/a,/ab,/a/b,/}; iterate_fs for all priority vectors over {-1,0,1} up to length 4.  "
        "distinct = distinct (configuration, pre-trees, op) and (table, path) cases" % (n_cfg, n_ops, n_cfg, n_ops))
    rep.assumptions = [
        "members are MemoryFS instances behind logging proxies; their own semantics is the reference semantics (C01)",
        "removetree / movedir / copydir are walker-based programs of fs/base.py, fs/copy.py, fs/move.py: covered by the "
        "frame theorems for arbitrary programs and checked here at the level of each primitive call and of the frame "
        "oracle, not transcribed step by step",
        "mounting an outer path after an inner one is accepted by the code (only the new-inside-existing direction is "
        "refused); MultiFS.remove/removedir act on the member that contains the path (the property constrains creating "
        "and writing calls only): both are modelled as coded",
        "timestamps are not compared; desc/getsyspath/geturl/hasurl/hassyspath/which/get_fs are not modelled "
        "and not exercised (open, readtext, download, writetext are)",
    ]
    try:
        exhaustive_mount(rep, drv, tier)
        exhaustive_multi_order(rep, drv, tier)
        steps = run_directed()
        rng = vlib.rng_for(seed, "c17")
        cfgs = []
        hist = 0
        for k in range(n_cfg):
            for gen in (gen_mount_config, gen_multi_config):
                cfg = gen(rng)
                cfgs.append(cfg)
                steps += run_history(cfg, rng, n_ops, hist, with_close=(k % 4 == 0))
                hist += 1
        rep.programs += hist + len(DIRECTED)
        check_configs(rep, drv, cfgs + [c for c, _ in DIRECTED])
        judge_all(rep, drv, steps)
        for s in steps[:: max(1, len(steps) // 6)][:6]:
            rep.sample({"kind": s.kind, "mounts": s.keys, "entries": s.entries, "write": s.write, "op": H.op_json(s.op),
                        "impl": list(s.impl[:2]), "member_calls": [list(e[:3]) for e in s.log if e[0] != "TOP"][:6]})
    finally:
        H.cleanup_scratch()


def replay(rep, case):
    c = case["case"]
    drv = vlib.Driver()
    if "config" not in c or "op" not in c:
        print("replay of a non-history case:", c)
        return 1
    cfg = c["config"]
    comp = Composite(cfg, trees=c["pre_trees"])
    try:
        op = fix_op(c["op"])
        if c.get("closed"):
            comp.top.close()
            del comp.log[:]
        pre = [tree_unjson(t) for t in c["pre_trees"]]
        s = record(comp, op, pre, 0, 0)
        if c.get("closed"):
            s.post = None
    finally:
        comp.close()
    judge_all(rep, drv, [s])
    print("impl:", s.impl[:2], "member calls:", [e for e in s.log if e[0] != "TOP"])
    return 1 if rep.violations else 0
