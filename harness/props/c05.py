"""C05 — move, copy and recursive remove never destroy unrelated data.

Theorems: lean/FsProofs/C05.lean (frame: Ref.step changes nothing outside the paths the
call was asked to touch, whether it returns or raises; post-conditions on success).
Oracle on the real code (needs no model): bystander files keep their bytes, successful
moves/copies put the complete source at the destination, every call terminates (watchdog).
Correspondence: the same steps are compared with Ref.step (verdict + tree).
"""
from __future__ import annotations

import os

import vlib
import fsharness as H
from props import _stateful as S
from props import _basewalk as BW

EXTRA_PROOF_MODULES = ("FsProofs.BaseWalkLaws",)

BULK = ["move", "copy", "movedir", "copydir", "removetree"]


def comps(p):
    import fs.path as P

    if "\0" in p:
        return None
    try:
        return tuple(c for c in P.normpath(p).split("/") if c)
    except Exception:
        return None


def tree_maps(snap):
    files, dirs = {}, set()
    for e in snap:
        t = tuple(e[1].split("/"))
        if e[0] == "F":
            files[t] = e[2]
        else:
            dirs.add(t)
    return files, dirs


def under(p, root):
    return p[: len(root)] == root


def oracle(pre, post, op, ok, src_root_kept=False):
    """the property on one call of one filesystem: list of (law, detail) failures"""
    bad = []
    if post is None:
        return [("terminates_and_stays_consistent", "filesystem cannot be listed after the call")]
    f0, d0 = tree_maps(pre)
    f1, d1 = tree_maps(post)
    name = op[0]
    s = comps(op[1])
    d = comps(op[2]) if name != "removetree" else None
    if s is None or (name != "removetree" and d is None):
        affected = set()
        if ok:
            return bad
    else:
        affected = set()
        if name == "move":
            affected = {s, d}
        elif name == "copy":
            affected = {d}
        elif name in ("movedir", "copydir"):
            sub = [p for p in list(f0) + list(d0) if under(p, s)]
            if name == "movedir":
                affected |= set(sub)
            affected |= {d + p[len(s):] for p in sub} | {d}
        elif name == "removetree":
            affected = {p for p in list(f0) + list(d0) if under(p, s)}
    for p, b in f0.items():
        if p in affected:
            continue
        if f1.get(p) != b:
            bad.append(("bystander_file_preserved", "%r: %r -> %r" % ("/".join(p), b[:20], f1.get(p))))
    for p in d0:
        if p not in affected and p not in d1 and not any(under(p, a) for a in affected if a in f1):
            bad.append(("bystander_dir_preserved", "/".join(p)))
    if ok and s is not None:
        if name == "move" and s != d:
            if f1.get(d) != f0.get(s) or s in f1:
                bad.append(("move_post", "dst=%r src_still_there=%r" % (f1.get(d), s in f1)))
        if name == "copy":
            if f1.get(d) != f0.get(s) or f1.get(s) != f0.get(s):
                bad.append(("copy_post", "dst=%r src=%r" % (f1.get(d), f1.get(s))))
        if name in ("movedir", "copydir") and s != d:
            for p, b in f0.items():
                if under(p, s) and f1.get(d + p[len(s):]) != b:
                    bad.append((name + "_post", "source file %r not complete at destination" % "/".join(p)))
            for p in d0:
                if under(p, s) and (d + p[len(s):]) not in d1 and (d + p[len(s):]) != ():
                    bad.append((name + "_post", "source directory %r missing at destination" % "/".join(p)))
            # (the root directory of a view cannot itself disappear: only its content moves)
            if name == "movedir" and ((s in d1 and not src_root_kept and s != ()) or any(under(p, s) for p in f1)
                                      or any(under(p, s) and p != s for p in d1)):
                bad.append(("movedir_post", "source still present"))
            if name == "copydir":
                for p, b in f0.items():
                    if under(p, s) and f1.get(p) != b and not under(p, d):
                        bad.append(("copydir_post", "source file %r changed" % "/".join(p)))
        if name == "removetree":
            if any(under(p, s) and p != s for p in list(f1) + list(d1)) or (s != () and s in d1):
                bad.append(("removetree_post", "something below the removed directory remains"))
    if not ok and s is not None and name in ("move", "movedir"):
        # a failed move must not lose source data
        for p, b in f0.items():
            if under(p, s) and f1.get(p) != b:
                q = d + p[len(s):] if d is not None else None
                if q is None or f1.get(q) != b:
                    bad.append(("failed_move_loses_source", "/".join(p)))
    return bad


def gen_bulk(rng, snap, names):
    P = lambda: H.gen_path(rng, snap, names)  # noqa
    r = rng.random()
    if r < 0.35:
        op = H.gen_op(rng, snap, names)
        return op
    name = rng.choice(BULK)
    if name == "removetree":
        return (name, P())
    return (name, P(), P(), rng.random() < 0.5)


def judge(rep, s, m):
    if s.op[0] not in BULK:
        return
    rep.evaluations += 1
    (mout, mtree, mclosed, adm, wf) = m
    ok = s.impl[0] == "ok"
    rep.count("%s:%s" % (s.op[0], "ok" if ok else s.impl[1]))
    rep.nontrivial(s.kind, s.op, H.enc_tree(s.pre))
    bad = oracle(s.pre, s.post, s.op, ok)
    if s.impl[0] == "err" and s.impl[1] == "Leak:Timeout":
        bad.append(("terminates", "call did not return within the watchdog"))
    kc = S.known_class(s)
    if bad:
        rep.violation(H.step_case(s, model=[list(mout), mtree]),
                      "%s.%s%r from tree %r — %s: %s" % (s.kind, s.op[0], s.op[1:], [e[:2] for e in s.pre][:10], bad[0][0], bad[0][1]),
                      found_input=True, signature=("C05/known/" + kc) if kc else "C05/%s/%s/%s" % (s.kind, s.op[0], bad[0][0]))
        return
    if kc:
        return
    # correspondence with the reference model (verdict + tree); a disagreement without an
    # oracle failure is reported as a broken correspondence
    loose = mout == ("err", "OperationFailed")
    dis = None
    if not loose:
        if (s.impl[0] == "ok") != (mout[0] == "ok"):
            dis = "verdict impl=%s model=%s" % (s.impl[:2], mout)
        elif s.post is not None and H.canon_tree(s.post) != H.canon_tree(H.dec_tree(mtree)):
            dis = "tree"
    if dis:
        rep.disagreements_checked += 1
        rep.violation(H.step_case(s, model=[list(mout), mtree]),
                      "correspondence Ref.step vs %s.%s%r broke (%s); bystanders and post-conditions still hold on this input"
                      % (s.kind, s.op[0], s.op[1:], dis), found_input=False,
                      signature="C05/%s/%s/correspondence" % (s.kind, s.op[0]))


# ---------------------------------------------------------------- cross-filesystem functions

def cross_case(rng, ka, kb, same):
    import fs.copy as C
    import fs.move as M

    a = H.make_backend(ka)
    b = a if same else H.make_backend(kb)
    try:
        for fsx in ([a.fs] if same else [a.fs, b.fs]):
            for _ in range(rng.randint(0, 6)):
                op = H.gen_op(rng, H.snapshot(fsx) or [], ["a", "b", "c"], spelling=False)
                if op[0] in ("makedir", "makedirs", "writebytes", "appendbytes", "create"):
                    H.apply_op(fsx, op)
        pa, pb = H.snapshot(a.fs), H.snapshot(b.fs)
        fn = rng.choice(["move_file", "move_dir", "copy_file", "copy_dir", "copy_fs", "move_fs"])
        sp = H.gen_path(rng, pa, ["a", "b", "c"], spelling=False)
        dp = H.gen_path(rng, pb, ["a", "b", "c"], spelling=False)

        def go():
            if fn == "move_file":
                M.move_file(a.fs, sp, b.fs, dp)
            elif fn == "move_dir":
                M.move_dir(a.fs, sp, b.fs, dp)
            elif fn == "copy_file":
                C.copy_file(a.fs, sp, b.fs, dp)
            elif fn == "copy_dir":
                C.copy_dir(a.fs, sp, b.fs, dp)
            elif fn == "copy_fs":
                C.copy_fs(a.fs, b.fs)
            elif fn == "move_fs":
                M.move_fs(a.fs, b.fs)
        try:
            H.with_watchdog(go, 10)
            res = ("ok",)
        except BaseException as e:  # noqa
            res = ("err", H.exc_name(e), repr(e))
        qa, qb = H.snapshot(a.fs), H.snapshot(b.fs)
        return dict(fn=fn, ka=ka, kb=("same" if same else kb), sp=sp, dp=dp, pa=pa, pb=pb, qa=qa, qb=qb, res=res)
    finally:
        a.close()
        if not same:
            b.close()


def aliased_case(rng, base_kind, force_runaway=False):
    """two views of the same storage: (parent, parent'), (parent, SubFS), (SubFS, parent), (SubFS, SubFS)"""
    import fs.copy as C
    import fs.move as M
    from fs.osfs import OSFS

    parent = H.make_backend(base_kind)
    try:
        p = parent.fs
        for path in ("v", "v/w", "u"):
            p.makedirs(path, recreate=True)
        for _ in range(rng.randint(2, 7)):
            op = H.gen_op(rng, H.snapshot(p) or [], ["a", "b", "v", "w"], spelling=False)
            if op[0] in ("makedir", "makedirs", "writebytes", "appendbytes", "create"):
                H.apply_op(p, op)

        def view(which):
            if which == "same":
                return p, ()
            if which == "twin" and base_kind == "os":
                return OSFS(p.getsyspath("/")), ()
            if which == "sub":
                return p.opendir("v"), ("v",)
            if which == "subsub":
                return p.opendir("v").opendir("w"), ("v", "w")
            return p, ()

        wa, wb = rng.choice(["same", "twin", "sub", "subsub"]), rng.choice(["same", "twin", "sub", "subsub"])
        (fa, ra), (fb, rb) = view(wa), view(wb)
        pre = H.snapshot(p)
        fn = rng.choice(["move_file", "move_dir", "copy_file", "copy_dir"])
        sp = H.gen_path(rng, H.snapshot(fa) or [], ["a", "b", "w"], spelling=(rng.random() < 0.3))
        dp = H.gen_path(rng, H.snapshot(fb) or [], ["a", "b", "w"], spelling=(rng.random() < 0.3))
        if rng.random() < 0.35:
            # aim both views at the SAME underlying resource (destination equal to the source)
            cand = [e[1] for e in pre if tuple(e[1].split("/"))[: len(ra)] == ra and tuple(e[1].split("/"))[: len(rb)] == rb
                    and len(e[1].split("/")) > max(len(ra), len(rb))]
            if cand:
                t = tuple(rng.choice(cand).split("/"))
                sp = "/".join(t[len(ra):])
                dp = H.spell(rng, "/".join(t[len(rb):])) if rng.random() < 0.5 else "/".join(t[len(rb):])

        s_, d_ = comps(sp), comps(dp)
        runaway = (fn in ("move_dir", "copy_dir") and fa is not fb and s_ is not None and d_ is not None
                   and under(rb + d_, ra + s_))
        if runaway and not force_runaway:
            # open known finding (see known_findings.json): through two *different* views of one
            # storage the "destination inside source" guard does not fire and the copy recurses
            # until something external stops it.  Replayed once by `aliased_runaway_regression`.
            return None

        def go():
            getattr(M if fn.startswith("move") else C, fn)(fa, sp, fb, dp)
        try:
            H.with_watchdog(go, 3 if runaway else 10)
            res = ("ok",)
        except BaseException as e:  # noqa
            res = ("err", H.exc_name(e), repr(e))
        post = H.snapshot(p)
        return dict(fn=fn, base=base_kind, va=wa, vb=wb, ra=ra, rb=rb, sp=sp, dp=dp, pre=pre, post=post, res=res)
    finally:
        parent.close()


def judge_aliased(rep, c):
    rep.evaluations += 1
    ok = c["res"][0] == "ok"
    rep.count("aliased/%s:%s" % (c["fn"], "ok" if ok else c["res"][1]))
    rep.nontrivial("aliased", c["fn"], c["base"], c["va"], c["vb"], c["sp"], c["dp"], H.enc_tree(c["pre"] or []))
    kind = {"move_file": "move", "copy_file": "copy", "move_dir": "movedir", "copy_dir": "copydir"}[c["fn"]]
    s, d = comps(c["sp"]), comps(c["dp"])
    bad = []
    if c["post"] is None or c["pre"] is None:
        bad.append(("terminates_and_stays_consistent", "snapshot failed"))
    elif s is not None and d is not None:
        ps = "/".join(c["ra"] + s)
        pd = "/".join(c["rb"] + d)
        if kind == "copy" and c["ra"] + s == c["rb"] + d and ok:
            # copying a file onto itself through two views: content must survive
            f0, _ = tree_maps(c["pre"])
            f1, _ = tree_maps(c["post"])
            if f1.get(c["ra"] + s) != f0.get(c["ra"] + s):
                bad.append(("copy_onto_itself_keeps_content", ps))
        else:
            bad += oracle(c["pre"], c["post"], (kind, ps, pd, True), ok, src_root_kept=(s == ()))
            if kind == "move" and c["ra"] + s == c["rb"] + d:
                f0, _ = tree_maps(c["pre"])
                f1, _ = tree_maps(c["post"])
                t = c["ra"] + s
                if t in f0 and f1.get(t) != f0[t]:
                    bad.append(("move_onto_itself_keeps_content", ps))
    if c["res"][0] == "err" and c["res"][1] == "Leak:Timeout":
        bad.append(("terminates", "watchdog"))
    if bad:
        case = {k: (v if not isinstance(v, list) else [[e[0], e[1]] + ([e[2].decode("latin-1")] if e[0] == "F" else []) for e in v]) for k, v in c.items()}
        clean = lambda p: p == "/".join(x for x in p.split("/") if x and x != ".")  # noqa
        same_file = (s is not None and d is not None and c["ra"] + s == c["rb"] + d and kind in ("move", "copy")
                     and (c["va"], c["ra"]) != (c["vb"], c["rb"]) or (c["va"] == "twin") != (c["vb"] == "twin"))
        if (s is not None and d is not None and c["ra"] + s == c["rb"] + d and kind in ("move", "copy")
                and (kind == "copy" or c["base"] == "mem" or not (clean(c["sp"]) and clean(c["dp"])))):
            # open known finding: the copy-then-remove fallback opens the destination for writing
            # (truncating it) before reading the source, and both are the same file
            rep.violation(case, "known class", found_input=True, signature="C05/known/aliased-views-same-file-truncated")
            return
        rep.violation(case, "fs.%s(%s view %r:%r -> %s view %r:%r of one %s) — %s: %s" % (
            c["fn"], c["va"], "/".join(c["ra"]), c["sp"], c["vb"], "/".join(c["rb"]), c["dp"], c["base"], bad[0][0], bad[0][1]),
            found_input=True, signature="C05/aliased/%s/%s" % (c["fn"], bad[0][0]))


def aliased_runaway_regression(rep):
    """the minimal history of the open finding 'copy_dir into itself through two views'"""
    import fs.copy as C
    from fs.memoryfs import MemoryFS

    m = MemoryFS()
    m.makedirs("v/w")
    m.writebytes("v/f", b"x")
    view = m.opendir("v")
    try:
        H.with_watchdog(lambda: C.copy_dir(m, "v", view, "w/copy"), 2)
        res = "returned"
    except H.Timeout:
        res = "no-termination"
    except BaseException as e:  # noqa
        res = H.exc_name(e)
    rep.evaluations += 1
    depth = 0
    try:
        p = "v/w/copy"
        while m.isdir(p) and depth < 50:
            depth += 1
            p += "/w/copy"
    except Exception:
        pass
    m.close()
    if res in ("no-termination", "Leak:RecursionError") or depth >= 5:
        rep.violation({"call": "copy_dir(m, 'v', m.opendir('v'), 'w/copy')", "result": res, "nesting_depth_reached": depth},
                      "copy_dir from a filesystem into a SubFS view of the same storage whose target lies inside the source never terminates on its own (%s, nesting depth %d)" % (res, depth),
                      found_input=True, signature="C05/known/aliased-views-copy-into-itself-runaway")


def judge_cross(rep, c):
    rep.evaluations += 1
    fn, ok = c["fn"], c["res"][0] == "ok"
    rep.count("%s:%s" % (fn, "ok" if ok else c["res"][1]))
    rep.nontrivial(fn, c["ka"], c["kb"], c["sp"], c["dp"], H.enc_tree(c["pa"] or []), H.enc_tree(c["pb"] or []))
    bad = []
    if c["qa"] is None or c["qb"] is None:
        bad.append(("terminates_and_stays_consistent", "snapshot failed"))
    else:
        same = c["kb"] == "same"
        sp, dp = (c["sp"], c["dp"]) if fn not in ("copy_fs", "move_fs") else ("/", "/")
        kind = {"move_file": "move", "copy_file": "copy", "move_dir": "movedir", "copy_dir": "copydir", "copy_fs": "copydir", "move_fs": "movedir"}[fn]
        if same:
            if not (fn in ("copy_fs", "move_fs")):
                bad += oracle(c["pa"], c["qa"], (kind, sp, dp, True), ok)
        else:
            f0, _ = tree_maps(c["pa"])
            f1, _ = tree_maps(c["qa"])
            g0, _ = tree_maps(c["pb"])
            g1, _ = tree_maps(c["qb"])
            s, d = comps(sp), comps(dp)
            if s is not None and d is not None:
                moved = kind in ("move", "movedir")
                for p, b in f0.items():   # source side: only the moved subtree may disappear
                    gone = f1.get(p) != b
                    if gone and not (moved and under(p, s)):
                        bad.append(("bystander_file_preserved(src fs)", "/".join(p)))
                    if gone and moved and under(p, s) and g1.get(d + p[len(s):]) != b:
                        bad.append(("moved_file_lost", "/".join(p)))
                srcfiles = {d + p[len(s):]: b for p, b in f0.items() if under(p, s)} if kind in ("movedir", "copydir") else ({d: f0[s]} if s in f0 else {})
                named = {d} if kind in ("move", "copy") else set()   # the destination file explicitly named
                for p, b in g0.items():   # destination side: only positions receiving source content
                    if g1.get(p) != b and p not in srcfiles and p not in named:
                        bad.append(("bystander_file_preserved(dst fs)", "/".join(p)))
                if ok:
                    for p, b in srcfiles.items():
                        if g1.get(p) != b:
                            bad.append((fn + "_post", "source content missing at %r" % "/".join(p)))
    if c["res"][0] == "err" and c["res"][1] == "Leak:Timeout":
        bad.append(("terminates", "watchdog"))
    if bad:
        case = {k: (v if not isinstance(v, list) else [[e[0], e[1]] + ([e[2].decode("latin-1")] if e[0] == "F" else []) for e in v]) for k, v in c.items()}
        rep.violation(case, "fs.%s(%s:%r -> %s:%r) — %s: %s" % (fn, c["ka"], c["sp"], c["kb"], c["dp"], bad[0][0], bad[0][1]),
                      found_input=True, signature="C05/cross/%s/%s" % (fn, bad[0][0]))


def symlink_canary(rep):
    """directories containing symbolic links: their targets are never emptied"""
    from fs.osfs import OSFS

    for call in ("removetree", "removetree-root", "copydir", "movedir"):
        base = H._tmpdir()
        try:
            root = os.path.join(base, "root")
            out = os.path.join(base, "outside")
            os.makedirs(os.path.join(root, "d", "sub"))
            os.makedirs(out)
            with open(os.path.join(out, "canary.txt"), "wb") as fh:
                fh.write(b"canary")
            with open(os.path.join(root, "d", "keep.txt"), "wb") as fh:
                fh.write(b"k")
            os.symlink(out, os.path.join(root, "d", "link"))
            os.symlink(os.path.join(out, "canary.txt"), os.path.join(root, "d", "flink"))
            o = OSFS(root)
            try:
                if call == "removetree":
                    res = H.apply_op(o, ("removetree", "d"))
                elif call == "removetree-root":
                    res = H.apply_op(o, ("removetree", "/"))
                elif call == "copydir":
                    res = H.apply_op(o, ("copydir", "d", "e", True))
                else:
                    res = H.apply_op(o, ("movedir", "d", "e", True))
            finally:
                o.close()
            rep.evaluations += 1
            rep.nontrivial("symlink", call)
            okc = os.path.exists(os.path.join(out, "canary.txt")) and open(os.path.join(out, "canary.txt"), "rb").read() == b"canary"
            if not okc:
                rep.violation({"call": call, "result": list(res[:2])},
                              "OSFS.%s on a directory containing a symlink to an outside directory emptied the link's target (%s)" % (call, res[:2]),
                              found_input=True, signature="C05/os/%s/symlink_target_emptied" % call)
        finally:
            import shutil

            H.rm_rf(base)


def symlink_histories(rep, rng, n):
    """random histories on an OSFS whose tree holds symlinks (to a directory and to a file)
    pointing outside the root: whatever is called, the targets are never emptied or changed"""
    import shutil
    from fs.osfs import OSFS

    names = ["d", "link", "flink", "keep", "sub"]
    for h in range(n):
        base = H._tmpdir()
        try:
            root = os.path.join(base, "root")
            out = os.path.join(base, "outside")
            os.makedirs(os.path.join(root, "d", "sub"))
            os.makedirs(os.path.join(out, "deep"))
            for rel in ("canary.txt", "deep/also.txt"):
                with open(os.path.join(out, rel), "wb") as fh:
                    fh.write(b"canary")
            os.symlink(out, os.path.join(root, "d", "link"))
            os.symlink(os.path.join(out, "canary.txt"), os.path.join(root, "d", "flink"))
            os.symlink(out, os.path.join(root, "link"))
            o = OSFS(root)
            view = o if rng.random() < 0.6 else o.opendir("d")
            ops = []
            try:
                for i in range(8):
                    name = rng.choice(["removetree", "removetree", "removedir", "remove", "movedir", "copydir", "move", "copy"])
                    # paths naming a link are in scope; paths *through* a link name the target explicitly and are not
                    P = lambda: rng.choice(["", "d", "d/link", "link", "d/flink", "flink", "d/sub", "sub", "new", "d/new"])  # noqa
                    op = (name, P()) if name in ("removetree", "removedir", "remove") else (name, P(), P(), rng.random() < 0.7)
                    res = H.apply_op(view, op)
                    ops.append(H.op_json(op) + [res[1]])
                    rep.evaluations += 1
                    rep.nontrivial("symlink-history", h, i, op)
                    intact = all(os.path.exists(os.path.join(out, r)) and open(os.path.join(out, r), "rb").read() == b"canary"
                                 for r in ("canary.txt", "deep/also.txt"))
                    if not intact:
                        rep.violation({"view": "root" if view is o else "SubFS(d)", "ops": ops},
                                      "OSFS%s: %s%r emptied or changed the target of a symbolic link that points outside the root (history %r)"
                                      % ("" if view is o else ".opendir('d')", op[0], op[1:], ops[-3:]),
                                      found_input=True, signature="C05/os/%s/symlink_target_emptied" % op[0])
                        break
            finally:
                o.close()
        finally:
            H.rm_rf(base)
    rep.programs += n


def run(rep, tier, seed, deep=False):
    drv = vlib.Driver()
    rng = vlib.rng_for(seed, "c05")
    quick = tier == "quick"
    n_hist, n_ops = (30, 25) if quick else (1200, 40)
    n_cross = 600 if quick else 20000
    if deep:
        n_hist *= 3
        n_cross *= 3
    rep.rule = ("move/copy/movedir/copydir/removetree with every (src, dst, flag) over paths {'',a,b,a/a,a/b,b/a} from every tree with <=3 nodes "
                "(exhaustive, mem+os) and in random histories on %s; fs.move/fs.copy functions on random backend pairs (same instance, same "
                "backend, different backends); OSFS directories holding symlinks to an outside canary; distinct = distinct (backend, call, pre-tree)"
                % (S.WRITABLE,))
    rep.assumptions = ["aliased views explored: same object, twin OSFS on one directory, SubFS at depth 1 and 2 of one parent",
                       "mount points of a MountFS are fixtures (not removable)"]
    try:
        steps = S.collect(S.WRITABLE, n_hist, n_ops, rng, gen=gen_bulk)
        trees = S.small_trees()
        ops = [op for op in S.exhaustive_small_ops() if op[0] in BULK]
        for kind in (["mem", "os"] if quick else ["mem", "os", "sub-mem", "sub-os", "mount-root", "multi", "wrap-mem", "zip-w"]):
            steps += S.exhaustive_steps(kind, trees, ops)
        steps = [s for s in steps if s.op[0] in BULK]
        rep.programs = len(set(s.hist_id for s in steps))
        for s, m in S.with_model(drv, steps):
            judge(rep, s, m)
        # the base-class algorithms AS CODED (walker, copy_structure, Copier, move_dir) against their operational
        # model FsModel.BaseWalk over the Mem / Os primitives: class and (partial) tree, the reference's loose cases
        # included; FsProofs/BaseWalkLaws.lean proves that this model computes the reference's tree-level result
        BW.run(rep, drv, steps, quick)
        kinds = ["mem", "os", "sub-mem", "sub-os"]
        for i in range(n_cross):
            ka, kb = rng.choice(kinds), rng.choice(kinds)
            judge_cross(rep, cross_case(rng, ka, kb, same=(rng.random() < 0.25)))
        rep.programs += n_cross
        for i in range(n_cross // 2):
            c = aliased_case(rng, rng.choice(["mem", "os"]))
            if c is None:
                rep.count("aliased/steered-runaway")
                continue
            judge_aliased(rep, c)
        aliased_runaway_regression(rep)
        rep.programs += n_cross // 2
        symlink_canary(rep)
        symlink_histories(rep, rng, 12 if quick else 300)
        for s in steps[:: max(1, len(steps) // 5)][:5]:
            rep.sample({"backend": s.kind, "pre": [e[:2] for e in s.pre][:6], "op": H.op_json(s.op), "impl": list(s.impl[:2])})
    finally:
        H.cleanup_scratch()


def replay(rep, case):
    c = case["case"]
    if (case.get("signature") or "").startswith("C05/basewalk/"):
        return BW.replay(rep, c)
    if "backend" not in c:
        print("cross / symlink case: rerun the check with the same seed")
        symlink_canary(rep)
        return 1 if rep.violations else 0
    kind, pre, op = H.case_to_step(c)
    op = H.fix_op_bytes(op)
    b = H.build_state(kind, pre)
    try:
        pre2 = H.snapshot(b.fs)
        impl = H.apply_op(b.fs, op)
        post = H.snapshot(b.fs)
    finally:
        b.close()
        H.cleanup_scratch()
    s = H.Step(kind, pre2, op, impl, post, 0, 0)
    m = H.model_replies(vlib.Driver(), [s])[0]
    judge(rep, s, m)
    print("impl:", impl[:2], "model:", m[0])
    return 1 if rep.violations else 0
