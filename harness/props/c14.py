"""C14 — glob and wildcard matching follow the documented shell semantics.

Theorems: lean/FsProofs/C14.lean over FsModel.Regex / Wild / Glob (+ GlobSpec, WildSpec, LRU).

Correspondence (model <-> /repo), every run:
  (i)   translators: the regex *text* built by fs.wildcard._translate, fs.glob._translate and
        fs.glob._translate_glob equals the model's text character for character (+ levels /
        recursive / re.compile verdict); inside the driver the structured AST must print to that
        text and Regex.parse(text) must give the same AST back.
  (ii)  matcher: re.compile(text, flags).match(s) vs Regex.matches on those texts x all subjects
        over 'ab./\\n[A' up to a bounded length.
  (iii) end to end: fs.glob.match/imatch, fs.wildcard.match/imatch, match_any/get_matcher
        (accept_prefix) vs the model, and vs the documented semantics (GlobSpec/WildSpec in Lean
        and, written independently, in Python below).
  (iv)  Globber on random MemoryFS trees: fs.glob(pattern) vs filter over an unpruned walk,
        count(), count_lines(), remove() (on copies).
  (v)   LRUCache, the cached match, and every user of the two process-wide _PATTERN_CACHEs
        (match/imatch, the Globber, wildcard) in one history vs `Glob.runAll`; the same pattern text
        in both case modes interleaved within one process (Globber ci -> match/Globber cs, reverse,
        imatch first), nothing cleared in between, every answer vs the cache-free model and the spec.

Oracle.  The property itself is `code == documented semantics`.  After the repairs in /repo
(810a9af, 2f2ca27, 81a3019, 8d610d8) two classes remain open (known_findings.json): a directory
against a slash-less pattern whose last non-`**` component is made of `*` only (`*/*` matches
`/d/`), and reversed ranges raising re.error.  A deviation is reported as KNOWN-FINDING only when
(a) the model predicts exactly that answer and (b) the input lies in one of these classes;
anything else is a VIOLATION.  Case-insensitive matching: ASCII only (Python's Unicode case
folding is external).
"""
from __future__ import annotations

import itertools
import json
import multiprocessing
import os
import re

import vlib
from vlib import hx, hxlist, unhx, unhxlist

PAT_ALPHA = ["a", "b", ".", "*", "?", "[", "]", "!", "/", "**"]
SUBJ_ALPHA = "ab./\n[A"
RAND_POOLS = [
    ["a", "b", ".", "*", "?", "[", "]", "!", "/", "**"],
    ["a", "b", "A", "Z", "-", "[", "]", "!", "^", "\\", "*", "?", "/", "+", "9", "_"],
    ["a", ".", "*", "**", "/", "[", "]", "!", "(", ")", "|", "{", "}", "$", "+", " ", "\n", "日", "#", "~", "&"],
]
SIG = {
    "empty": "C14/glob/empty-component-matches-dir-slash",
    "rev": "C14/match/reversed-range-re-error",
}
NWORK = max(1, min(8, (os.cpu_count() or 2) - 1))
LEANCHECKER_MODULES = ["FsProofs.C14", "FsProofs.Lemmas.GlobLemmas"]


# ----------------------------------------------------------------------------- the real code


def exc_name(e):
    from fs.errors import IllegalBackReference

    if isinstance(e, re.error):
        return "reError"
    if isinstance(e, IllegalBackReference):
        return "IllegalBackReference"
    if isinstance(e, ValueError):
        return "ValueError"
    return "Leak:" + type(e).__name__


def compile_status(text, ic=False):
    try:
        re.compile(text, re.IGNORECASE if ic else 0)
        return "ok"
    except re.error:
        return "reError"
    except Exception as e:  # RecursionError, OverflowError …
        return "Leak:" + type(e).__name__


def impl_glob_translate(p):
    import fs.glob as G

    try:
        lv, text = G._translate_glob(p)
    except Exception as e:
        return ("err", exc_name(e))
    # without a bracket the text is made of escaped literals, [^/]*, [^/], /?, .*/? only: it always
    # compiles (and is compared character for character with the model's text anyway)
    return ("ok", "N" if lv is None else str(lv), "1" if lv is None else "0", text,
            compile_status(text) if "[" in p else "ok")


def impl_glob_translate1(p):
    import fs.glob as G

    try:
        return ("ok", G._translate(p))
    except Exception as e:
        return ("err", exc_name(e))


def impl_wild_translate(p, cs):
    import fs.wildcard as W

    text = "(?ms)" + W._translate(p, case_sensitive=cs) + r"\Z"
    return ("ok", text, compile_status(text, not cs) if "[" in p else "ok")


def impl_bits(fn, p, subjects):
    try:
        return "ok " + "".join("1" if fn(p, s) else "0" for s in subjects)
    except Exception as e:
        return "err " + exc_name(e)


def impl_regex_bits(text, ic, subjects):
    try:
        r = re.compile(text, re.IGNORECASE if ic else 0)
    except re.error:
        return "err reError"
    return "ok " + "".join("1" if r.match(s) else "0" for s in subjects)


# ----------------------------------------------------------------------------- the documented semantics (Python)
# Written independently of the Lean GlobSpec: index-based tokeniser, NFA-style token matcher,
# memoised component matcher.


def sp_tokens(comp):
    toks = []
    i, n = 0, len(comp)
    while i < n:
        c = comp[i]
        if c == "*":
            toks.append(("*",))
            i += 1
        elif c == "?":
            toks.append(("?",))
            i += 1
        elif c == "[":
            j = i + 1
            neg = j < n and comp[j] == "!"
            if neg:
                j += 1
            k = comp.find("]", j + 1)  # the first member never closes the bracket
            if k == -1:
                toks.append(("c", "["))
                i += 1
            else:
                toks.append(("[", neg, comp[j:k]))
                i = k + 1
        else:
            toks.append(("c", c))
            i += 1
    return toks


def sp_ranges(body):
    out = []
    i = 0
    while i < len(body):
        if i + 2 < len(body) and body[i + 1] == "-":
            out.append((body[i], body[i + 2]))
            i += 3
        else:
            out.append((body[i], body[i]))
            i += 1
    return out


def a_lower(c):
    return chr(ord(c) + 32) if "A" <= c <= "Z" else c


def a_upper(c):
    return chr(ord(c) - 32) if "a" <= c <= "z" else c


def sp_tok_ok(t, ch, cs):
    if t[0] in "*?":
        return True
    if t[0] == "c":
        return t[1] == ch if cs else a_lower(t[1]) == a_lower(ch)
    variants = (ch,) if cs else (a_lower(ch), a_upper(ch))
    inside = any(lo <= v <= hi for (lo, hi) in sp_ranges(t[2]) for v in variants)
    return inside != t[1]


def sp_tok_match(toks, name, cs):
    n = len(toks)

    def close(s):
        out = set(s)
        for i in sorted(s):
            while i < n and toks[i][0] == "*":
                i += 1
                out.add(i)
        return out

    cur = close({0})
    for ch in name:
        nxt = set()
        for i in cur:
            if i < n:
                if toks[i][0] == "*":
                    nxt.add(i)
                elif sp_tok_ok(toks[i], ch, cs):
                    nxt.add(i + 1)
        cur = close(nxt)
        if not cur:
            return False
    return n in cur


class GlobSpecPy:
    """documented meaning of one glob pattern"""

    def __init__(self, pat, cs=True):
        self.pat, self.cs = pat, cs
        self.pcs = [c for c in pat.split("/") if c]
        self.toks = [None if c == "**" else sp_tokens(c) for c in self.pcs]
        self.dir_only = pat.endswith("/")
        self.unspecified = (
            not self.pcs
            or any(c in (".", "..") for c in self.pcs)
            or any("**" in c and c != "**" for c in self.pcs)
        )

    def matches(self, comps, is_dir):
        if self.dir_only and not is_dir:
            return False
        pcs, toks, cs = self.pcs, self.toks, self.cs
        memo = {}

        def go(i, j):
            key = (i, j)
            if key in memo:
                return memo[key]
            if i == len(pcs):
                r = j == len(comps)
            elif toks[i] is None:
                r = any(go(i + 1, k) for k in range(j, len(comps) + 1))
            else:
                r = j < len(comps) and sp_tok_match(toks[i], comps[j], cs) and go(i + 1, j + 1)
            memo[key] = r
            return r

        return go(0, 0)

    def empty_tail(self):
        """the last component that is not `**` consists of `*` only"""
        pcs = list(self.pcs)
        while pcs and pcs[-1] == "**":
            pcs.pop()
        return bool(pcs) and all(t[0] == "*" for t in sp_tokens(pcs[-1]))

    def dev_class(self, comps, is_dir):
        """the open deviation class an input belongs to, or None"""
        if is_dir and not self.dir_only and self.empty_tail():
            return "empty"
        return class_dev([t for ts in self.toks if ts for t in ts])


def class_dev(toks, glob=True):
    """a bracket expression with a reversed range (re.compile fails)"""
    for t in toks:
        if t[0] == "[" and any(lo > hi for lo, hi in sp_ranges(t[2])):
            return "rev"
    return None


def spec_wild(pat, name, cs):
    p = pat if cs else "".join(a_lower(c) for c in pat)
    return sp_tok_match(sp_tokens(p), name, cs)


def resource_of(s):
    """'a/b/' -> (['a','b'], True); None when s is not a resource"""
    if not s:
        return None
    comps = s.split("/")
    is_dir = comps[-1] == ""
    if is_dir:
        comps.pop()
    if not comps or any(c in ("", ".", "..") for c in comps):
        return None
    return comps, is_dir


# ----------------------------------------------------------------------------- generators


def exhaustive_patterns(maxlen):
    seen = set()
    out = []
    for n in range(maxlen + 1):
        for t in itertools.product(PAT_ALPHA, repeat=n):
            s = "".join(t)
            if s not in seen:
                seen.add(s)
                out.append(s)
    return out


def exact_len_patterns(n):
    """patterns made of exactly n symbols that are not already made of fewer"""
    return ["".join(t) for t in itertools.product(PAT_ALPHA, repeat=n)]


def random_patterns(rng, count, ascii_only=False):
    out = []
    for _ in range(count):
        pool = rng.choice(RAND_POOLS[:2] if ascii_only else RAND_POOLS)
        n = rng.choice([3, 5, 7, 9, 12, 16, 24])
        r = rng.random()
        if r < 0.35:
            # bracket-heavy
            parts = []
            for _ in range(rng.randint(1, 4)):
                body = "".join(rng.choice(pool) for _ in range(rng.randint(0, 4)))
                parts.append(rng.choice(["[", "[!", "[]", "[!]", "[^", "[-", "[!-"]) + body + rng.choice(["]", "]", "-]", ""]))
                parts.append("".join(rng.choice(pool) for _ in range(rng.randint(0, 2))))
            out.append("".join(parts))
        elif r < 0.6:
            comps = []
            for _ in range(rng.randint(1, 5)):
                comps.append(rng.choice(["**", "*", "a", "b", "*.py", "a*", "?", "[ab]", "[!a]", "a**", "**b", ".", "..", ""]
                                        + ["".join(rng.choice(pool) for _ in range(rng.randint(1, 3)))]))
            out.append(rng.choice(["", "/"]) + "/".join(comps) + rng.choice(["", "/"]))
        else:
            out.append("".join(rng.choice(pool) for _ in range(n)))
    return out


def subjects(alpha, n):
    out = []
    for k in range(n + 1):
        for t in itertools.product(alpha, repeat=k):
            out.append("".join(t))
    return out


_SUBJ_CACHE = {}


def subj_table(alpha, n):
    key = (alpha, n)
    if key not in _SUBJ_CACHE:
        ss = subjects(alpha, n)
        _SUBJ_CACHE[key] = (ss, [resource_of(s) for s in ss])
    return _SUBJ_CACHE[key]


# ----------------------------------------------------------------------------- workers (run in a process pool)


def _mm(out, **kw):
    """record a disagreement: at most 4 with a failing input of the property + 4 without, per job"""
    f = bool(kw.get("property_fails"))
    if sum(1 for m in out["mismatch"] if bool(m.get("property_fails")) == f) < 4:
        out["mismatch"].append(kw)
        out["mismatch"].sort(key=lambda m: not m.get("property_fails"))
    out["n_mismatch"] += 1


def w_translate(job):
    """(i): translators of every pattern in the chunk"""
    pats, with_ci = job
    drv = vlib.Driver()
    reqs = []
    for p in pats:
        h = hx(p)
        reqs.append("glob.translate %s 1" % h)
        reqs.append("wild.translate %s 1" % h)
        if with_ci:
            reqs.append("glob.translate1 %s" % h)
            reqs.append("wild.translate %s 0" % h)
    replies = drv.batch(reqs)
    out = {"mismatch": [], "n_mismatch": 0, "evals": 0, "hist": {}, "follow": []}
    hist = out["hist"]
    k = 0
    follow = []  # (pattern, fn, text, ic, impl status): the AST route is `outside`, ask the parser

    def tie(fn, p, f, status_i, st_impl, text, ic):
        st = f[status_i]
        hist[fn + ":" + st] = hist.get(fn + ":" + st, 0) + 1
        if st == "ok":
            return st_impl == "ok" and f[status_i + 1] == "1" and f[status_i + 2] == "1"
        if st == "reError":
            return st_impl == "reError" and f[status_i + 2] == "1"
        if st == "outside":
            follow.append((p, fn, text, ic, st_impl))
            return True
        return False

    for p in pats:
        # glob._translate_glob
        r = replies[k]; k += 1
        impl = impl_glob_translate(p)
        f = r.split(" ")
        if f[0] == "ok" and impl[0] == "ok":
            ok = (f[1], f[2], unhx(f[3])) == impl[1:4] and tie("glob", p, f, 4, impl[4], impl[3], False)
        else:
            ok = (f[0], f[1]) == impl[:2]
            hist["glob:" + f[1]] = hist.get("glob:" + f[1], 0) + 1
        if not ok:
            _mm(out, fn="glob._translate_glob", pattern=p, model=r, impl=list(impl))
        # wildcard._translate, glob._translate
        for cs in ([True, None, False] if with_ci else [True]):
            r = replies[k]; k += 1
            if cs is None:
                impl = impl_glob_translate1(p)
                f = r.split(" ")
                if (f[0], unhx(f[1]) if f[0] == "ok" else f[1]) != impl:
                    _mm(out, fn="glob._translate", pattern=p, model=r, impl=list(impl))
                continue
            if not cs and not p.isascii():
                continue
            impl = impl_wild_translate(p, cs)
            f = r.split(" ")
            ok = f[0] == "ok" and unhx(f[1]) == impl[1] and tie("wild", p, f, 2, impl[2], impl[1], not cs)
            if not ok:
                _mm(out, fn="wildcard._translate", cs=cs, pattern=p, model=r, impl=list(impl))
        out["evals"] += 4 if with_ci else 2
    if follow:
        replies = drv.batch(["regex.print %s %d" % (hx(t), ic) for (_p, _fn, t, ic, _s) in follow])
        for (p, fn, text, ic, st_impl), r in zip(follow, replies):
            f = r.split(" ")
            if f[0] == "ok":
                ok = st_impl == "ok" and unhx(f[1]) == text
                hist["text-route:ok"] = hist.get("text-route:ok", 0) + 1
            elif f[1] == "reError":
                ok = st_impl == "reError"
                hist["text-route:reError"] = hist.get("text-route:reError", 0) + 1
            else:
                ok = True
                hist["text-route:outside"] = hist.get("text-route:outside", 0) + 1
            if not ok:
                _mm(out, fn=fn + "(text route)", pattern=p, model=r, impl=[text, st_impl])
    return out


def _dev(out, sig, **kw):
    d = out["known"].setdefault(sig, {"n": 0, "example": None})
    d["n"] += 1
    if d["example"] is None:
        d["example"] = kw


def w_glob_tables(job):
    """(ii)+(iii) for glob: model / regex / spec tables of each pattern over all subjects"""
    pats, n, cs_list, with_regex = job
    import fs.glob as G

    drv = vlib.Driver()
    ss, res = subj_table(SUBJ_ALPHA, n)
    al = hx(SUBJ_ALPHA)
    reqs = []
    texts = {}
    for p in pats:
        for cs in cs_list:
            reqs.append("glob.mtableN %s %d %s %d" % (hx(p), cs, al, n))
            reqs.append("glob.stableN %s %d %s %d" % (hx(p), cs, al, n))
            if with_regex:
                t = impl_glob_translate(p)
                texts[p] = t[3] if t[0] == "ok" else None
                reqs.append("regex.mtableN %s %d %s %d" % (hx(t[3]), not cs, al, n) if t[0] == "ok" else "path.isabs -")
    replies = drv.batch(reqs)
    out = {"mismatch": [], "n_mismatch": 0, "evals": 0, "hist": {}, "known": {}, "nontrivial": []}
    hist = out["hist"]
    k = 0
    for p in pats:
        for cs in cs_list:
            model = replies[k]; spec_l = replies[k + 1]; k += 2
            rx = None
            if with_regex:
                rx = replies[k]; k += 1
            if not cs and not p.isascii():
                continue
            impl = impl_bits(G.match if cs else G.imatch, p, ss)
            out["evals"] += len(ss)
            if "1" in impl:
                out["nontrivial"].append((p, cs))
            sp = GlobSpecPy(p, cs)
            if model.startswith("err outside"):
                hist["match:outside-model"] = hist.get("match:outside-model", 0) + 1
            elif model != impl:
                both = model[:2] == impl[:2] == "ok"
                diff = [i for i in range(len(ss)) if model[3 + i:4 + i] != impl[3 + i:4 + i]] if both else [0]
                # model and code are booleans: where they differ and the code also differs from the
                # documented semantics, the (unchanged) model agreed with it - a new failing input
                bad = [i for i in diff if both and res[i] and not sp.unspecified and (impl[3 + i] == "1") != sp.matches(*res[i])]
                i = (bad or diff)[0]
                _mm(out, fn="glob.match" if cs else "glob.imatch", pattern=p, path=ss[i], cs=cs,
                    model=model[:3] + model[3 + i:4 + i] if model.startswith("ok") else model,
                    impl=impl[:3] + impl[3 + i:4 + i] if impl.startswith("ok") else impl,
                    property_fails=bool(bad) or (impl.startswith("err") and not sp.unspecified))
            if with_regex and texts.get(p) is not None:
                rimpl = impl_regex_bits(texts[p], not cs, ss)
                out["evals"] += len(ss)
                if rx != rimpl and not rx.startswith("err outside"):
                    i = next((i for i in range(len(ss)) if rx[3:][i:i + 1] != rimpl[3:][i:i + 1]), 0) if rx[:2] == rimpl[:2] == "ok" else 0
                    _mm(out, fn="re.match", regex=texts[p], ic=not cs, subject=ss[i], model=rx[:40], impl=rimpl[:40], property_fails=False)
            # the property: code vs documented semantics (and the two statements of the spec agree)
            sbits = spec_l[3:]
            if impl.startswith("err"):
                cls = class_dev([t for ts in sp.toks if ts for t in ts])
                name = impl[4:]
                if name == "reError" and cls == "rev":
                    _dev(out, SIG[cls], pattern=p, cs=cs, impl=impl)
                elif name == "IllegalBackReference" and ".." in sp.pcs:
                    hist["unspecified:pattern-with-dotdot-raises"] = hist.get("unspecified:pattern-with-dotdot-raises", 0) + 1
                elif not model.startswith("err outside") and model == impl and sp.unspecified:
                    hist["unspecified:raises"] = hist.get("unspecified:raises", 0) + 1
                else:
                    _mm(out, fn="glob.match raises", pattern=p, cs=cs, model=model, impl=impl, property_fails=True)
                continue
            cbits = impl[3:]
            for i, r in enumerate(res):
                if r is None or (cbits[i] == sbits[i] and i >= 400 and i % 7):
                    continue  # Python statement of the spec: every deviation + all short + 1/7 of the rest
                want = sp.matches(*r)
                if (sbits[i] == "1") != want:
                    _mm(out, fn="GlobSpec(lean) vs GlobSpec(python)", pattern=p, cs=cs, resource=ss[i], lean=sbits[i], python=want, property_fails=False)
                    continue
                if (cbits[i] == "1") == want:
                    continue
                if sp.unspecified:
                    hist["unspecified:differs"] = hist.get("unspecified:differs", 0) + 1
                    continue
                cls = sp.dev_class(*r)
                if cls is None:
                    _mm(out, fn="glob.match vs documented semantics", pattern=p, cs=cs, resource=ss[i], code=cbits[i], spec=want, property_fails=True)
                else:
                    _dev(out, SIG[cls], pattern=p, cs=cs, resource=ss[i], code=cbits[i] == "1", documented=want)
    return out


def w_wild_tables(job):
    pats, n, cs_list = job
    import fs.wildcard as W

    drv = vlib.Driver()
    ss, _res = subj_table(SUBJ_ALPHA, n)
    al = hx(SUBJ_ALPHA)
    reqs = []
    for p in pats:
        for cs in cs_list:
            reqs.append("wild.mtableN %s %d %s %d" % (hx(p), cs, al, n))
            reqs.append("wild.stableN %s %d %s %d" % (hx(p), cs, al, n))
    replies = drv.batch(reqs)
    out = {"mismatch": [], "n_mismatch": 0, "evals": 0, "hist": {}, "known": {}, "nontrivial": []}
    k = 0
    for p in pats:
        for cs in cs_list:
            model = replies[k]; spec_l = replies[k + 1]; k += 2
            if not cs and not p.isascii():
                continue
            impl = impl_bits(W.match if cs else W.imatch, p, ss)
            out["evals"] += len(ss)
            if "1" in impl:
                out["nontrivial"].append(("w", p, cs))
            toks = sp_tokens(p if cs else "".join(a_lower(c) for c in p))
            if model != impl:
                both = model[:2] == impl[:2] == "ok"
                diff = [i for i in range(len(ss)) if model[3 + i:4 + i] != impl[3 + i:4 + i]] if both else [0]
                bad = [i for i in diff if both and "/" not in ss[i] and (impl[3 + i] == "1") != sp_tok_match(toks, ss[i], cs)]
                i = (bad or diff)[0]
                _mm(out, fn="wildcard.match" if cs else "wildcard.imatch", pattern=p, name=ss[i], cs=cs, model=model[:3] + model[3 + i:4 + i],
                    impl=impl[:3] + impl[3 + i:4 + i], property_fails=bool(bad) or impl.startswith("err"))
            if impl.startswith("err"):
                if impl == "err reError" and class_dev(toks, glob=False) == "rev":
                    _dev(out, SIG["rev"], pattern=p, cs=cs, impl=impl, fn="wildcard")
                else:
                    _mm(out, fn="wildcard.match raises", pattern=p, cs=cs, impl=impl, property_fails=True)
                continue
            cbits, sbits = impl[3:], spec_l[3:]
            for i, s in enumerate(ss):
                if cbits[i] == sbits[i] and i >= 400 and i % 7:
                    continue
                want = sp_tok_match(toks, s, cs)
                if (sbits[i] == "1") != want:
                    _mm(out, fn="WildSpec(lean) vs WildSpec(python)", pattern=p, cs=cs, name=s, lean=sbits[i], python=want, property_fails=False)
                elif "/" not in s and (cbits[i] == "1") != want:
                    _mm(out, fn="wildcard.match vs documented semantics", pattern=p, cs=cs, name=s, code=cbits[i], spec=want, property_fails=True)
    return out


# ----------------------------------------------------------------------------- (iv) Globber on trees

TREE_NAMES = ["a", "b", "A", "ab", "a.py", "b.py", "B.PY", ".git", "x[", "c.txt", "d", "a\nb", "e!", "0"]
GLOB_PATTERNS = [
    "*", "*/*", "**", "**/*", "*.py", "**/*.py", "a/**/b", "a/**", "**/a", "**/a/", "*/", "**/", "a/*", "[ab]", "[!a]*",
    "?", "??", "a*", "*/a/*", ".*", "**/.git/", "a/b", "A", "*.PY", "a\nb", "*/*/*", "**/*/", "a", "a/", "**/b.py", "x[",
    "[!]a]", "[+-9]", "a[+-9]b", "[b-a]", "**.py", "a/../b", "..", "", "/", "*/**", "**/**", "d/**/*", "[a-b]*", "*[!y]",
]


def gen_tree(rng, max_nodes=14):
    """a tree spec: list of (path, is_dir, content)"""
    spec = []
    dirs = [""]
    for _ in range(rng.randint(1, max_nodes)):
        parent = rng.choice(dirs)
        if parent.count("/") >= 4:
            continue
        name = rng.choice(TREE_NAMES)
        path = parent + "/" + name
        if any(e[0] == path for e in spec):
            continue
        if rng.random() < 0.45:
            spec.append((path, True, None))
            dirs.append(path)
        else:
            lines = [rng.choice(["", "x", "  ", "hello world", "\t"]) for _ in range(rng.randint(0, 4))]
            body = "\n".join(lines) + rng.choice(["", "\n"])
            spec.append((path, False, body))
    return spec


def build_tree(spec):
    from fs.memoryfs import MemoryFS

    m = MemoryFS()
    for path, is_dir, body in spec:
        if is_dir:
            m.makedir(path)
        else:
            m.writebytes(path, body.encode("utf-8"))
    return m


def full_walk(m):
    """every resource below the root, as (path, is_dir): recursive listdir, no Walker involved"""
    out = []
    stack = ["/"]
    while stack:
        d = stack.pop()
        for name in m.listdir(d):
            p = (d if d.endswith("/") else d + "/") + name
            if m.isdir(p):
                out.append((p, True))
                stack.append(p)
            else:
                out.append((p, False))
    return sorted(out)


def w_globber(job):
    seeds_specs, patterns = job
    import fs.glob as G

    out = {"mismatch": [], "n_mismatch": 0, "evals": 0, "hist": {}, "known": {}, "nontrivial": [], "programs": 0}
    hist = out["hist"]
    # the model's answer (no cache, `Glob.compile pat cs` on every rendered path) for every tree x pattern
    drv = vlib.Driver()
    walks, reqs = [], []
    for spec in seeds_specs:
        m = build_tree(spec)
        everything = full_walk(m)
        m.close()
        walks.append(everything)
        rendered = [path + ("/" if d else "") for (path, d) in everything]
        for (p, cs) in patterns:
            reqs.append("glob.mtable %s %d %s" % (hx(p), cs, hxlist(rendered)))
    model_replies = iter(drv.batch(reqs))
    for ti, spec in enumerate(seeds_specs):
        m = build_tree(spec)
        everything = walks[ti]
        for pi, (p, cs) in enumerate(patterns):
            out["programs"] += 1
            model = next(model_replies)
            sp = GlobSpecPy(p, cs)
            fmatch = G.match if cs else G.imatch
            case = {"kind": "globber", "tree": spec, "pattern": p, "cs": cs}

            def run_match():
                try:
                    return sorted((path + ("/" if d else ""), d) for (path, d) in everything if fmatch(p, path + ("/" if d else ""))), None
                except Exception as e:
                    return None, exc_name(e)

            def run_glob():
                try:
                    return sorted((mt.path, bool(mt.info.is_dir)) for mt in m.glob(p, case_sensitive=cs)), None
                except Exception as e:
                    return None, exc_name(e)

            # who touches the process-wide pattern cache first alternates: the Globber's own
            # cache access (hit and miss) is exercised as well as match/imatch's
            if (ti + pi) % 2:
                got, got_err = run_glob()
                want, want_err = run_match()
            else:
                want, want_err = run_match()
                got, got_err = run_glob()
            # both against the model (whatever earlier calls left in the cache)
            if model.startswith("ok "):
                mset = sorted((path + ("/" if d else ""), d) for (path, d), b in zip(everything, model[3:]) if b == "1")
                for who, res, err in (("glob.match" if cs else "glob.imatch", want, want_err), ("Globber", got, got_err)):
                    if err is None and res != mset:
                        diff = [e for e in res if e not in mset] + [e for e in mset if e not in res]
                        bad = [e for e in diff if not sp.unspecified
                               and sp.matches(e[0].strip("/").split("/"), e[1]) != (e in res)]
                        _mm(out, fn="%s vs model (same process, cache as left by earlier calls)" % who,
                            differs_on=diff[:4], failing=bad[:2], property_fails=bool(bad), **case)
            elif not model.startswith("err outside") and (want_err or got_err):
                if "err " + (want_err or "") != model or "err " + (got_err or "") != model:
                    _mm(out, fn="Globber/match raise vs model", model=model, match_raises=want_err, glob_raises=got_err, property_fails=False, **case)
            out["evals"] += len(everything)
            if want_err or got_err:
                if want_err != got_err:
                    _mm(out, fn="Globber raises", note="glob() raises %s, match() raises %s" % (got_err, want_err), property_fails=True, **case)
                else:
                    hist["globber:raises:" + got_err] = hist.get("globber:raises:" + got_err, 0) + 1
                continue
            if got:
                out["nontrivial"].append(("g", p, cs, tuple(e[0] for e in spec)))
            if got != want:
                lost = [e for e in want if e not in got]
                extra = [e for e in got if e not in want]
                _mm(out, fn="Globber vs filter over complete walk", lost=lost[:4], extra=extra[:4], property_fails=True, **case)
                continue
            # vs the documented semantics
            if not sp.unspecified:
                gotset = set(got)
                for (path, d) in everything:
                    comps = path.strip("/").split("/")
                    w = sp.matches(comps, d)
                    g = (path + ("/" if d else ""), d) in gotset
                    if w != g:
                        cls = sp.dev_class(comps, d)
                        if cls is None:
                            _mm(out, fn="Globber vs documented semantics", resource=path, is_dir=d, code=g, spec=w, property_fails=True, **case)
                        else:
                            _dev(out, SIG[cls], resource=path, is_dir=d, code=g, documented=w, **case)
            # count / count_lines / remove act on exactly that set
            try:
                c = m.glob(p, case_sensitive=cs).count()
                exp = (sum(1 for _p, d in got if not d), sum(1 for _p, d in got if d), sum(m.getsize(pp) for pp, _d in got))
                if (c.files, c.directories, c.data) != exp:
                    _mm(out, fn="Globber.count", got=[c.files, c.directories, c.data], expected=list(exp), property_fails=True, **case)
                lc = m.glob(p, case_sensitive=cs).count_lines()
                lines = nb = 0
                for pp, d in got:
                    if not d:
                        for line in m.readbytes(pp).splitlines(True):
                            lines += 1
                            nb += 1 if line.rstrip() else 0
                if (lc.lines, lc.non_blank) != (lines, nb):
                    _mm(out, fn="Globber.count_lines", got=[lc.lines, lc.non_blank], expected=[lines, nb], property_fails=True, **case)
                m2 = build_tree(spec)
                removed = m2.glob(p, case_sensitive=cs).remove()
                gone = [pp.rstrip("/") for pp, _d in got]
                # a resource below a matched directory that is visited before it is removed first
                remain = [(pp, d) for (pp, d) in everything if not any(pp == g or pp.startswith(g + "/") for g in gone)]
                if full_walk(m2) != remain or removed != len(got):
                    _mm(out, fn="Globber.remove", removed=removed, expected_removed=len(got), remaining=full_walk(m2)[:6], expected_remaining=remain[:6], property_fails=True, **case)
                m2.close()
                out["evals"] += 3
            except Exception as e:
                _mm(out, fn="Globber batch method raises", note=repr(e)[:200], property_fails=True, **case)
        m.close()
    return out


# ----------------------------------------------------------------------------- (v) LRU cache


def lru_check(rep, drv, rng, n_seq):
    from fs.lrucache import LRUCache
    import fs.glob as G

    reqs, impls = [], []
    for _ in range(n_seq):
        size = rng.randint(1, 4)
        cache = LRUCache(size)
        ops, results = [], []
        for _ in range(rng.randint(1, 14)):
            key = rng.choice("abcde")
            if rng.random() < 0.5:
                ops.append("g" + key)
                try:
                    results.append(cache[key])
                except KeyError:
                    results.append("KeyError")
            else:
                val = rng.choice("xyz")
                ops.append("s%s=%s" % (key, val))
                cache[key] = val
                results.append("")
        reqs.append("lru.run %d %s" % (size, hxlist(ops)))
        impls.append("ok %s %s" % (hxlist(results), hxlist(list(cache.keys()))))
    # the cached match: swap in a small cache, run a history of match/imatch calls
    pats = ["*", "*.py", "a/**/b", "[b-a]", "..", "**", "a", "A*", "[!]a]"]
    paths = ["a", "/a/b", "A.PY", "/a/x/b", "a.py", ""]
    saved = G._PATTERN_CACHE
    try:
        for _ in range(n_seq):
            size = rng.randint(1, 3)
            G._PATTERN_CACHE = LRUCache(size)
            ops, results = [], []
            for _ in range(rng.randint(1, 10)):
                p, s, cs = rng.choice(pats), rng.choice(paths), rng.random() < 0.6
                ops.append(("1" if cs else "0") + p + "\n" + s)
                try:
                    results.append("ok " + ("1" if (G.match if cs else G.imatch)(p, s) else "0"))
                except Exception as e:
                    results.append("err " + exc_name(e))
            reqs.append("glob.cached %d %s" % (size, hxlist(ops)))
            impls.append("ok %s %s" % (hxlist(results), hxlist([("1" if k[1] else "0") + k[0] for k in G._PATTERN_CACHE.keys()])))
    finally:
        G._PATTERN_CACHE = saved
    for req, model, impl in zip(reqs, drv.batch(reqs), impls):
        rep.evaluations += 1
        if model != impl and len(rep.violations) < 6:
            rep.violation({"kind": "lru", "request": req, "model": model, "impl": impl},
                          "LRU cache / cached match: model %s, code %s" % (model[:120], impl[:120]),
                          found_input=False, signature="C14/lru/correspondence")
    rep.programs += len(reqs)


def _one_file_glob(name, p, cs):
    """Globber over a tree holding the single file `name`: does it yield /name ?"""
    from fs.memoryfs import MemoryFS

    m = MemoryFS()
    try:
        m.touch(name)
        return any(x.path == "/" + name for x in m.glob(p, case_sensitive=cs))
    finally:
        m.close()


def cache_history_check(rep, drv, rng, n_seq):
    """every user of the two _PATTERN_CACHEs in one history: glob.match/imatch (m), the Globber (g),
    wildcard.match/imatch (w) - small caches swapped in, results and final key order vs Glob.runAll"""
    from fs.lrucache import LRUCache
    import fs.glob as G
    import fs.wildcard as W

    pats = ["a", "A", "a*", "*.py", "*.PY", "[ab]", "?", "[b-a]", "*", "A*"]
    names = ["a", "A", "a.py", "A.PY", "b"]
    saved = (G._PATTERN_CACHE, W._PATTERN_CACHE)
    reqs, impls, cases = [], [], []
    try:
        for _ in range(n_seq):
            gs, ws = rng.randint(1, 3), rng.randint(1, 3)
            G._PATTERN_CACHE, W._PATTERN_CACHE = LRUCache(gs), LRUCache(ws)
            few = rng.sample(pats, 3)  # few texts, both case modes: collisions are the point
            ops, results, fails = [], [], []
            for _ in range(rng.randint(2, 9)):
                k, p, nm, cs = rng.choice("mgw"), rng.choice(few), rng.choice(names), rng.random() < 0.5
                ops.append(k + ("1" if cs else "0") + p + "\n" + ("/" + nm if k != "w" else nm))
                try:
                    if k == "m":
                        r = (G.match if cs else G.imatch)(p, "/" + nm)
                    elif k == "g":
                        r = _one_file_glob(nm, p, cs)
                    else:
                        r = (W.match if cs else W.imatch)(p, nm)
                    results.append("ok " + ("1" if r else "0"))
                    want = spec_wild(p, nm, cs) if k == "w" else GlobSpecPy(p, cs).matches([nm], False)
                    if bool(r) != want:
                        fails.append({"op": ops[-1], "code": bool(r), "documented": want})
                except Exception as e:
                    results.append("err " + exc_name(e))
            reqs.append("cache.run %d %d %s" % (gs, ws, hxlist(ops)))
            impls.append("ok %s %s %s" % (hxlist(results),
                                          hxlist([("1" if key[1] else "0") + key[0] for key in G._PATTERN_CACHE.keys()]),
                                          hxlist([("1" if key[1] else "0") + key[0] for key in W._PATTERN_CACHE.keys()])))
            cases.append(fails)
    finally:
        G._PATTERN_CACHE, W._PATTERN_CACHE = saved
    shown = 0
    for req, model, impl, fails in zip(reqs, drv.batch(reqs), impls, cases):
        rep.evaluations += 1
        if model != impl and shown < 3:
            shown += 1
            rep.violation({"kind": "lru", "request": req, "model": model, "impl": impl, "failing_input": fails[:2]},
                          "pattern caches (match / Globber / wildcard in one history): model %s, code %s%s"
                          % (model[:160], impl[:160], (" - failing input %r" % fails[0]) if fails else ""),
                          found_input=bool(fails), signature="C14/cache/history")
    rep.programs += len(reqs)


INTERLEAVE_TREE = [("/a", False, ""), ("/A", False, ""), ("/ab", False, ""), ("/AB", False, ""), ("/a.py", False, ""),
                   ("/A.PY", False, ""), ("/aB", False, ""), ("/b", True, None), ("/b/a", False, ""), ("/b/A.py", False, ""),
                   ("/B", True, None), ("/B/a", False, ""), ("/B/Ab", True, None)]
INTERLEAVE_TEMPLATES = ["{x}", "{x}*", "*{x}", "{x}?", "[{x}{y}]*", "*.{x}{y}", "*/{x}*", "**/{x}", "{x}/*", "**/*{y}", "{x}{y}", "[!{x}]*"]
ORDERS = [
    [("G", False), ("m", True), ("G", True), ("m", False)],
    [("G", True), ("G", False), ("m", True), ("G", True)],
    [("m", False), ("G", True), ("m", True), ("G", False), ("m", True)],
    [("m", True), ("G", False), ("G", True), ("m", True)],
]


def cache_interleave_check(rep, drv, rng, n_pat, only=None):
    """the same pattern text in both case modes within this one process, nothing cleared in between
    (the process-wide _PATTERN_CACHEs are the point): Globber case-insensitive first, then
    match / Globber case-sensitive; the reverse; imatch first; ... - every answer vs the model's
    cache-free answer and vs the documented semantics.  wildcard.match/imatch likewise."""
    import fs.glob as G
    import fs.wildcard as W

    letters = ["a", "A", "b", "B", "p", "Y"]
    texts = []
    for t in INTERLEAVE_TEMPLATES:
        for x in letters:
            for y in letters:
                texts.append(t.format(x=x, y=y))
    texts = sorted(set(texts))
    rng.shuffle(texts)
    texts = texts[:n_pat]
    if only is not None:
        texts = [only] * len(ORDERS)  # every order on this one text
    m = build_tree(INTERLEAVE_TREE)
    everything = full_walk(m)
    rendered = [path + ("/" if d else "") for (path, d) in everything]
    names = sorted({path.rsplit("/", 1)[1] for path, _d in everything})
    reqs = []
    for p in texts:
        for cs in (1, 0):
            reqs.append("glob.mtable %s %d %s" % (hx(p), cs, hxlist(rendered)))
            reqs.append("wild.mtable %s %d %s" % (hx(p), cs, hxlist(names)))
    replies = iter(drv.batch(reqs))
    shown = 0
    try:
        for i, p in enumerate(texts):
            model = {}
            for cs in (True, False):
                model[("g", cs)] = next(replies)
                model[("w", cs)] = next(replies)
            order = ORDERS[i % len(ORDERS)]
            history = []
            for kind, cs in order:
                if kind == "G":
                    ans = {x.path for x in m.glob(p, case_sensitive=cs)}
                else:
                    f = G.match if cs else G.imatch
                    ans = {r for r in rendered if f(p, r)}
                history.append("%s(%s)" % ("Globber" if kind == "G" else "match", "cs" if cs else "ci"))
                rep.evaluations += len(rendered)
                want = {r for r, b in zip(rendered, model[("g", cs)][3:]) if b == "1"}
                if ans != want and shown < 3:
                    shown += 1
                    sp = GlobSpecPy(p, cs)
                    diff = sorted(ans ^ want)
                    bad = [r for r in diff if not sp.unspecified and sp.dev_class(*resource_of(r.lstrip("/"))) is None
                           and sp.matches(*resource_of(r.lstrip("/"))) != (r in ans)]
                    rep.violation({"kind": "interleave", "pattern": p, "history": history, "differs_on": diff[:5],
                                   "failing_input": bad[:2]},
                                  "pattern %r after %s in one process: %s differ from the cache-free answer%s"
                                  % (p, " -> ".join(history), diff[:4],
                                     (" - %r %s but the documented semantics say otherwise" % (bad[0], "matches" if bad[0] in ans else "does not match")) if bad else ""),
                                  found_input=bool(bad), signature="C14/cache/interleave")
            if "/" not in p:
                for cs in ([False, True, False] if i % 2 else [True, False, True]):
                    f = W.match if cs else W.imatch
                    ans = "".join("1" if f(p, nm) else "0" for nm in names)
                    rep.evaluations += len(names)
                    if "ok " + ans != model[("w", cs)] and shown < 3:
                        shown += 1
                        bad = [nm for nm, b in zip(names, ans) if (b == "1") != spec_wild(p, nm, cs)]
                        rep.violation({"kind": "interleave", "pattern": p, "fn": "wildcard", "cs": cs, "code": ans,
                                       "model": model[("w", cs)], "failing_input": bad[:2]},
                                      "wildcard pattern %r used in both case modes in one process: code %s, cache-free model %s"
                                      % (p, ans, model[("w", cs)]), found_input=bool(bad), signature="C14/cache/interleave")
            rep.nontrivial("interleave", p)
    finally:
        m.close()
    rep.programs += len(texts)


# ----------------------------------------------------------------------------- matchers built from pattern lists


def matcher_check(rep, drv, rng, n):
    import fs.glob as G
    import fs.wildcard as W

    pool = ["*.py", "a/*", "a/**/b", "foo/bar/*.py", "[ab]/c", "a[/]b/c", "**", "*", "", "a/b/", "[b-a]", "x/[!]/y", "*/*/", "A*"]
    names = ["a", "a.py", "A.PY", "/a/b", "/a/", "/foo", "/foo/bar", "/foo/bar/", "/foo/bar/x.py", "a/b/c", "", "a[", "/a/x/b", "/x/y"]
    reqs, impls = [], []
    for _ in range(n):
        pats = [rng.choice(pool) for _ in range(rng.randint(0, 3))]
        cs = rng.random() < 0.6
        ap = rng.random() < 0.5
        s = rng.choice(names)
        reqs.append("glob.matcher %s %s %d %d" % (hxlist(pats), hx(s), cs, ap))
        try:
            impls.append("ok " + ("1" if G.get_matcher(pats, cs, accept_prefix=ap)(s) else "0"))
        except Exception as e:
            impls.append("err " + exc_name(e))
        reqs.append("wild.matchany %s %s %d" % (hxlist(pats), hx(s), cs))
        try:
            impls.append("ok " + ("1" if W.get_matcher(pats, cs)(s) else "0"))
        except Exception as e:
            impls.append("err " + exc_name(e))
        if pats:
            reqs.append("glob.prefixes %s" % hxlist(pats))
            # the pattern list get_matcher builds is observable through functools.partial
            impls.append("ok " + hxlist(list(G.get_matcher(pats, cs, accept_prefix=True).args[0])))
        p1 = rng.choice(pool + random_patterns(rng, 3, ascii_only=True))
        reqs.append("glob.split %s" % hx(p1))
        impls.append("ok " + hxlist(G._split_pattern_by_sep(p1)))
    for req, model, impl in zip(reqs, drv.batch(reqs), impls):
        rep.evaluations += 1
        if model != impl and len(rep.violations) < 6:
            rep.violation({"kind": "matcher", "request": req, "model": model, "impl": impl},
                          "get_matcher/_split_pattern_by_sep: model %s, code %s (%s)" % (model[:100], impl[:100], req[:60]),
                          found_input=False, signature="C14/matcher/correspondence")
    rep.programs += n


# ----------------------------------------------------------------------------- witnesses of the Lean counterexample theorems

WITNESSES = [
    # (theorem, pattern, resource, code answer, documented answer, open finding or None)
    ("two_level_matches_one_level_dir", "*/*", "d/", True, False, "empty"),
    ("star_matches_directories_repaired", "*", "d/", True, True, None),
    ("dollar_newline_repaired", "a", "a\nb", False, False, None),
    ("starstar_whole_levels_repaired", "a/**/b", "ax/b", False, False, None),
    ("starstar_whole_levels_repaired", "a/**/b", "a/x/y/b", True, True, None),
    ("starstar_whole_levels_repaired", "a/**/b", "a/b", True, True, None),
    ("negated_class_repaired", "[!-a]", "B", True, True, None),
    ("negated_class_repaired", "[!]a]", "b", True, True, None),
    ("negated_class_repaired", "[!]a]", "]", False, False, None),
    ("negated_class_repaired", "a[!]|.*|]", "anything/at/all", False, False, None),
    ("class_range_separator_repaired", "a[+-9]b", "a/b", False, False, None),
    ("levels_newline_repaired", "a", "a\n/b", False, False, None),
]


def witness_check(rep):
    """the concrete theorems of FsProofs/C14.lean replayed on the real code: the open
    counterexample must still reproduce (KNOWN-FINDING), the `_repaired` ones must stay repaired"""
    import fs.glob as G

    for name, pat, res, code_want, spec_want, cls in WITNESSES:
        comps, is_dir = resource_of(res)
        code = G.match(pat, "/" + res)
        spec = GlobSpecPy(pat).matches(comps, is_dir)
        rep.evaluations += 1
        case = {"kind": "witness", "theorem": "Fs.C14." + name, "pattern": pat, "path": "/" + res, "code": code, "documented": spec}
        if spec != spec_want:
            rep.violation(case, "witness %s: the Python statement of the documented semantics answers %s" % (name, spec),
                          found_input=False, signature="C14/witness/spec")
        elif code != code_want:
            rep.violation(case, "theorem %s no longer describes the code: glob.match(%r, %r) = %s (documented: %s)"
                          % (name, pat, "/" + res, code, spec), found_input=code != spec, signature="C14/witness/" + name)
        elif cls is not None:
            rep.violation(case, "glob.match(%r, %r) = %s, documented semantics %s (theorem %s)" % (pat, "/" + res, code, spec, name),
                          found_input=True, signature=SIG[cls])
    try:
        G.match("[b-a]", "x")
        rep.violation({"kind": "witness", "theorem": "Fs.C14.reversed_range_raises"}, "glob.match('[b-a]', 'x') no longer raises",
                      found_input=False, signature="C14/witness/reversed_range_raises")
    except re.error:
        rep.violation({"kind": "witness", "pattern": "[b-a]", "path": "x"}, "glob.match('[b-a]', 'x') raises re.error",
                      found_input=True, signature=SIG["rev"])


# ----------------------------------------------------------------------------- run


def chunks(l, n):
    return [l[i : i + n] for i in range(0, len(l), n)]


def merge(rep, outs, phase, maxviol=6):
    import time
    rep.extra.setdefault("phase_wall_s", {})[phase] = round(time.time() - rep.t0, 1)
    for o in outs:
        rep.evaluations += o.get("evals", 0)
        rep.programs += o.get("programs", 0)
        for k, v in o.get("hist", {}).items():
            rep.count(phase + "/" + k, v)
        for key in o.get("nontrivial", []):
            rep.nontrivial(*key)
        for sig, d in o.get("known", {}).items():
            rep.count("known/" + sig, d["n"])
            if rep.match_known(sig) is None and len(rep.violations) >= maxviol:
                continue
            rep.violation(d["example"], "deviation from the documented semantics, class %s: %r" % (sig, d["example"]),
                          found_input=True, signature=sig)
        counts = rep.__dict__.setdefault("_c14_phase_counts", {})
        for mm in o.get("mismatch", []):
            if counts.get(phase, 0) >= 3 or sum(counts.values()) >= 4 * maxviol:
                break
            if report_mismatch(rep, phase, mm):
                counts[phase] = counts.get(phase, 0) + 1


def search_failing(pattern):
    """a translator disagreement on `pattern`: look for an input on which the property itself fails
    - the pattern and its neighbours (prefixed / suffixed / as a component) against every subject of
    length <= 4, through the same table comparison as phase (iii)"""
    fam = [pattern] + [pre + pattern + suf for pre in ("", "a", "a/", "b/a") for suf in ("", "b", "/a", "/") if pre or suf]
    fam = [p for p in dict.fromkeys(fam)]
    css = [1, 0] if pattern.isascii() else [1]
    for out in (w_glob_tables((fam, 4, css, False)), w_wild_tables((fam, 4, css))):
        for mm in out["mismatch"]:
            if mm.get("property_fails"):
                return {k: v for k, v in mm.items() if k != "property_fails"}
    return None


def report_mismatch(rep, phase, mm):
    rep.disagreements_checked += 1
    fails = mm.pop("property_fails", None)
    fn = mm.get("fn", phase)
    case = dict(mm, kind=mm.get("kind", phase))
    if fails is None and "pattern" in mm:
        hit = search_failing(mm["pattern"])
        if hit:
            case["failing_input"] = hit
            fails = True
    if fails:
        return rep.violation(case, "%s: %s" % (fn, json.dumps({k: v for k, v in case.items() if k not in ("tree",)}, default=repr)[:400]),
                      found_input=True, signature="C14/%s/property" % fn)
    else:
        return rep.violation(case, "correspondence broke at %s (%s); the documented semantics still hold there"
                      % (fn, json.dumps({k: v for k, v in case.items() if k not in ("tree",)}, default=repr)[:300]),
                      found_input=False, signature="C14/%s/correspondence" % fn)


def run(rep, tier, seed, deep=False):
    drv = vlib.Driver()
    rng = vlib.rng_for(seed, "c14")
    quick = tier == "quick"
    L = 6 if quick else 7            # translator: every pattern of <= L symbols
    n_rand = 20000 if quick else 400000
    if deep:
        n_rand *= 3
    rep.rule = (
        "(i) translator text/levels/compile verdict for every pattern of <=%d symbols over %r%s + %d random longer ones; "
        "(ii)+(iii) match tables (re.match, glob.match/imatch, wildcard.match/imatch vs model; code vs GlobSpec/WildSpec in "
        "Lean and Python) for the patterns listed under coverage.tables over every subject of bounded length over %r; "
        "(iv) Globber vs unpruned walk, count/count_lines/remove on random MemoryFS trees; (v) LRU histories. "
        "distinct_nontrivial = distinct (pattern, case flag[, tree]) with at least one match"
        % (L, PAT_ALPHA, "" if quick else " and 10^6 random patterns of exactly 8 symbols", n_rand, SUBJ_ALPHA)
    )
    rep.assumptions = [
        "Python's re engine is external: Regex.lean restates it for the generated subset and is validated by (ii)",
        "case-insensitive matching is modelled and explored for ASCII only (re.IGNORECASE Unicode folding, str.lower() of non-ASCII are external)",
        "fs.path.iteratepath (used to split the pattern) is the C12 model",
        "lone surrogates are outside the model",
        "patterns whose documented meaning is open (a `**` glued to other text, `.`/`..` components, no component at all) are compared with the model only",
        "open findings are read from known_findings.json only (vlib.Report.match_known)",
    ]
    pool = multiprocessing.get_context("fork").Pool(NWORK)
    try:
        # ---- (i) translators
        pats = exhaustive_patterns(L - 1)
        last = sorted(set(exact_len_patterns(L)) - set(pats))
        jobs = [(c, True) for c in chunks(pats, 6000)] + [(c, False) for c in chunks(last, 6000)]
        if not quick:
            rs = vlib.rng_for(seed, "c14-len8")
            extra = ["".join(rs.choice(PAT_ALPHA) for _ in range(8)) for _ in range(10_000_000 // 10)]
            jobs += [(c, False) for c in chunks(extra, 6000)]
        rnd = random_patterns(rng, n_rand)
        jobs += [(c, True) for c in chunks(rnd, 4000)]
        rep.extra["translator_patterns"] = sum(len(j[0]) for j in jobs)
        merge(rep, pool.map(w_translate, jobs), "translate")
        rep.programs += sum(len(j[0]) for j in jobs)

        # ---- (ii)+(iii) tables
        small = exhaustive_patterns(3)
        mid = exhaustive_patterns(4 if quick else 5)
        rs = vlib.rng_for(seed, "c14-tables")
        longer = sorted(set(exhaustive_patterns(5)) - set(mid)) if quick else exact_len_patterns(6)
        sample = rs.sample(longer, 1500 if quick else 30000)
        rtab = random_patterns(rs, 1000 if quick else 30000, ascii_only=True)
        tiny = exhaustive_patterns(2)
        rest = mid[len(small):]
        if quick:
            tables = [
                ("glob", tiny, 5, [1], True),
                ("glob", small, 4, [1], True),
                ("glob", small, 3, [0], True),
                ("glob", rest, 3, [1], False),
                ("glob", rest[::3], 3, [0], False),
                ("glob", sample[:800], 4, [1], False),
                ("glob", rtab[:600], 4, [1, 0], True),
            ]
        else:
            tables = [
                ("glob", tiny, 6, [1], True),
                ("glob", small, 5, [1, 0], True),
                ("glob", rest, 3, [1], False),
                ("glob", rest[::3], 3, [0], False),
                ("glob", sample[:15000], 4, [1], False),
                ("glob", rtab[:10000], 4, [1, 0], True),
            ]
        rep.extra["tables"] = [{"fn": t[0], "patterns": len(t[1]), "subjects_up_to": t[2], "cs": t[3], "regex_level": t[4]} for t in tables]
        jobs = []
        for (_fn, ps, n, css, wr) in tables:
            per = max(1, 40000 // len(subj_table(SUBJ_ALPHA, n)[0]))
            jobs += [(c, n, css, wr) for c in chunks(ps, per)]
        merge(rep, pool.map(w_glob_tables, jobs, chunksize=1), "glob")
        if quick:
            wtables = [(tiny, 5, [1]), (small, 4, [1]), (small, 3, [0]), (rest, 3, [1]), (rtab[:600], 4, [1, 0])]
        else:
            wtables = [(tiny, 6, [1]), (small, 5, [1, 0]), (rest, 3, [1]), (rtab[:10000], 4, [1, 0])]
        rep.extra["tables"] += [{"fn": "wildcard", "patterns": len(t[0]), "subjects_up_to": t[1], "cs": t[2]} for t in wtables]
        jobs = []
        for (ps, n, css) in wtables:
            per = max(1, 60000 // len(subj_table(SUBJ_ALPHA, n)[0]))
            jobs += [(c, n, css) for c in chunks(ps, per)]
        merge(rep, pool.map(w_wild_tables, jobs, chunksize=1), "wildcard")
        rep.programs += sum(len(t[1]) for t in tables) + sum(len(t[0]) for t in wtables)

        # ---- (iv) Globber
        rt = vlib.rng_for(seed, "c14-trees")
        n_trees = 60 if quick else 1500
        specs = [gen_tree(rt) for _ in range(n_trees)]
        gp = [(p, True) for p in GLOB_PATTERNS] + [(p, False) for p in GLOB_PATTERNS if p.isascii()][::3]
        gp += [(p, True) for p in random_patterns(rt, 25 if quick else 60, ascii_only=True)]
        jobs = [(c, gp) for c in chunks(specs, max(1, n_trees // (NWORK * 4)))]
        merge(rep, pool.map(w_globber, jobs, chunksize=1), "globber")
        rep.extra["globber"] = {"trees": n_trees, "patterns": len(gp)}
    finally:
        pool.close()
        pool.join()
    # ---- (v) cache, matchers, witnesses
    lru_check(rep, drv, vlib.rng_for(seed, "c14-lru"), 300 if quick else 5000)
    cache_history_check(rep, drv, vlib.rng_for(seed, "c14-cache-history"), 300 if quick else 5000)
    cache_interleave_check(rep, drv, vlib.rng_for(seed, "c14-interleave"), 120 if quick else 432)
    matcher_check(rep, drv, vlib.rng_for(seed, "c14-matcher"), 400 if quick else 8000)
    witness_check(rep)
    rep.sample({"fn": "glob._translate_glob", "pattern": "a/**/*.py", "impl": list(impl_glob_translate("a/**/*.py"))})
    rep.sample({"fn": "wildcard._translate", "pattern": "[!a-c]*.?", "impl": list(impl_wild_translate("[!a-c]*.?", True))})
    rep.sample({"fn": "glob.match", "pattern": "*/*", "path": "/d/", "impl": impl_bits(__import__("fs.glob").glob.match, "*/*", ["/d/"])})
    rep.extra["exhaustive"] = True


# ----------------------------------------------------------------------------- replay


def replay(rep, case):
    c = case["case"]
    kind = c.get("kind")
    import fs.glob as G

    if kind == "witness":
        comps, is_dir = resource_of(c["path"].lstrip("/"))
        code = G.match(c["pattern"], c["path"])
        spec = GlobSpecPy(c["pattern"]).matches(comps, is_dir)
        print("glob.match(%r, %r) = %s; documented semantics: %s" % (c["pattern"], c["path"], code, spec))
        return 1 if code != spec else 0
    if kind == "globber":
        m = build_tree([tuple(e) for e in c["tree"]])
        out = w_globber(([[tuple(e) for e in c["tree"]]], [(c["pattern"], c["cs"])]))
        print(json.dumps({"still failing": out["mismatch"], "known deviations": sorted(out["known"])}, default=repr)[:2000])
        m.close()
        return 1 if out["mismatch"] else 0
    if kind == "interleave":
        before = len(rep.violations) + len(getattr(rep, "_deferred", []))
        cache_interleave_check(rep, vlib.Driver(), vlib.rng_for(0, "replay"), 1, only=c["pattern"])
        return 1 if len(rep.violations) + len(getattr(rep, "_deferred", [])) > before else 0
    if "pattern" in c:
        p = c["pattern"]
        o1 = w_translate(([p], p.isascii()))
        o2 = w_glob_tables(([p], 5, [1, 0] if p.isascii() else [1], True))
        o3 = w_wild_tables(([p], 5, [1, 0] if p.isascii() else [1]))
        bad = o1["mismatch"] + o2["mismatch"] + o3["mismatch"]
        print(json.dumps({"still failing": bad, "known deviations of this pattern": sorted({**o2["known"], **o3["known"]})}, default=repr)[:3000])
        return 1 if bad else 0
    if kind in ("lru", "matcher"):
        drv = vlib.Driver()
        model = drv.batch([c["request"]])[0]
        print("model now:", model, "recorded impl:", c["impl"])
        return 0 if model == c["impl"] else 1
    print("unknown replay case")
    return 2
