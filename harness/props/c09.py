"""C09 — parallel bulk copy equals sequential copy and never hides a failure.

Theorems: lean/FsProofs/C09.lean over the Copier transition system lean/FsModel/Bulk.lean.

Correspondence = trace validation against the real code, without any source change: the harness
replaces (at run time) ``fs._bulk.Queue`` by a recording subclass of ``queue.Queue``, wraps
``_Worker.run`` / ``_Worker.join`` / ``_CopyTask.__call__`` and runs the real ``copy_fs`` /
``copy_dir`` / ``mirror`` / ``move_fs`` on *proxy* filesystems (subclasses of MemoryFS / OSFS whose
``openbin`` returns recording file objects that can fail any read / write / close on demand).

Two scheduling modes
  * gated: every instrumented call is a gate; exactly one thread runs between two gates and a
    seeded policy picks which (random, producer-first = full queue + producer blocked on put,
    workers-first, one slow worker, round robin).  The schedule is a list of thread labels, the
    compiled model is run on the *same* schedule (``bulk.run``) and must predict the real trace
    event for event; "no enabled thread" is a deadlock and is reported with its schedule.
  * free: real pre-emptive threads (switch interval 10 us) with seeded sleeps; the recorded trace
    must be a path of the model (``bulk.accepts``).

Property oracle, evaluated on the real run independently of the model: every handle opened through
the proxies has had close() called; an injected failure that fired makes the call raise; no worker
thread is alive when the call returns or raises; with no failure the destination equals the
expected replica and the single-threaded (workers=0) result; a failed move_fs leaves the source
untouched.
"""
from __future__ import annotations

import os
import shutil
import sys
import threading
import time

import vlib
from vlib import hx

WATCHDOG = 20.0
LEANCHECKER_MODULES = ["FsProofs.C09"]
SCRATCH = os.path.join(os.environ.get("VERIF_SCRATCH", "/tmp/verif-scratch"), "c09-%d" % os.getpid())
BIG = 1 << 20


class Injected(Exception):
    """the failure injected by the proxies (an ordinary Exception: what a backend raises)"""


class Deadlock(BaseException):
    """raised inside gated threads when the scheduler finds no enabled thread"""


# --------------------------------------------------------------------------- the recorder


class Rec:
    """Everything one run records; also the scheduler of the gated mode."""

    def __init__(self, scn, rng):
        self.scn = scn
        self.mode = scn["mode"]
        self.policy = scn["policy"]
        self.rng = rng
        self.chunk = scn["chunk"]
        self.faults = set(tuple(f) for f in scn["faults"])
        self.fired = []
        self.trace = []
        self.loglock = threading.Lock()
        self.labels = {}
        self.active = False
        self.src_idx = {}
        self.dst_idx = {}
        self.files = []
        self.workers_seen = []
        self.queues = 0
        self.maxsize = None
        # gated scheduler
        self.cond = threading.Condition()
        self.state = {}
        self.granted = None
        self.schedule = []
        self.deadlock = None
        self.qlen = 0
        self.exited = set()
        self.slow = scn.get("slow", 0)
        self.rr = 0
        self.opcount = {}
        self.worker_index = {}
        self.script = list(scn.get("script") or [])
        self.branching = []

    # -- identity
    def label(self):
        return self.labels.get(threading.get_ident(), "?")

    # -- logging (called with the operation's own atomicity: queue mutex / single gated thread)
    def log(self, ev):
        lab = self.label()
        with self.loglock:
            self.trace.append((lab, ev))
            if ev.startswith("put."):
                self.qlen += 1
            elif ev.startswith("get."):
                self.qlen -= 1
            elif ev == "xw":
                self.exited.add(lab)

    def fails(self, i, step):
        if (i, step) in self.faults:
            with self.loglock:
                self.fired.append((i, step))
            return True
        return False

    # -- scheduling
    def expect_workers(self, n):
        with self.cond:
            for k in range(n):
                self.state.setdefault("w%d" % k, "run")

    def enabled(self, st):
        kind, arg = st[1], st[2]
        if kind == "put":
            return (self.maxsize or 0) <= 0 or self.qlen < self.maxsize  # maxsize <= 0: unbounded Queue
        if kind == "get":
            return self.qlen > 0
        if kind == "join":
            return ("w%d" % arg) in self.exited
        return True

    def choose(self, en):
        en = sorted(en)
        pol = self.policy
        if pol == "script":
            # forced schedule (exhaustive enumeration): the k-th decision takes the scripted index
            k = len(self.branching)
            self.branching.append(len(en))
            idx = self.script[k] if k < len(self.script) else 0
            return en[min(idx, len(en) - 1)]
        ws = [l for l in en if l != "p"]
        if pol == "producer_first":
            return "p" if "p" in en else self.rng.choice(ws)
        if pol == "workers_first":
            return self.rng.choice(ws) if ws else "p"
        if pol == "slow_worker":
            slow = "w%d" % self.slow
            fast = [l for l in en if l != slow]
            if fast and self.rng.random() < 0.97:
                return self.rng.choice(fast)
            return self.rng.choice(en)
        if pol == "round_robin":
            self.rr += 1
            return en[self.rr % len(en)]
        if pol == "last_worker":
            return ws[-1] if ws and self.rng.random() < 0.8 else self.rng.choice(en)
        return self.rng.choice(en)

    def before(self, kind, arg=None):
        """called by every instrumented operation before it acts"""
        if not self.active:
            return
        lab = self.label()
        if self.mode == "free":
            n = self.opcount.get(lab, 0)
            self.opcount[lab] = n + 1
            d = self.delay(lab, kind, n)
            if d:
                time.sleep(d)
            return
        with self.cond:
            self.state[lab] = ("gate", kind, arg)
            while True:
                if self.deadlock is not None:
                    raise Deadlock()
                if self.granted == lab:
                    self.granted = None
                    self.state[lab] = "run"
                    return
                if self.granted is None and all(st != "run" for st in self.state.values()):
                    en = [l for l, st in self.state.items() if st != "done" and self.enabled(st)]
                    if not en:
                        self.deadlock = {l: list(st) if st != "done" else st for l, st in self.state.items()}
                        self.cond.notify_all()
                        raise Deadlock()
                    ch = self.choose(en)
                    self.granted = ch
                    self.schedule.append(ch)
                    self.cond.notify_all()
                    continue
                self.cond.wait(1.0)

    def finished(self, lab):
        if self.mode != "gated":
            return
        with self.cond:
            self.state[lab] = "done"
            self.cond.notify_all()

    def delay(self, lab, kind, n):
        pol = self.policy
        r = self.rng_for_thread(lab).random()
        if pol == "full_speed":
            return 0
        if pol == "slow_worker":
            return 0.002 if lab == "w%d" % self.slow else 0
        if pol == "slow_producer":
            return 0.001 if lab == "p" else 0
        if pol == "slow_workers":
            return 0.001 if lab != "p" and r < 0.5 else 0
        return 0.001 * r if r < 0.3 else 0  # jitter

    def rng_for_thread(self, lab):
        # per-thread deterministic stream (threads must not share one Random object)
        d = self.__dict__.setdefault("_trng", {})
        if lab not in d:
            import random

            d[lab] = random.Random("%s/%s" % (self.scn["rseed"], lab))
        return d[lab]


CUR = None  # the Rec of the run in progress (None: proxies are transparent)


def rec():
    r = CUR
    return r if (r is not None and r.active) else None


# --------------------------------------------------------------------------- proxies


class ProxyFile(object):
    """Recording wrapper around the binary file object returned by the real openbin."""

    def __init__(self, f, r, i, side):
        self._f = f
        self._r = r
        self.i = i
        self.side = side
        self.nread = 0
        self.nwrite = 0
        self.close_calls = 0

    def read(self, n=-1):
        r, i = self._r, self.i
        k = self.nread
        self.nread += 1
        r.before("read")
        if r.fails(i, "r%d" % k):
            r.log("r.%d.%d.0.0" % (i, k))
            raise Injected("read %d of task %d" % (k, i))
        m = r.chunk if (n is None or n < 0) else min(n, r.chunk)
        data = self._f.read(m)
        r.log("r.%d.%d.%d.1" % (i, k, len(data)))
        return data

    def write(self, data):
        r, i = self._r, self.i
        k = self.nwrite
        self.nwrite += 1
        r.before("write")
        if r.fails(i, "w%d" % k):
            r.log("w.%d.%d.0" % (i, k))
            raise Injected("write %d of task %d" % (k, i))
        n = self._f.write(data)
        r.log("w.%d.%d.1" % (i, k))
        return n

    def close(self):
        r, i = self._r, self.i
        self.close_calls += 1
        if self.close_calls > 1:
            # a second close() is legal for io objects; recorded so that the model rejects it
            r.before("close")
            r.log("c.%d.%s.2" % (i, self.side))
            return
        r.before("close")
        bad = r.fails(i, "c" + self.side)
        try:
            self._f.close()  # the real handle is always released
        finally:
            r.log("c.%d.%s.%d" % (i, self.side, 0 if bad else 1))
        if bad:
            raise Injected("close %s of task %d" % (self.side, i))

    @property
    def closed(self):
        return self.close_calls > 0

    def __enter__(self):
        return self

    def __exit__(self, *a):
        self.close()

    def __getattr__(self, name):
        return getattr(self._f, name)


def _proxy_class(base):
    class Proxy(base):
        _thread_safe_meta = True

        def openbin(self, path, mode="r", buffering=-1, **options):
            r = rec()
            if r is None:
                return super(Proxy, self).openbin(path, mode, buffering, **options)
            from fs.path import abspath, normpath

            p = abspath(normpath(path))
            writing = "w" in mode or "a" in mode or "+" in mode or "x" in mode
            side = "d" if writing else "s"
            table = r.dst_idx if writing else r.src_idx
            i = table.get((id(self), p), -1)
            r.before("open")
            if i >= 0 and r.fails(i, "o" + side):
                r.log("o.%d.%s.0" % (i, side))
                raise Injected("open %s of task %d" % (side, i))
            try:
                f = super(Proxy, self).openbin(path, mode, buffering, **options)
            except Exception:
                r.log("o.%d.%s.0" % (i, side))
                raise
            pf = ProxyFile(f, r, i, side)
            with r.loglock:
                r.files.append(pf)
            r.log("o.%d.%s.1" % (i, side))
            return pf

        def setinfo(self, path, info):
            r = rec()
            if r is None:
                return super(Proxy, self).setinfo(path, info)
            from fs.path import abspath, normpath

            i = r.dst_idx.get((id(self), abspath(normpath(path))), -1)
            r.before("ptime")
            if i >= 0 and r.fails(i, "t"):
                r.log("t.%d.0" % i)
                raise Injected("setinfo of task %d" % i)
            try:
                super(Proxy, self).setinfo(path, info)
            except Exception:
                r.log("t.%d.0" % i)
                raise
            r.log("t.%d.1" % i)

        def getmeta(self, namespace="standard"):
            m = dict(super(Proxy, self).getmeta(namespace))
            if namespace == "standard":
                if self._thread_safe_meta is None:
                    m.pop("thread_safe", None)
                else:
                    m["thread_safe"] = self._thread_safe_meta
            return m

    Proxy.__name__ = "Proxy" + base.__name__
    return Proxy


_CLASSES = {}


def proxy_fs(kind, name):
    from fs.memoryfs import MemoryFS
    from fs.osfs import OSFS

    if kind not in _CLASSES:
        _CLASSES[kind] = _proxy_class(MemoryFS if kind == "mem" else OSFS)
    if kind == "mem":
        return _CLASSES[kind]()
    root = os.path.join(SCRATCH, name)
    if os.path.exists(root):
        shutil.rmtree(root)
    os.makedirs(root)
    return _CLASSES[kind](root)


# --------------------------------------------------------------------------- patches on fs._bulk


class Patches:
    """run-time wrapping of queue.Queue (as seen by fs._bulk), _Worker.run/join, _CopyTask.__call__"""

    def __enter__(self):
        import queue

        import fs._bulk as B

        self.B = B
        self.saved = (B.Queue, B._Worker.run, B._CopyTask.__call__, B._Worker.__dict__.get("join"))
        orig_run, orig_call = B._Worker.run, B._CopyTask.__call__
        base_queue = B.Queue if isinstance(B.Queue, type) else queue.Queue

        def item_name(item):
            if item is None:
                return "n"
            f = getattr(item, "src_file", None)
            return str(getattr(f, "i", -1))

        class TracedQueue(base_queue):
            def __init__(self, maxsize=0):
                base_queue.__init__(self, maxsize)
                r = rec()
                if r is not None:
                    r.queues += 1
                    r.maxsize = maxsize
                    r.expect_workers(maxsize)

            def put(self, item, block=True, timeout=None):
                r = rec()
                if r is not None:
                    r.before("put")
                return base_queue.put(self, item, block, timeout)

            def _put(self, item):  # runs with the queue mutex held: atomic with the real insertion
                base_queue._put(self, item)
                r = rec()
                if r is not None:
                    r.log("put." + item_name(item))

            def get(self, block=True, timeout=None):
                r = rec()
                if r is not None:
                    r.before("get")
                return base_queue.get(self, block, timeout)

            def _get(self):
                item = base_queue._get(self)
                r = rec()
                if r is not None:
                    r.log("get." + item_name(item))
                return item

            def join(self):
                r = rec()
                if r is not None:
                    r.before("qjoin")
                base_queue.join(self)
                if r is not None:
                    r.log("qj")

        # the index of a worker is its position in Copier.workers (= the join order); the list is
        # complete before the first start() and is emptied only after the last join().
        def widx(r, worker):
            if not r.worker_index:
                r.worker_index = {x: k for k, x in enumerate(worker.copier.workers)}
            return r.worker_index.get(worker, 99)

        def run(self_):
            r = rec()
            if r is None:
                return orig_run(self_)
            lab = "w%d" % widx(r, self_)
            r.labels[threading.get_ident()] = lab
            with r.loglock:
                r.workers_seen.append(self_)
            try:
                orig_run(self_)
                r.before("exitw")
                r.log("xw")
            except BaseException:
                if r.deadlock is None:
                    raise
            finally:
                r.finished(lab)

        def call(self_):
            r = rec()
            if r is None:
                return orig_call(self_)
            i = getattr(self_.src_file, "i", -1)
            try:
                orig_call(self_)
            except Exception:
                r.before("end")
                r.log("end.%d.1" % i)
                raise
            r.before("end")
            r.log("end.%d.0" % i)

        def join(self_, timeout=None):
            r = rec()
            if r is None:
                return threading.Thread.join(self_, timeout)
            k = widx(r, self_)
            r.before("join", k)
            threading.Thread.join(self_, timeout)
            r.log("j.%d" % k)

        B.Queue = TracedQueue
        B._Worker.run = run
        B._CopyTask.__call__ = call
        B._Worker.join = join
        return self

    def __exit__(self, *a):
        B = self.B
        B.Queue, B._Worker.run, B._CopyTask.__call__ = self.saved[0], self.saved[1], self.saved[2]
        if self.saved[3] is None:
            del B._Worker.join
        else:
            B._Worker.join = self.saved[3]


# --------------------------------------------------------------------------- scenarios


def tree_files(name, nfiles=11):
    """(directories, {path: bytes})"""
    if name == "empty":
        return [], {}
    if name == "one_empty":
        return [], {"/e": b""}
    if name == "many":
        return [], {"/f%02d" % k: bytes([65 + k]) * (k % 6) for k in range(nfiles)}
    if name == "nested":
        return (
            ["/a", "/a/b", "/a/b/c", "/d", "/emptydir"],
            {
                "/top": b"0123456",
                "/a/x": b"",
                "/a/y": b"yy",
                "/a/b/z": b"zzzzz",
                "/a/b/c/deep": b"D" * 9,
                "/d/w": b"w",
            },
        )
    if name == "sub":
        return ["/sub", "/sub/k", "/other"], {"/sub/p": b"pp", "/sub/k/q": b"qqqq", "/other/no": b"no", "/r": b"r"}
    raise ValueError(name)


def build(fsobj, dirs, files, mtime_base=None):
    for d in dirs:
        fsobj.makedirs(d, recreate=True)
    for k, (p, data) in enumerate(sorted(files.items())):
        fsobj.writebytes(p, data)
        if mtime_base is not None:
            fsobj.setinfo(p, {"details": {"modified": mtime_base + 1000 * k}})


def snapshot(fsobj, root="/"):
    """sorted list of (path, 'd' | bytes)"""
    out = []
    for path, dirs, files in fsobj.walk(root):
        for d in dirs:
            out.append((d.make_path(path), "d"))
        for f in files:
            p = f.make_path(path)
            out.append((p, fsobj.readbytes(p)))
    return sorted(out, key=lambda e: e[0])


def mtime(fsobj, p):
    m = fsobj.getinfo(p, namespaces=["details"]).raw.get("details", {}).get("modified")
    return None if m is None else int(m)


def d0_of(scn):
    """initial destination of a scenario: (dirs, {path: bytes}); stored JSON-friendly (latin-1 text)"""
    d0 = scn.get("d0") or [[], {}]
    return list(d0[0]), {p: v.encode("latin-1") for p, v in d0[1].items()}


def plan_tasks(scn, src):
    """the (src path, dst path) pairs the API will hand to Copier.copy, in order"""
    from fs.path import combine, frombase
    from fs.walk import Walker

    api = scn["api"]
    if api == "mirror":
        out = []
        for path, _dirs, files in Walker().walk(src, namespaces=["details"]):
            for f in files:
                p = f.make_path(path)
                out.append((p, p))
        return out
    sp, dp = ("/", "/")
    if api == "copy_dir":
        sp, dp = scn["src_path"], scn["dst_path"]
    return [(p, combine(dp, frombase(sp, p))) for p in Walker().files(src, sp)]


def steps_for(scn, data_len, chunk):
    """fault points of one task"""
    nchunks = 0 if data_len == 0 else (data_len + chunk - 1) // chunk
    st = ["os", "od", "cs", "cd"] + ["r%d" % k for k in range(nchunks + 1)] + ["w%d" % k for k in range(nchunks)]
    if scn["pt"]:
        st.append("t")
    return st


# --------------------------------------------------------------------------- one run


class Result:
    pass


def execute(scn):
    """Run the real API once under scenario `scn`; returns a Result (never raises on deadlock)."""
    global CUR
    import fs._bulk as B
    import fs.copy
    import fs.mirror
    import fs.move
    from fs.errors import BulkCopyFailed

    rng = vlib.rng_for(0, "c09/run/%s" % scn["rseed"])
    r = Rec(scn, rng)
    res = Result()
    res.scn, res.rec = scn, r
    src = proxy_fs(scn["src_kind"], "src")
    dst = proxy_fs(scn["dst_kind"], "dst")
    src._thread_safe_meta = scn.get("ts_src", True)
    dst._thread_safe_meta = scn.get("ts_dst", True)
    dirs, files = tree_files(scn["tree"], scn.get("nfiles", 11))
    build(src, dirs, files, mtime_base=1000000000)
    d0dirs, d0files = d0_of(scn)
    build(dst, d0dirs, d0files, mtime_base=500000000)
    pairs = plan_tasks(scn, src)
    res.tasks = [(sp, dp, files[sp]) for sp, dp in pairs]
    for i, (sp, dp) in enumerate(pairs):
        r.src_idx[(id(src), sp)] = i
        r.dst_idx[(id(dst), dp)] = i
    res.d0 = dict(d0files)
    res.src_before = snapshot(src)
    res.src_mtimes = {sp: mtime(src, sp) for sp, _ in pairs}
    baseline = set(t for t in threading.enumerate() if isinstance(t, B._Worker))
    box = {}

    def body():
        r.labels[threading.get_ident()] = "p"
        r.state["p"] = "run"
        try:
            api, n, pt = scn["api"], scn["workers"], scn["pt"]
            if api == "copy_fs":
                fs.copy.copy_fs(src, dst, workers=n, preserve_time=pt)
            elif api == "copy_dir":
                fs.copy.copy_dir(src, scn["src_path"], dst, scn["dst_path"], workers=n, preserve_time=pt)
            elif api == "mirror":
                fs.mirror.mirror(src, dst, copy_if_newer=False, workers=n, preserve_time=pt)
            elif api == "move_fs":
                fs.move.move_fs(src, dst, workers=n, preserve_time=pt)
            else:
                raise ValueError(api)
            box["out"] = "ok"
        except BulkCopyFailed as e:
            box["out"] = "bulk"
            box["nerrors"] = len(e.errors)
            box["exc"] = repr(e)
        except Deadlock:
            box["out"] = "deadlock"
        except BaseException as e:  # noqa
            box["out"] = "other"
            box["exc"] = "%s: %s" % (type(e).__name__, e)
        # the property: the call returns only after all workers have finished
        box["alive"] = [t.name for t in threading.enumerate() if isinstance(t, B._Worker) and t.is_alive() and t not in baseline]
        box["alive_seen"] = [w.name for w in r.workers_seen if w.is_alive()]
        r.finished("p")

    old_switch = sys.getswitchinterval()
    CUR = r
    r.active = True
    if scn["mode"] == "free":
        sys.setswitchinterval(1e-5)
    t = threading.Thread(target=body, name="c09-producer", daemon=True)
    t0 = time.time()
    t.start()
    t.join(WATCHDOG)
    res.hung = t.is_alive()
    sys.setswitchinterval(old_switch)
    r.active = False
    CUR = None
    res.wall = time.time() - t0
    res.out = box.get("out", "hang")
    res.exc = box.get("exc")
    res.nerrors = box.get("nerrors")
    res.alive = box.get("alive", []) + box.get("alive_seen", [])
    res.deadlock = r.deadlock
    res.trace = list(r.trace)
    if res.out in ("ok", "bulk", "other"):
        res.trace.append(("p", "x." + res.out))
    res.schedule = list(r.schedule) + ["p"]
    res.branching = list(r.branching)
    res.choices = [min(r.script[k] if k < len(r.script) else 0, b - 1) for k, b in enumerate(r.branching)]
    res.fired = list(r.fired)
    res.unclosed = [(f.i, f.side) for f in r.files if f.close_calls == 0]
    res.workers_started = len(r.workers_seen)
    res.queues = r.queues
    if res.hung or res.out in ("deadlock", "hang"):
        res.dst_after = res.src_after = None
        return res
    res.dst_after = snapshot(dst)
    res.src_after = snapshot(src)
    res.dst_mtimes = {}
    for (_sp, dp, _d) in res.tasks:
        try:
            res.dst_mtimes[dp] = mtime(dst, dp)
        except Exception:
            res.dst_mtimes[dp] = None
    try:
        src.close()
        dst.close()
    except Exception:
        pass
    return res


# --------------------------------------------------------------------------- model requests


def enc_tasks(tasks):
    return "T" + ";".join("%s:%s:%s" % (hx(sp), hx(dp), hx(data)) for sp, dp, data in tasks)


def enc_faults(faults):
    return "F" + ",".join("%d.%s" % (i, st) for i, st in faults)


def enc_d0(d0):
    return "D" + ";".join("%s:%s" % (hx(p), hx(d)) for p, d in sorted(d0.items()))


def enc_trace(trace):
    return "X" + ",".join("%s:%s" % (lab, ev) for lab, ev in trace)


def cfg_str(scn, n_eff):
    return "%d.%d.%d.%d" % (n_eff, scn["chunk"], 1 if scn["pt"] else 0, 1 if scn["dst_kind"] == "os" else 0)


def requests_for(res):
    scn = res.scn
    n_eff = scn["workers"] if (scn.get("ts_src", True) is True and scn.get("ts_dst", True) is True) else 0
    head = "%s %s %s %s" % (cfg_str(scn, n_eff), enc_tasks(res.tasks), enc_faults(scn["faults"]), enc_d0(res.d0))
    reqs = ["bulk.accepts %s %s" % (head, enc_trace(res.trace))]
    if scn["mode"] == "gated":
        reqs.append("bulk.run %s S%s" % (head, ",".join(res.schedule)))
    # the single-threaded model run (the reference the property compares with)
    reqs.append("bulk.run %s %s %s %s S" % (cfg_str(scn, 0), enc_tasks(res.tasks), enc_faults(scn["faults"]), enc_d0(res.d0)))
    reqs.append("bulk.gate %d %d %d" % (scn["workers"], 1 if scn.get("ts_src", True) is True else 0, 1 if scn.get("ts_dst", True) is True else 0))
    return reqs


def parse_state(line):
    if not line.startswith("ok "):
        return None
    d = {}
    for tok in line[3:].split(" "):
        k, _, v = tok.partition("=")
        d[k] = v
    dest = {}
    if d.get("dest", "-") != "-":
        for e in d["dest"].split(";"):
            p, _, b = e.partition(":")
            dest[vlib.unhx(p)] = None if b == "~" else vlib.unhxb(b)
    d["dest"] = dest
    for k in ("errors", "timed", "done", "dropped"):
        d[k] = [] if d.get(k, "-") == "-" else [int(x) for x in d[k].split(",")]
    return d


def case_of(res, extra=None):
    c = {"scenario": res.scn, "outcome": res.out, "exception": res.exc, "fired": res.fired,
         "schedule": ",".join(res.schedule), "trace": enc_trace(res.trace)[:6000]}
    if extra:
        c.update(extra)
    return c


def sig(scn, what):
    return "C09/%s/%s" % (scn["api"], what)


def judge_real(rep, res, ref_tree):
    """the property oracle on the real run (independent of the model)"""
    scn = res.scn
    bad = []
    if res.hung or res.out in ("deadlock", "hang"):
        bad.append(("deadlock", "the call did not return: %s" % (res.deadlock or "watchdog %.0fs" % WATCHDOG)))
        return bad
    if res.unclosed:
        bad.append(("unclosed", "file objects never closed: %r" % res.unclosed[:6]))
    if res.fired and res.out == "ok":
        bad.append(("hidden-failure", "injected failure(s) %r fired but the call returned normally" % res.fired[:4]))
    if not res.fired and res.out != "ok":
        bad.append(("spurious-raise", "no failure fired but the call raised %s" % res.exc))
    if res.alive:
        bad.append(("worker-alive", "worker threads still alive when the call came back: %r" % res.alive[:4]))
    if not res.fired and res.out == "ok" and ref_tree is not None and res.dst_after != ref_tree:
        bad.append(("tree", "destination differs from the single-threaded result: %r vs %r" % (res.dst_after[:8], ref_tree[:8])))
    if scn["api"] == "move_fs":
        if res.out != "ok" and res.src_after != res.src_before:
            bad.append(("move-lost-source", "move_fs raised but the source changed"))
        if res.out == "ok" and res.src_after:
            bad.append(("move-left-source", "move_fs returned but the source is not empty"))
    return bad


def judge_model(rep, res, replies):
    """trace acceptance and model/real agreement; returns list of (kind, note)"""
    scn = res.scn
    bad = []
    acc = replies[0]
    k = 1
    st = parse_state(acc)
    if st is None:
        idx = int(acc.split(" ")[1]) if acc.startswith("rej ") else -1
        around = res.trace[max(0, idx - 3): idx + 2]
        bad.append(("trace-rejected", "model rejects the real trace at event %d (%s); around: %r" % (idx, acc, around)))
        return bad
    if scn["mode"] == "gated":
        pred = parse_state(replies[k])
        k += 1
        if pred is None or pred["trace"] != enc_trace(res.trace):
            bad.append(("prediction", "model run on the same schedule predicts a different trace"))
    seq = parse_state(replies[k])
    k += 1
    gate = replies[k]
    n_eff = int(gate.split(" ")[1])
    if res.workers_started != n_eff or res.queues != (1 if n_eff else 0):
        bad.append(("gate", "model says %d worker threads, real run started %d (queues %d)" % (n_eff, res.workers_started, res.queues)))
    if st["fin"] != "1":
        bad.append(("not-finished", "trace accepted but the model is not in its final state"))
        return bad
    if st["out"] != res.out:
        bad.append(("outcome", "model outcome %s, real %s (%s)" % (st["out"], res.out, res.exc)))
    if st["open"] != "-":
        bad.append(("model-open", "model ends with open handles %s" % st["open"]))
    real = {p: v for p, v in res.dst_after if v != "d"}
    task_dsts = set(dp for _sp, dp, _d in res.tasks)
    for p, v in st["dest"].items():
        if scn["api"] == "mirror" and p not in task_dsts:
            continue  # entries mirror removes itself (outside the Copier)
        if real.get(p) != v:
            bad.append(("dest", "content of %s: model %r, real %r" % (p, v, real.get(p))))
            break
    injected = set(tuple(f) for f in scn["faults"])
    natural = sum(1 for _l, ev in res.trace if ev.startswith("t.") and ev.endswith(".0") and (int(ev.split(".")[1]), "t") not in injected)
    if int(st["nfail"]) != len(res.fired) + natural:
        bad.append(("nfail", "model fired %s failures, real %d (+%d setinfo on a missing file)" % (st["nfail"], len(res.fired), natural)))
    if res.out == "bulk" and res.nerrors != len(st["errors"]):
        bad.append(("errors", "BulkCopyFailed.errors has %s entries, model %d" % (res.nerrors, len(st["errors"]))))
    if scn["pt"]:
        for i, (sp, dp, _d) in enumerate(res.tasks):
            same = res.dst_mtimes.get(dp) is not None and res.dst_mtimes.get(dp) == res.src_mtimes.get(sp)
            if (i in st["timed"]) != same:
                bad.append(("timed", "task %d: model timed=%s, real mtime copied=%s" % (i, i in st["timed"], same)))
                break
    # parallel = sequential, on the model side: same destination when nothing fails
    if not scn["faults"] and seq is not None and seq["dest"] != st["dest"]:
        bad.append(("model-seq", "model: parallel destination differs from sequential"))
    return bad


# --------------------------------------------------------------------------- scenario generation


GATED_POLICIES = ["random", "producer_first", "workers_first", "slow_worker", "round_robin", "last_worker"]
FREE_POLICIES = ["jitter", "full_speed", "slow_worker", "slow_producer", "slow_workers"]
PAIRS = [("mem", "mem"), ("mem", "os"), ("os", "mem"), ("os", "os")]
WORKERS = [0, 1, 2, 4, 8]


def base_scn(**kw):
    s = {"api": "copy_fs", "tree": "many", "nfiles": 11, "src_kind": "mem", "dst_kind": "mem", "workers": 2, "pt": False,
         "chunk": 3, "faults": [], "mode": "gated", "policy": "random", "slow": 0, "rseed": "0"}
    s.update(kw)
    return s


def task_lens(scn):
    """data lengths of the tasks of a scenario, in plan order (computed on a throw-away MemoryFS)"""
    from fs.memoryfs import MemoryFS

    m = MemoryFS()
    dirs, files = tree_files(scn["tree"], scn.get("nfiles", 11))
    build(m, dirs, files)
    return [len(files[sp]) for sp, _ in plan_tasks(scn, m)]


def random_faults(rng, scn, lens, nf):
    out = []
    if not lens:
        return out
    for _ in range(nf):
        i = rng.choice([0, len(lens) - 1, rng.randrange(len(lens))])
        st = rng.choice(steps_for(scn, lens[i], scn["chunk"]))
        if [i, st] not in out:
            out.append([i, st])
    return out


def directed(seed):
    """fixed scenarios: every tree x worker count, every fault kind, the named schedules"""
    out = []
    n = 0

    def add(**kw):
        nonlocal n
        n += 1
        out.append(base_scn(rseed="%d/d%d" % (seed, n), **kw))

    for tree in ("empty", "one_empty", "many", "nested"):
        for w in WORKERS:
            add(tree=tree, workers=w, policy="random")
            add(tree=tree, workers=w, mode="free", policy="jitter", pt=(w % 2 == 0))
    # every fault kind on the first, a middle and the last task, queue full / slow worker
    lens = task_lens(base_scn())
    for i in (0, 5, len(lens) - 1):
        for st in steps_for(base_scn(pt=True), lens[i], 3):
            for w, pol in ((0, "random"), (2, "producer_first"), (4, "slow_worker")):
                add(workers=w, faults=[(i, st)], policy=pol, pt=True)
    # error while the producer is blocked on put; error in the last task; two errors
    for w in (1, 2, 4):
        add(workers=w, policy="producer_first", faults=[(0, "w0")])
        add(workers=w, policy="producer_first", faults=[(0, "cd"), (len(lens) - 1, "r0")])
        add(workers=w, policy="workers_first", faults=[(len(lens) - 1, "cd")])
        add(workers=w, policy="slow_worker", slow=0, faults=[(len(lens) - 1, "od")])
        add(workers=w, mode="free", policy="slow_workers", faults=[(1, "r1"), (3, "od")])
    # the other entry points and backends
    for api in ("copy_dir", "mirror", "move_fs"):
        for (a, b) in PAIRS:
            for w in (0, 2, 4):
                kw = {}
                if api == "copy_dir":
                    kw = {"tree": "sub", "src_path": "/sub", "dst_path": "/t/x"}
                else:
                    kw = {"tree": "nested"}
                add(api=api, src_kind=a, dst_kind=b, workers=w, **kw)
    # pre-populated destination: overwritten, unrelated and (mirror) removed entries
    d0 = [["/a", "/zz"], {"/top": "OLDOLDOLDOLD", "/a/x": "old", "/zz/keep": "keep", "/extra": "e"}]
    for api in ("copy_fs", "mirror"):
        for w in (0, 1, 4):
            add(api=api, tree="nested", workers=w, d0=d0, pt=True)
            add(api=api, tree="nested", workers=w, d0=d0, faults=[(2, "w0")])
    # the thread-safe gate: workers requested but one side is not thread safe
    for ts in ((False, True), (True, False), (False, False), (None, True), (True, True)):
        for api in ("copy_fs", "mirror"):
            add(api=api, tree="nested", workers=4, ts_src=ts[0], ts_dst=ts[1])
    # real chunk size (one read returns everything)
    for w in (0, 2):
        add(tree="nested", workers=w, chunk=BIG, dst_kind="os")
        add(tree="nested", workers=w, chunk=BIG, faults=[(1, "r1")])
    return out


def randoms(seed, count):
    rng = vlib.rng_for(seed, "c09/scenarios")
    out = []
    for k in range(count):
        api = rng.choice(["copy_fs", "copy_fs", "copy_dir", "mirror", "move_fs"])
        a, b = rng.choice(PAIRS) if rng.random() < 0.3 else ("mem", "mem")
        tree = rng.choice(["many", "many", "nested", "one_empty", "empty"])
        kw = {}
        if api == "copy_dir":
            tree = "sub"
            kw = {"src_path": "/sub", "dst_path": rng.choice(["/t/x", "/", "/sub"])}
        w = rng.choice(WORKERS)
        mode = "gated" if rng.random() < 0.6 else "free"
        pol = rng.choice(GATED_POLICIES if mode == "gated" else FREE_POLICIES)
        scn = base_scn(api=api, tree=tree, src_kind=a, dst_kind=b, workers=w, mode=mode, policy=pol,
                       pt=rng.random() < 0.35, chunk=rng.choice([1, 2, 3, 3, 5, BIG]),
                       nfiles=rng.choice([3, 9, 11, 13]), slow=rng.randrange(max(1, w)),
                       rseed="%d/r%d" % (seed, k), **kw)
        nf = rng.choice([0, 0, 1, 1, 1, 2, 3])
        scn["faults"] = random_faults(rng, scn, task_lens(scn), nf)
        out.append(scn)
    return out


# --------------------------------------------------------------------------- entry points


def check_batch(rep, drv, results, refs):
    reqs, spans = [], []
    for res in results:
        if res.hung or res.out in ("deadlock", "hang"):
            spans.append(None)
            continue
        rq = requests_for(res)
        spans.append((len(reqs), len(rq)))
        reqs += rq
    replies = drv.batch(reqs)
    for res, span in zip(results, spans):
        scn = res.scn
        rep.programs += 1
        rep.evaluations += len(res.trace)
        rep.count("%s/n%d/%s/%s" % (scn["api"], scn["workers"], scn["mode"], res.out))
        rep.count("policy/" + scn["policy"])
        for _i, st in res.fired:
            rep.count("fired/" + st[0] + (st[1] if st[0] in "co" else ""))
        rep.nontrivial(scn["api"], scn["tree"], scn["workers"], scn["src_kind"], scn["dst_kind"], scn["pt"],
                       tuple(map(tuple, scn["faults"])), tuple(res.trace))
        key = refkey(scn)
        bad_real = judge_real(rep, res, refs.get(key) if not scn["faults"] else None)
        for kind, note in bad_real:
            if len(rep.violations) < 8:
                rep.violation(case_of(res, {"failed": kind}),
                              "%s workers=%d %s->%s faults=%r [%s/%s]: %s" % (scn["api"], scn["workers"], scn["src_kind"], scn["dst_kind"],
                                                                           scn["faults"], scn["mode"], scn["policy"], note),
                              found_input=True, signature=sig(scn, kind))
        if span is None:
            continue
        bad_model = judge_model(rep, res, replies[span[0]: span[0] + span[1]])
        rep.disagreements_checked += len(bad_model)
        for kind, note in bad_model:
            if len(rep.violations) < 8:
                rep.violation(case_of(res, {"failed": "correspondence:" + kind}),
                              "correspondence FsModel.Bulk vs fs/_bulk.py: %s workers=%d %s->%s faults=%r [%s/%s]: %s"
                              % (scn["api"], scn["workers"], scn["src_kind"], scn["dst_kind"], scn["faults"], scn["mode"], scn["policy"], note),
                              found_input=bool(bad_real), signature=sig(scn, "model/" + kind))


def refkey(scn):
    d0 = scn.get("d0") or [[], {}]
    return repr((scn["api"], scn["tree"], scn.get("nfiles"), scn["src_kind"], scn["dst_kind"], scn.get("src_path"),
                 scn.get("dst_path"), sorted(d0[1].items()), sorted(d0[0])))


def reference_tree(scn, cache):
    """destination tree after the real single-threaded (workers=0) un-faulted run"""
    key = refkey(scn)
    if key not in cache:
        s = dict(scn)
        s.update(workers=0, faults=[], mode="free", policy="full_speed", pt=False, ts_src=True, ts_dst=True, chunk=BIG,
                 rseed="ref")
        res = execute(s)
        cache[key] = res.dst_after
    return cache[key]


def run_all(rep, drv, scns):
    refs = {}
    pending = []
    with Patches():
        for scn in scns:
            if not scn["faults"]:
                reference_tree(scn, refs)
            res = execute(scn)
            pending.append(res)
            if res.hung:
                # a hung producer still owns the patched module: stop exploring
                check_batch(rep, drv, pending, refs)
                return False
            if len(pending) >= 400:
                check_batch(rep, drv, pending, refs)
                pending = []
        check_batch(rep, drv, pending, refs)
    return True


SMALL = [
    # (name, scenario overrides): scopes small enough to enumerate *every* schedule at gate granularity
    ("1w-1empty", dict(tree="one_empty", workers=1)),
    ("2w-1empty", dict(tree="one_empty", workers=2)),
    ("1w-1empty-closefail", dict(tree="one_empty", workers=1, faults=[[0, "cd"]])),
    ("1w-2files", dict(tree="many", nfiles=2, workers=1, chunk=BIG)),
    ("2w-2files-readfail", dict(tree="many", nfiles=2, workers=2, chunk=BIG, faults=[[1, "r0"]])),
    ("2w-3files", dict(tree="many", nfiles=3, workers=2, chunk=BIG)),
]


def exhaustive(rep, drv, cap):
    """depth-first enumeration of all gated schedules of the small scopes (each capped at `cap` runs)"""
    summary = {}
    with Patches():
        for name, kw in SMALL:
            stack = [[]]
            n = 0
            results = []
            refs = {}
            while stack and n < cap:
                prefix = stack.pop()
                scn = base_scn(mode="gated", policy="script", script=prefix, rseed="x/%s/%d" % (name, n), **kw)
                if not scn["faults"]:
                    reference_tree(scn, refs)
                res = execute(scn)
                n += 1
                results.append(res)
                if res.hung:
                    break
                ch, br = res.choices, res.branching
                for j in range(len(prefix), len(br)):
                    for a in range(1, br[j]):
                        stack.append(ch[:j] + [a])
            check_batch(rep, drv, results, refs)
            summary[name] = {"schedules": n, "complete": not stack}
            rep.count("exhaustive/%s" % name, n)
    return summary


SELF_DST = ["out", "data2/deep", "data", "/tmp/../data", "./data", "data/", "/data/.", "data/sub", "data/sub/new", "tmp/../data/sub/../../data",
            "/", "tmp", "data/../out"]


def same_instance_phase(rep, quick):
    """src_fs IS dst_fs: with workers=0 the copier delegates to FS.copy, with workers>0 it opens both files
    itself — the model's tasks assume distinct source and destination files, so this phase is decided by the
    property's own oracle alone: outcome class and resulting tree equal to the single-threaded run's, for every
    spelling of the destination (normalised or not, equal to / inside / above / beside the source)."""
    import fs.copy, fs.move, fs.mirror
    from fs.memoryfs import MemoryFS
    from fs.osfs import OSFS
    import tempfile

    def fresh(kind):
        if kind == "mem":
            f = MemoryFS()
        else:
            f = OSFS(tempfile.mkdtemp(dir=SCRATCH))
        f.makedirs("data/sub/leaf")
        f.makedirs("tmp")
        f.makedirs("data/e")
        for k, q in enumerate(["data/a", "data/b", "data/sub/c", "data/sub/leaf/d", "tmp/t"]):
            f.writebytes(q, b"%d-" % k * (k + 3))
        return f

    def one(kind, api, dst, w):
        f = fresh(kind)
        try:
            try:
                if api == "copy_dir":
                    fs.copy.copy_dir(f, "/data", f, dst, workers=w)
                elif api == "copy_fs":
                    fs.copy.copy_fs(f.opendir("data"), f.makedirs(dst, recreate=True) if dst not in ("/",) else f, workers=w)
                elif api == "move_dir":
                    fs.move.move_dir(f, "/data", f, dst, workers=w)
                elif api == "mirror":
                    fs.mirror.mirror(f.opendir("data"), f.makedirs(dst, recreate=True), workers=w)
                out = "ok"
            except Exception as e:
                out = "err " + type(e).__name__
            return out, snapshot(f)
        finally:
            f.close()

    n = 0
    for kind in (("mem",) if quick else ("mem", "os")):
        for api in ("copy_dir", "copy_fs", "move_dir", "mirror"):
            for dst in SELF_DST:
                if api in ("copy_fs", "mirror"):
                    # two VIEWS of one storage where the destination lies in or above the source: nothing can tell
                    # the copier (C05's open findings aliased-views-*: runaway / truncation for every worker count)
                    from fs.path import normpath, abspath, isbase
                    nd = abspath(normpath(dst))
                    if nd == "/" or isbase("/data", nd) or isbase(nd, "/data"):
                        continue
                ref = one(kind, api, dst, 0)
                for w in ((1, 4) if quick else (1, 2, 4, 8)):
                    got = one(kind, api, dst, w)
                    n += 1
                    rep.evaluations += 1
                    rep.count("self/%s/%s" % (api, ref[0].split()[0]))
                    rep.nontrivial("self", kind, api, dst, w)
                    if got != ref:
                        why = ("outcome %s vs %s" % (got[0], ref[0]) if got[0] != ref[0] else
                               "tree differs: %r vs %r" % ([(q, (d if d == "d" else len(d))) for q, d in got[1]][:14],
                                                           [(q, (d if d == "d" else len(d))) for q, d in ref[1]][:14]))
                        rep.violation({"self_instance": {"kind": kind, "api": api, "dst": dst, "workers": w}},
                                      "%s on one %s instance, /data -> %r: workers=%d differs from workers=0 — %s"
                                      % (api, kind, dst, w, why), found_input=True,
                                      signature="C09/self/%s/%s" % (api, "outcome" if got[0] != ref[0] else "tree"))
    rep.extra["same_instance_runs"] = n


def run(rep, tier, seed, deep=False):
    drv = vlib.Driver()
    quick = tier == "quick"
    nrand = 600 if quick else 27000
    if deep:
        nrand *= 2
    os.makedirs(SCRATCH, exist_ok=True)
    old_hook = threading.excepthook
    threading.excepthook = lambda a: None if issubclass(a.exc_type, Deadlock) else old_hook(a)
    try:
        scns = directed(seed) + randoms(seed, nrand)
        rep.rule = (
            "real copy_fs/copy_dir/mirror/move_fs on recording proxy filesystems (MemoryFS/OSFS pairs), workers in "
            "{0,1,2,4,8}, trees {empty, one empty file, 3..13 files (> queue slots), nested, sub-directory}, failures "
            "injected into open/read/write/close/setinfo of first/middle/last/random tasks (0..3 per run), schedules: "
            "gated (one thread between two instrumented calls; policies %s) and free-running with seeded delays (%s). "
            "Before that, *every* gated schedule of the small scopes %s is enumerated depth-first (capped per scope; "
            "the evidence records which enumerations completed). %d directed + %d random runs. Each run: trace accepted by FsModel.Bulk, gated runs predicted event for "
            "event by the model on the same schedule, final destination/outcome/open set/error count/timed set equal "
            "to the model's, and the property oracle (all handles closed, raise iff a failure fired, no live worker "
            "on return, destination = single-threaded result) evaluated on the real run. distinct = distinct "
            "(scenario, trace)." % (GATED_POLICIES, FREE_POLICIES, [n for n, _ in SMALL], len(directed(seed)), nrand)
        )
        rep.assumptions = [
            "queue.Queue, threading.Thread.join, the GIL: external (Queue is a bounded FIFO, join returns after run)",
            "the file objects of the backends are replaced by recording proxies; a failing close() still releases the real handle",
            "same-instance copies (src_fs is dst_fs -> FS.copy with workers=0) are outside the MODEL; they are decided by the "
            "property's oracle alone (outcome and tree equal to the single-threaded run for 13 destination spellings); "
            "conditions other than 'always' belong to C19",
            "destination paths of one call are pairwise distinct (walker yields each file once, C13)",
        ]
        rep.extra["exhaustive_small_scopes"] = exhaustive(rep, drv, 400 if quick else 6000)
        ok = run_all(rep, drv, scns)
        same_instance_phase(rep, quick)
        rep.extra["runs"] = len(scns)
        rep.extra["completed"] = ok
        rep.sample({"scenario": {k: scns[60][k] for k in ("api", "workers", "faults", "policy")}})
    finally:
        threading.excepthook = old_hook
        shutil.rmtree(SCRATCH, ignore_errors=True)


def replay(rep, case):
    drv = vlib.Driver()
    c = case.get("case", case)
    if c.get("self_instance"):
        os.makedirs(SCRATCH, exist_ok=True)
        try:
            same_instance_phase(rep, False)
        finally:
            shutil.rmtree(SCRATCH, ignore_errors=True)
        print("replay: %d violation(s)" % len(rep.violations))
        return 1 if rep.violations else 0
    scn = c.get("scenario")
    if scn is None:
        print("replay: no scenario in case")
        return 2
    scn["faults"] = [list(f) for f in scn["faults"]]
    os.makedirs(SCRATCH, exist_ok=True)
    try:
        ok = run_all(rep, drv, [scn])
    finally:
        shutil.rmtree(SCRATCH, ignore_errors=True)
    print("replay: %d violation(s), completed=%s" % (len(rep.violations), ok))
    return 1 if rep.violations else 0
