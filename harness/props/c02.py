"""C02 — stored data is returned bit-identical by every read path.

Theorems: lean/FsProofs/C02.lean (copy_file_data over a short-reading source; the write-path x
read-path matrix over the io reference IoRef; append; size).

Correspondence:
  (i)   fs.tools.copy_file_data with a short-reading source and a recording sink == the Lean
        model `file.copy` (the sequence of chunks handed to write, and their concatenation);
  (ii)  the matrix on the real code: for chunk sizes c and lengths {0,1,c-1,c,c+1,2c,3c+1}, every
        write path then every read path on MemoryFS and OSFS, plus cross-backend copy_file /
        move_file — the oracle is the property itself: bytes out == bytes in, getsize == len;
  (iii) text layer: fs.open/writetext/readtext/appendtext against io.TextIOWrapper over BytesIO
        for encodings x newline x errors settings;
  (iv)  props/_textmodel.py: the Lean text model (newlines, codecs, byte-order marks, make_stream /
        FS.open / io.open layer stacks, RawWrapper, buffering; theorems in FsProofs/TextLaws.lean)
        against io / codecs / the real fs.iotools and end-to-end on MemoryFS and OSFS.
"""
from __future__ import annotations

import hashlib
import io
import os
import shutil
import tempfile

import vlib
from vlib import hx
from props import _textmodel

EXTRA_PROOF_MODULES = ("FsProofs.TextLaws",)

SCRATCH_ROOT = os.environ.get("VERIF_SCRATCH", "/tmp/verif-scratch")
MAXVIOL = 6
LEANCHECKER_MODULES = ["FsProofs.C02", "FsProofs.TextLaws"]


# ----------------------------------------------------------------------------- sources / sinks


class ShortReader(object):
    """a source whose read(n) returns a non-empty prefix of up to n bytes chosen by an oracle
    list (the same rule as `File.readSize` in the Lean model)"""

    def __init__(self, data, oracle):
        self.data = data
        self.pos = 0
        self.oracle = list(oracle)
        self.calls = []

    def read(self, n=-1):
        self.calls.append(n)
        o = self.oracle.pop(0) if self.oracle else None
        avail = len(self.data) - self.pos
        if n is None:
            n = -1
        if n == 0:
            k = 0
        else:
            cap = avail if n < 0 else min(n, avail)
            k = cap if o is None else max(1, min(o, cap))
        out = self.data[self.pos:self.pos + k]
        self.pos += len(out)
        return out


class Sink(object):
    def __init__(self):
        self.chunks = []

    def write(self, b):
        self.chunks.append(bytes(b))
        return len(b)


def make_data(rng, n):
    """n bytes: every byte value appears (when n allows), newlines and NULs sprinkled in"""
    if n == 0:
        return b""
    base = bytearray(rng.randrange(256) for _ in range(min(n, 4096)))
    for i in range(0, len(base), 97):
        base[i] = 10
    for i in range(50, len(base), 389):
        base[i] = 13
    if len(base) >= 256:
        start = rng.randrange(len(base) - 255)
        base[start:start + 256] = bytes(range(256))
    data = bytes(base)
    while len(data) < n:
        data += data[: n - len(data)]
    return data[:n]


# ----------------------------------------------------------------------------- (i) copy_file_data vs model


def check_copy_loop(rep, drv, rng, chunks, tier):
    from fs.tools import copy_file_data

    cases = []
    for c in chunks:
        cc = 1024 * 1024 if c is None else c
        for L in sorted(set([0, 1, max(cc - 1, 0), cc, cc + 1, 2 * cc, 3 * cc + 1])) if cc > 0 else [0, 1, 5]:
            if L > 400000 and tier == "quick":
                continue
            for pat in range(4):
                if pat == 0:
                    oracle = []
                elif pat == 1:
                    oracle = [1] * 6
                elif pat == 2:
                    oracle = [rng.randrange(0, max(2, abs(cc) + 2)) for _ in range(12)]
                else:
                    oracle = [max(1, abs(cc) // 2), abs(cc) + 5, 0, 1]
                cases.append((c, make_data(rng, min(L, 300000) if abs(cc) > 100000 else L), oracle))
    # tiny exhaustive: every data length <= 6, chunk in -1..4, every oracle of length <= 2 over 0..3
    for c in (-1, 1, 2, 3, 4):
        for L in range(0, 7):
            data = bytes(range(65, 65 + L))
            for o1 in (None, 0, 1, 2, 3):
                for o2 in (None, 0, 1, 2, 3):
                    cases.append((c, data, [o for o in (o1, o2) if o is not None]))
    cases.append((0, b"abc", []))
    # random small scope
    for _ in range(400 if tier == "quick" else 20000):
        c = rng.choice([-1, 1, 2, 3, 5, 8, 13, 64])
        L = rng.randrange(0, 80)
        cases.append((c, bytes(rng.randrange(256) for _ in range(L)), [rng.randrange(0, 16) for _ in range(rng.randrange(0, 10))]))
    reqs = []
    for c, data, oracle in cases:
        reqs.append("file.copy %s %s %s" % ("N" if c is None else c, hx(data), ",".join(str(o) for o in oracle) or "-"))
    replies = drv.batch(reqs)
    for (c, data, oracle), model in zip(cases, replies):
        src = ShortReader(data, oracle)
        dst = Sink()
        copy_file_data(src, dst, chunk_size=c)
        written = b"".join(dst.chunks)
        impl = "ok %s | L%s" % (hx(written), ",".join(hx(x) for x in dst.chunks))
        rep.evaluations += 1
        rep.programs += 1
        rep.count("copy_loop:chunk=%s" % c)
        if data:
            rep.nontrivial("copy", c, len(data), tuple(oracle))
        case = {"kind": "copy_loop", "chunk": c, "data": data[:64].decode("latin-1"), "len": len(data), "oracle": oracle}
        if written != data:
            sig = "C02/copy_file_data/%s" % c
            if rep.match_known(sig) or len(rep.violations) < MAXVIOL:
                rep.violation(case, "copy_file_data(chunk_size=%r) wrote %d of %d bytes (reads asked: %r)"
                              % (c, len(written), len(data), src.calls[:5]), found_input=True, signature=sig)
        if impl != model and len(rep.violations) < MAXVIOL:
            rep.disagreements_checked += 1
            rep.violation(dict(case, model=model[:300], impl=impl[:300]),
                          "model copyFileData disagrees with fs.tools.copy_file_data (chunk %r, %d bytes, oracle %r)%s"
                          % (c, len(data), oracle, "" if written == data else "; the code also lost data"),
                          found_input=written != data, signature="C02/copy_file_data/correspondence")


# ----------------------------------------------------------------------------- (ii) the matrix


def pieces(data, c):
    c = max(1, c)
    return [data[i:i + c] for i in range(0, len(data), c)] or [b""]


def w_writebytes(f, p, data, c):
    f.writebytes(p, data)


def w_upload(f, p, data, c):
    f.upload(p, io.BytesIO(data), chunk_size=c)


def w_upload_short(f, p, data, c):
    f.upload(p, ShortReader(data, [1, c + 3, 2, max(1, c // 2)] * 3), chunk_size=c)


def w_upload_default(f, p, data, c):
    f.upload(p, io.BytesIO(data))


def w_writefile(f, p, data, c):
    f.writefile(p, io.BytesIO(data))


def w_append(f, p, data, c):
    k = len(data) // 2
    f.writebytes(p, data[:k])
    f.appendbytes(p, data[k:])


def w_append_new(f, p, data, c):
    if f.exists(p):
        f.remove(p)
    f.appendbytes(p, data[:1])
    f.appendbytes(p, data[1:])


def w_piecewise(f, p, data, c):
    with f.openbin(p, "w") as h:
        for x in pieces(data, c):
            h.write(x)


def w_writelines(f, p, data, c):
    with f.openbin(p, "w") as h:
        h.writelines(pieces(data, c))


def w_buffered_open(f, p, data, c):
    with f.open(p, "wb") as h:
        for x in pieces(data, c):
            h.write(x)


def w_overwrite_longer(f, p, data, c):
    f.writebytes(p, data + b"TRAILING-OLD-CONTENT")
    f.writebytes(p, data)


def w_copy(f, p, data, c):
    f.writebytes("src.bin", data)
    f.copy("src.bin", p, overwrite=True)


def w_move(f, p, data, c):
    f.writebytes("src.bin", data)
    f.move("src.bin", p, overwrite=True)


WRITE_PATHS = [("writebytes", w_writebytes), ("upload", w_upload), ("upload-short-reads", w_upload_short),
               ("upload-default", w_upload_default), ("writefile", w_writefile), ("appendbytes", w_append),
               ("appendbytes-new", w_append_new), ("piecewise", w_piecewise), ("writelines", w_writelines),
               ("open-wb-buffered", w_buffered_open), ("overwrite-longer", w_overwrite_longer),
               ("copy", w_copy), ("move", w_move)]


def r_readbytes(f, p, c):
    return f.readbytes(p)


def r_download(f, p, c):
    b = io.BytesIO()
    f.download(p, b, chunk_size=c)
    return b.getvalue()


def r_download_default(f, p, c):
    b = io.BytesIO()
    f.download(p, b)
    return b.getvalue()


def r_read_loop(f, p, c):
    out = []
    with f.openbin(p) as h:
        while True:
            x = h.read(c)
            if not x:
                break
            out.append(x)
    return b"".join(out)


def r_readinto_loop(f, p, c):
    out = []
    with f.openbin(p) as h:
        while True:
            buf = bytearray(max(1, c))
            n = h.readinto(buf)
            if not n:
                break
            out.append(bytes(buf[:n]))
    return b"".join(out)


def r_readline_loop(f, p, c):
    with f.openbin(p) as h:
        return b"".join(iter(h.readline, b""))


def r_iter(f, p, c):
    with f.openbin(p) as h:
        return b"".join(line for line in h)


def r_readlines(f, p, c):
    with f.openbin(p) as h:
        return b"".join(h.readlines())


def r_open_rb(f, p, c):
    with f.open(p, "rb") as h:
        return h.read()


def r_seek_tail(f, p, c):
    with f.openbin(p) as h:
        n = h.seek(0, 2)
        k = min(n, max(1, c))
        h.seek(n - k)
        tail = h.read()
        h.seek(0)
        return h.read(n - k) + tail


READ_PATHS = [("readbytes", r_readbytes), ("download", r_download), ("download-default", r_download_default),
              ("read-loop", r_read_loop), ("readinto-loop", r_readinto_loop), ("readline-loop", r_readline_loop),
              ("iteration", r_iter), ("readlines", r_readlines), ("open-rb", r_open_rb), ("seek+read", r_seek_tail)]


class Backends:
    def __init__(self):
        os.makedirs(SCRATCH_ROOT, exist_ok=True)
        self.dirs = []

    def make(self, kind):
        from fs.memoryfs import MemoryFS
        from fs.osfs import OSFS

        if kind == "mem":
            return MemoryFS()
        os.makedirs(SCRATCH_ROOT, exist_ok=True)
        d = tempfile.mkdtemp(dir=SCRATCH_ROOT, prefix="c02-")
        self.dirs.append(d)
        return OSFS(d)

    def lost(self):
        return [d for d in self.dirs if not os.path.isdir(d)]

    def close(self):
        for d in self.dirs:
            shutil.rmtree(d, ignore_errors=True)


def fail(rep, case, note, sig):
    if rep.match_known(sig) or len(rep.violations) < MAXVIOL:
        rep.violation(case, note, found_input=True, signature=sig)


def verify_file(rep, f, kind, wname, c, data, p="f.bin"):
    """every read path + size + hash on the stored file"""
    for rname, rfn in READ_PATHS:
        rep.evaluations += 1
        try:
            got = rfn(f, p, c)
        except Exception as e:  # noqa
            got = "raised %r" % (e,)
        rep.nontrivial(kind, wname, rname, c, len(data))
        rep.count("pair:%s x %s" % (wname, rname))
        if got != data:
            desc = got if isinstance(got, str) else "%d bytes, first difference at %s" % (
                len(got), next((i for i, (a, b) in enumerate(zip(got, data)) if a != b), min(len(got), len(data))))
            fail(rep, {"kind": "matrix", "backend": kind, "write": wname, "read": rname, "chunk": c, "len": len(data),
                       "data": data[:64].decode("latin-1")},
                 "%s: %s(chunk=%s) of %d bytes then %s returned %s" % (kind, wname, c, len(data), rname, desc),
                 "C02/%s/%s/%s" % (kind, wname, rname))
    rep.evaluations += 2
    size = f.getsize(p)
    isize = f.getinfo(p, namespaces=["details"]).size
    if size != len(data) or isize != len(data):
        fail(rep, {"kind": "size", "backend": kind, "write": wname, "chunk": c, "len": len(data)},
             "%s: getsize=%r details.size=%r after %s of %d bytes" % (kind, size, isize, wname, len(data)),
             "C02/%s/%s/size" % (kind, wname))
    for algo in ("md5", "sha256"):
        if f.hash(p, algo) != hashlib.new(algo, data).hexdigest():
            fail(rep, {"kind": "hash", "backend": kind, "write": wname, "chunk": c, "len": len(data)},
                 "%s: hash(%s) of the stored file differs from the hash of the %d bytes written via %s"
                 % (kind, algo, len(data), wname), "C02/%s/%s/hash" % (kind, wname))


def check_matrix(rep, rng, B, chunks, tier):
    for kind in ("mem", "os"):
        f = B.make(kind)
        try:
            for c in chunks:
                lengths = sorted(set([0, 1, max(c - 1, 0), c, c + 1, 2 * c, 3 * c + 1]))
                for L in lengths:
                    data = make_data(rng, L)
                    for wname, wfn in WRITE_PATHS:
                        rep.programs += 1
                        try:
                            wfn(f, "f.bin", data, c)
                        except Exception as e:  # noqa
                            fail(rep, {"kind": "matrix", "backend": kind, "write": wname, "chunk": c, "len": L},
                                 "%s: %s(chunk=%s) of %d bytes raised %r" % (kind, wname, c, L, e),
                                 "C02/%s/%s/raises" % (kind, wname))
                            continue
                        verify_file(rep, f, kind, wname, c, data)
            # all 256 byte values through every pair, odd chunk
            data = bytes(range(256)) * 3
            for wname, wfn in WRITE_PATHS:
                rep.programs += 1
                wfn(f, "f.bin", data, 7)
                verify_file(rep, f, kind, wname, 7, data)
            # chunk_size=0 means "default" since b5a3d6c (it used to copy nothing)
            for data in (b"abc", make_data(rng, 5000)):
                rep.programs += 1
                f.upload("zero.bin", io.BytesIO(data), chunk_size=0)
                verify_file(rep, f, kind, "upload-chunk0", 7, data, p="zero.bin")
                sink = io.BytesIO()
                f.download("zero.bin", sink, chunk_size=0)
                rep.evaluations += 1
                if sink.getvalue() != data:
                    fail(rep, {"kind": "download0", "backend": kind, "len": len(data)},
                         "%s: download(path, file, chunk_size=0) returned %d of %d bytes" % (kind, len(sink.getvalue()), len(data)),
                         "C02/%s/download/chunk0" % kind)
        finally:
            f.close()


def check_cross(rep, rng, B, chunks):
    from fs.copy import copy_file
    from fs.move import move_file

    for sk in ("mem", "os"):
        for dk in ("mem", "os"):
            src, dst = B.make(sk), B.make(dk)
            try:
                for c in chunks:
                    for L in sorted(set([0, 1, c, 3 * c + 1])):
                        data = make_data(rng, L)
                        for name, fn in (("copy_file", copy_file), ("move_file", move_file)):
                            rep.programs += 1
                            src.writebytes("s.bin", data)
                            dst.writebytes("d.bin", b"OLD" * 50)
                            try:
                                fn(src, "s.bin", dst, "d.bin")
                            except Exception as e:  # noqa
                                fail(rep, {"kind": "cross", "src": sk, "dst": dk, "fn": name, "len": L},
                                     "%s %s->%s of %d bytes raised %r" % (name, sk, dk, L, e), "C02/%s/raises" % name)
                                continue
                            verify_file(rep, dst, "%s->%s" % (sk, dk), name, c, data, p="d.bin")
                            if name == "copy_file" and src.readbytes("s.bin") != data:
                                fail(rep, {"kind": "cross", "src": sk, "dst": dk, "fn": name, "len": L},
                                     "copy_file %s->%s changed the source" % (sk, dk), "C02/copy_file/source-changed")
            finally:
                src.close()
                dst.close()


# ----------------------------------------------------------------------------- (iii) text layer

TEXTS = ["", "plain", "a\nb\r\nc\rd\n", "\n\n\r\r\n", "café ÿà\n", "line1\r\nline2", "x" * 9000 + "\né" * 50]
UNI = ["日本語\n\U0001f600 αβ\r\n", "﻿bom-inside\n"]
NEWLINES = [None, "", "\n", "\r", "\r\n"]


def ref_encode(text, enc, errors, nl):
    b = io.BytesIO()
    w = io.TextIOWrapper(b, encoding=enc, errors=errors, newline=nl)
    try:
        w.write(text)
        w.flush()
        out = b.getvalue()
        w.detach()
        return ("ok", out)
    except UnicodeError as e:
        try:
            w.detach()
        except Exception:
            pass
        return ("err", type(e).__name__)


def ref_decode(raw, enc, errors, nl):
    try:
        return ("ok", io.TextIOWrapper(io.BytesIO(raw), encoding=enc, errors=errors, newline=nl).read())
    except UnicodeError as e:
        return ("err", type(e).__name__)


def ref_lines(raw, enc, errors, nl):
    try:
        return ("ok", list(io.TextIOWrapper(io.BytesIO(raw), encoding=enc, errors=errors, newline=nl)))
    except UnicodeError as e:
        return ("err", type(e).__name__)


def check_text(rep, B):
    combos = [(enc, None) for enc in ("utf-8", "utf-16", "latin-1")] + [("ascii", e) for e in ("strict", "replace", "ignore")]
    for kind in ("mem", "os"):
        f = B.make(kind)
        try:
            for enc, errors in combos:
                texts = TEXTS + (UNI if enc in ("utf-8", "utf-16", "ascii") else [])
                for nl in NEWLINES:
                    for text in texts:
                        rep.programs += 1
                        rep.nontrivial("text", kind, enc, errors, nl, text[:20], len(text))
                        case = {"kind": "text", "backend": kind, "encoding": enc, "errors": errors, "newline": nl, "text": text[:80]}
                        want = ref_encode(text, enc, errors, nl)
                        # write through fs.open in text mode
                        try:
                            with f.open("t.txt", "w", encoding=enc, errors=errors, newline=nl) as h:
                                h.write(text)
                            got = ("ok", f.readbytes("t.txt"))
                        except UnicodeError as e:
                            got = ("err", type(e).__name__)
                        rep.evaluations += 1
                        rep.count("text-write:%s" % want[0])
                        if got != want:
                            fail(rep, case, "%s: open('w', encoding=%r, errors=%r, newline=%r).write(%r) stored %r, io.TextIOWrapper gives %r"
                                 % (kind, enc, errors, nl, text[:40], got[1][:60] if got[0] == "ok" else got, want[1][:60] if want[0] == "ok" else want),
                                 "C02/%s/text-write" % kind)
                            continue
                        if want[0] != "ok":
                            continue
                        raw = want[1]
                        # read paths of the text layer
                        for rname, fn, ref in (
                            ("read", lambda: f.open("t.txt", "r", encoding=enc, errors=errors, newline=nl).read(), ref_decode),
                            ("iter", lambda: list(f.open("t.txt", "r", encoding=enc, errors=errors, newline=nl)), ref_lines),
                            ("readtext", lambda: f.readtext("t.txt", encoding=enc, errors=errors, newline=nl), ref_decode),
                        ):
                            rep.evaluations += 1
                            w2 = ref(raw, enc, errors, nl)
                            try:
                                g2 = ("ok", fn())
                            except UnicodeError as e:
                                g2 = ("err", type(e).__name__)
                            if g2 != w2:
                                fail(rep, dict(case, read=rname),
                                     "%s: %s(encoding=%r, newline=%r) of %r returned %r, io.TextIOWrapper gives %r"
                                     % (kind, rname, enc, nl, raw[:40], str(g2[1])[:60], str(w2[1])[:60]), "C02/%s/text-%s" % (kind, rname))
                        # writetext / appendtext
                        if nl is not None:
                            rep.evaluations += 2
                            try:
                                f.writetext("w.txt", text, encoding=enc, errors=errors, newline=nl)
                                g3 = ("ok", f.readbytes("w.txt"))
                            except UnicodeError as e:
                                g3 = ("err", type(e).__name__)
                            if g3 != want:
                                fail(rep, case, "%s: writetext(encoding=%r, newline=%r) stored %r, reference %r" % (kind, enc, nl, g3[1][:60], raw[:60]),
                                     "C02/%s/writetext" % kind)
                            if enc != "utf-16":
                                k = len(text) // 2
                                if f.exists("a.txt"):
                                    f.remove("a.txt")
                                f.appendtext("a.txt", text[:k], encoding=enc or "utf-8", errors=errors, newline=nl)
                                f.appendtext("a.txt", text[k:], encoding=enc or "utf-8", errors=errors, newline=nl)
                                a, b = ref_encode(text[:k], enc, errors, nl), ref_encode(text[k:], enc, errors, nl)
                                if a[0] == "ok" and b[0] == "ok" and f.readbytes("a.txt") != a[1] + b[1]:
                                    fail(rep, case, "%s: appendtext twice stored %r, reference %r" % (kind, f.readbytes("a.txt")[:60], (a[1] + b[1])[:60]),
                                         "C02/%s/appendtext" % kind)
                    # defaults: unchanged round trip
                for text in TEXTS + UNI:
                    rep.evaluations += 1
                    if enc in ("utf-8", "utf-16"):
                        f.writetext("d.txt", text, encoding=enc)
                        back = f.readtext("d.txt", encoding=enc)
                        if back != text:
                            fail(rep, {"kind": "text-default", "backend": kind, "encoding": enc, "text": text[:80]},
                                 "%s: writetext/readtext with default newline changed the text (%r -> %r)" % (kind, text[:40], back[:40]),
                                 "C02/%s/text-default" % kind)
        finally:
            f.close()


def check_text_append_bom(rep, B):
    """appending text with an encoding that writes a byte-order mark: io.open(..., 'a') on an
    existing non-empty file writes no second BOM (TextIOWrapper looks at tell()); the stored bytes,
    the text read back and the reported size must equal what a real io file gives"""
    import os as _os
    import tempfile as _tf

    for kind in ("mem", "os"):
        f = B.make(kind)
        try:
            for enc in ("utf-16", "utf-32", "utf-8-sig", "utf-16-le", "utf-8"):
                for first, second in (("alpha", "beta"), ("", "x"), ("é\n", "ü"), ("a", "")):
                    for how in ("appendtext", "open-a"):
                        rep.evaluations += 1
                        rep.programs += 1
                        rep.nontrivial("text-append", kind, enc, first, second, how)
                        d = _tf.mkdtemp()
                        ref = _os.path.join(d, "r.txt")
                        try:
                            with io.open(ref, "w", encoding=enc, newline="") as h:
                                h.write(first)
                            with io.open(ref, "a", encoding=enc, newline="") as h:
                                h.write(second)
                            want = open(ref, "rb").read()
                            want_text = io.open(ref, "r", encoding=enc, newline="").read()
                        finally:
                            import shutil as _sh
                            _sh.rmtree(d, ignore_errors=True)
                        f.writetext("b.txt", first, encoding=enc)
                        if how == "appendtext":
                            f.appendtext("b.txt", second, encoding=enc)
                        else:
                            with f.open("b.txt", "a", encoding=enc, newline="") as h:
                                h.write(second)
                        got = f.readbytes("b.txt")
                        case = {"kind": "text-append", "backend": kind, "encoding": enc, "first": first, "second": second, "how": how}
                        if got != want:
                            fail(rep, case, "%s: writetext(%r) then %s(%r) with encoding %r stored %r, an io file holds %r"
                                 % (kind, first, how, second, enc, got[:40], want[:40]), "C02/%s/text-append" % kind)
                        elif f.readtext("b.txt", encoding=enc) != want_text or f.getsize("b.txt") != len(want):
                            fail(rep, case, "%s: text appended with encoding %r reads back as %r (io: %r), size %d (io: %d)"
                                 % (kind, enc, f.readtext("b.txt", encoding=enc)[:30], want_text[:30], f.getsize("b.txt"), len(want)),
                                 "C02/%s/text-append-read" % kind)
        finally:
            f.close()


# ----------------------------------------------------------------------------- run / replay


def run(rep, tier, seed, deep=False):
    drv = vlib.Driver()
    rng = vlib.rng_for(seed, "c02")
    quick = tier == "quick"
    chunks = [1, 2, 7, 4096, 65536] + ([] if quick else [1024 * 1024])
    rep.rule = (
        "chunk sizes c in %r; lengths {0,1,c-1,c,c+1,2c,3c+1}; data with all 256 byte values, newlines, NULs; "
        "write paths %r x read paths %r (+ getsize, details.size, md5/sha256 via FS.hash) on MemoryFS and OSFS; "
        "copy_file/move_file across {mem,os}^2; copy_file_data with 4 short-read oracles per (c, length) + exhaustive "
        "tiny scope (len<=6, chunk -1..4, oracles of length<=2) compared chunk-by-chunk with the Lean model; "
        "text: encodings utf-8/utf-16/latin-1/ascii+errors x newline in %r vs io.TextIOWrapper(BytesIO); text model: all strings of "
        "length <=5 over {a,CR,LF} x 5 newlines, codecs on random scalars / malformed bytes, layer stacks for 32 mode spellings x buffering "
        "{-1,0,1,8192}, end-to-end 10 codec settings x 5 newlines x texts on mem/os, buffering and RawWrapper sessions (design.d/TEXT.md). "
        "distinct = distinct (backend, write path, read path, chunk, length) / copy-loop / text cases"
        % (chunks, [w for w, _ in WRITE_PATHS], [r for r, _ in READ_PATHS], NEWLINES))
    rep.assumptions = [
        "codecs are external: the text theorems (FsProofs/TextLaws.lean) assume Codec.Roundtrip (dec (enc s) = s on encodable strings); "
        "UTF-8, UTF-16-LE, UTF-32-LE, latin-1, ascii are given in Lean and proved to satisfy it; os.linesep = '\\n'",
        "io.TextIOWrapper's newline machinery and the Buffered* classes are re-stated / specified in Lean (FsModel/Text.lean) and validated "
        "against the real ones on every run (props/_textmodel.py), not transcribed from C",
        "io.BytesIO / BufferedReader sources used by upload are external (short reads are modelled by the oracle reader)",
        "FTPFS, archives (C15) and the bulk Copier (C09) are not exercised here; MemoryFS and OSFS only",
        "hash streams are compared through md5 and sha256 digests",
    ]
    B = Backends()
    try:
        check_copy_loop(rep, drv, vlib.rng_for(seed, "c02-copy"), [None, -1, 1, 2, 7, 4096, 65536], tier)
        check_matrix(rep, rng, B, chunks, tier)
        check_cross(rep, rng, B, [1, 7, 4096] if quick else [1, 7, 4096, 65536])
        check_text(rep, B)
        check_text_append_bom(rep, B)
        _textmodel.check_text_model(rep, drv, vlib.rng_for(seed, "c02-text"), tier)
        rep.extra["exhaustive"] = True
        if B.lost() and rep.violations:
            raise vlib.Infra("scratch directories %r were removed by a concurrent run; differences seen in this "
                             "run are not a verdict" % B.lost())
        rep.sample({"write": "upload-short-reads", "read": "readinto-loop", "chunk": 7, "len": 22})
        rep.sample({"copy_file_data": {"chunk": 3, "data": "ABCDEFG", "oracle": [1, 9, 2]},
                    "model": drv.batch(["file.copy 3 %s 1,9,2" % hx(b"ABCDEFG")])[0]})
    finally:
        B.close()


def replay(rep, case):
    vlib.repo_on_path()
    c = case["case"]
    if c.get("kind") in _textmodel.REPLAY_KINDS + ("text",):
        return _textmodel.replay(rep, c)
    B = Backends()
    try:
        if c.get("kind") in ("upload0", "download0"):
            f = B.make(c["backend"])
            f.upload("zero.bin", io.BytesIO(b"abc"), chunk_size=0)
            got = f.readbytes("zero.bin")
            print("upload(chunk_size=0) of b'abc' stored", got)
            return 0 if got == b"abc" else 1
        if c.get("kind") == "copy_loop":
            from fs.tools import copy_file_data

            data = make_data(vlib.rng_for(0, "replay"), c["len"])
            src, dst = ShortReader(data, c["oracle"]), Sink()
            copy_file_data(src, dst, chunk_size=c["chunk"])
            ok = b"".join(dst.chunks) == data
            print("copy_file_data chunk=%r len=%d oracle=%r: %s" % (c["chunk"], len(data), c["oracle"], "exact" if ok else "DIFFERS"))
            return 0 if ok else 1
        if c.get("kind") == "matrix":
            f = B.make(c["backend"] if c["backend"] in ("mem", "os") else "mem")
            data = make_data(vlib.rng_for(0, "replay"), c["len"])
            if c["write"] == "upload-chunk0":
                f.upload("f.bin", io.BytesIO(data), chunk_size=0)
            else:
                dict(WRITE_PATHS)[c["write"]](f, "f.bin", data, c["chunk"])
            got = dict(READ_PATHS)[c["read"]](f, "f.bin", c["chunk"]) if "read" in c else f.readbytes("f.bin")
            print("%s then %s: %s" % (c["write"], c.get("read", "readbytes"), "identical" if got == data else "DIFFERS"))
            return 0 if got == data else 1
        print("case:", c)
        return 1
    finally:
        B.close()
