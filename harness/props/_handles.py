"""Handles — histories that keep file objects OPEN across other filesystem calls (C01 + C16).

Model: lean/FsModel/Handles.lean (`h.run`), theorems: lean/FsProofs/HandleLaws.lean.

Each history (filesystem calls, `open` keeping the file object, file-object calls addressed by
handle id) is executed
  * on the real backend (MemoryFS, OSFS with buffering=0, SubFS of each, write-mode ZipFS),
  * on the Lean reference with open handles (`h.run`; `rename` = the reference, `copy` = the
    as-coded fs/base.py movedir for the backends that inherit it),
  * and, for the random histories and on every disagreement, on `PosixOracle`: the common contract
    evaluated directly — a name tree whose file entries name REAL inodes (scratch files) and whose
    handles are REAL unbuffered `io.FileIO` objects, so sharing, unlink-while-open, truncation of the
    same inode and append positioning are the kernel's and Python io's own.
Compared per call (verdict / value / `tell()`), and at the end on the tree and on the bytes still
readable through every surviving handle.  A backend that differs from the model AND from the
oracle is a failing input of the property; a model that differs from backend == oracle is a
broken correspondence (no failing input).
"""
from __future__ import annotations

import io
import itertools
import json
import os
import tempfile

import vlib
from vlib import hx
import fsharness as H
from props import c16 as F

BACKENDS = ["mem", "os", "sub-mem", "sub-os", "zip-w"]
# how the backend's movedir onto a NEW destination treats open files below the source
IMPL = {"mem": "rename", "sub-mem": "rename", "os": "copy", "sub-os": "copy", "zip-w": "copy"}
SIG_MOVEDIR = "C01/handles/movedir-new-destination-copies-open-files"
MODES = ["r", "r+", "w", "w+", "a", "a+", "x", "x+"]
FILES = ["f", "g", "d/f", "d/g", "e/f", "d/s/f"]
DIRS = ["d", "e", "d/s"]
TREES = [
    [("F", "f", b"abc")],
    [("F", "f", b"abc"), ("D", "d"), ("F", "d/f", b"in-d"), ("F", "d/g", b"dg")],
    [("D", "d"), ("F", "d/f", b"0123456"), ("D", "e"), ("F", "e/f", b"old-e"), ("F", "g", b"gg")],
    [("D", "d"), ("D", "d/s"), ("F", "d/s/f", b"deep\nline2\n"), ("F", "f", b"")],
    [],
]
MAX_OPEN = 3


def _load_proposed_findings(rep):
    """open findings proposed by this package count as known until merged into known_findings.json"""
    path = os.path.join(vlib.VERIF, "findings", "known_findings_additions.json")
    if os.path.exists(path):
        have = set(f["signature"] for f in rep.open_findings)
        for f in json.load(open(path)):
            if f.get("property") == rep.prop_id and f["signature"] not in have:
                rep.open_findings.append(f)


# ----------------------------------------------------------------------------- encoding


def enc_hop(op):
    if op[0] == "t":
        a = [op[1][0]]
        for x in op[1][1:]:
            a.append(("1" if x else "0") if isinstance(x, bool) else hx(x))
        return "t " + " ".join(a)
    if op[0] == "o":
        return "o %s %s" % (hx(op[1]), hx(op[2]))
    return "f %d %s" % (op[1], F.tok(op[2]))


def request(impl, tree, hist):
    return "h.run %s %s %s" % (impl, H.enc_tree(tree), " ; ".join(enc_hop(o) for o in hist))


def canon_entry(x):
    """listing order is outside the observable tree"""
    if x.startswith("tok:names:"):
        out, t = x.rsplit("@", 1)
        return "tok:" + H.canon_val(out[4:]) + "@" + t
    return x


def parse_reply(line):
    parts = [p.strip() for p in line.split(" | ")]
    trace = [] if parts[0] == "." else [canon_entry(x) for x in parts[0].split(";")]
    tree = H.canon_tree(H.dec_tree(parts[1]))
    closed = parts[2] == "1"
    handles = {}
    if parts[3] != ".":
        for h in parts[3].split(";"):
            hid, ino, link, oc, pos, data = h.split(":")
            handles[int(hid)] = (link, oc, int(pos), vlib.unhxb(data))
    return {"trace": trace, "tree": tree, "closed": closed, "handles": handles, "wf": parts[4] == "wf=1"}


def hist_json(hist):
    out = []
    for o in hist:
        if o[0] == "t":
            out.append(["t"] + H.op_json(o[1]))
        elif o[0] == "o":
            out.append(list(o))
        else:
            out.append(["f", o[1]] + [x.decode("latin-1") if isinstance(x, bytes) else
                                      ([y.decode("latin-1") for y in x] if isinstance(x, tuple) else x) for x in o[2]])
    return out


def hist_from_json(js):
    out = []
    for o in js:
        if o[0] == "t":
            out.append(("t", H.fix_op_bytes(tuple(o[1:]))))
        elif o[0] == "o":
            out.append(("o", o[1], o[2]))
        else:
            fop = [o[2]]
            for x in o[3:]:
                if o[2] == "write" and isinstance(x, str):
                    x = x.encode("latin-1")
                elif o[2] == "writelines":
                    x = tuple(y.encode("latin-1") for y in x)
                fop.append(x)
            out.append(("f", o[1], tuple(fop)))
    return out


# ----------------------------------------------------------------------------- executing


def tell_of(fobj):
    if fobj.closed:
        return "-"
    try:
        return str(fobj.tell())
    except Exception as e:  # noqa
        return "!" + type(e).__name__


def file_call(fobj, fop):
    try:
        out = F.call(fobj, fop)
    except BaseException as e:  # noqa
        if isinstance(e, (KeyboardInterrupt, SystemExit)):
            raise
        out = F.family(e, fobj)
    return out + "@" + tell_of(fobj)


def survivor_bytes(fobj):
    """what can still be learnt through an open handle: its bytes when readable, else its size"""
    pos = fobj.tell()
    try:
        if fobj.readable():
            fobj.seek(0)
            data = fobj.readall() if hasattr(fobj, "readall") else fobj.read()
            return ("bytes", data)
        return ("size", fobj.seek(0, 2))
    finally:
        fobj.seek(pos)


def open_real(kind, fsobj, path, mode):
    if kind in ("mem", "sub-mem"):
        return fsobj.openbin(path, mode)
    if kind == "os":
        return fsobj.openbin(path, mode, buffering=0)
    # WrapFS.openbin drops `buffering`; WrapFS.open passes it on
    return fsobj.open(path, mode + "b", buffering=0)


class RealRun:
    """one history on a real backend"""

    def __init__(self, kind, tree):
        self.kind = kind
        self.b = H.build_state(kind, tree)
        self.handles = []
        self.fs_closed = False

    def step(self, op):
        if op[0] == "t":
            r = H.apply_op(self.b.fs, op[1])
            if op[1][0] == "close":
                self.fs_closed = True
            if r[0] == "ok":
                return "tok:" + H.canon_val(r[1]) + "@-"
            return "terr:" + r[1] + "@-"
        if op[0] == "o":
            try:
                fobj = H.with_watchdog(lambda: open_real(self.kind, self.b.fs, op[1], op[2]), 10)
            except BaseException as e:  # noqa
                if isinstance(e, (KeyboardInterrupt, SystemExit)):
                    raise
                return "oerr:" + H.exc_name(e) + "@-"
            self.handles.append(fobj)
            return "opened:%d@%s" % (len(self.handles) - 1, tell_of(fobj))
        if op[1] >= len(self.handles):
            return "badh@-"
        return file_call(self.handles[op[1]], op[2])

    def finish(self):
        """(tree or None when the filesystem is closed, {hid: survivor bytes})"""
        surv = {}
        for i, fobj in enumerate(self.handles):
            if not fobj.closed:
                try:
                    surv[i] = survivor_bytes(fobj)
                except Exception as e:  # noqa
                    surv[i] = ("exc", type(e).__name__)
        tree = None
        if not self.fs_closed:
            snap = H.snapshot(self.b.fs)
            tree = None if snap is None else H.canon_tree(snap)
            if snap is None:
                tree = "corrupt"
        return tree, surv

    def dispose(self):
        for fobj in self.handles:
            try:
                fobj.close()
            except Exception:
                pass
        self.b.close()


# ----------------------------------------------------------------------------- the contract, directly


class Fail(Exception):
    pass


class PosixOracle:
    """The common contract evaluated directly.  Names -> directories (dict) or inode numbers; an
    inode is a REAL file in a scratch directory, a handle is a REAL `open(.., buffering=0)` on it.
    Removing / replacing a name only drops the name (the inode lives while handles hold it);
    whatever overwrites a file in place re-opens the SAME inode with "wb"; `move` and a `movedir`
    onto a new destination re-link the entry (POSIX rename)."""

    def __init__(self):
        os.makedirs(H.SCRATCH_ROOT, exist_ok=True)
        self.dir = tempfile.mkdtemp(dir=H.SCRATCH_ROOT, prefix="hx-")
        self.root = {}
        self.n = 0
        self.handles = []
        self.closed = False

    # -- inodes
    def _ipath(self, ino):
        return os.path.join(self.dir, "i%d" % ino)

    def _new(self, data=b""):
        self.n += 1
        with open(self._ipath(self.n), "wb") as fh:
            fh.write(data)
        return self.n

    def _read(self, ino):
        with open(self._ipath(ino), "rb") as fh:
            return fh.read()

    def _rewrite(self, ino, data, mode="wb"):
        with open(self._ipath(ino), mode, buffering=0) as fh:
            fh.write(data)

    # -- names
    @staticmethod
    def comps(p):
        import fs.path as P

        try:
            if "\0" in p:
                raise Fail("InvalidCharsInPath")
            return [c for c in P.abspath(P.normpath(p)).split("/") if c]
        except Fail:
            raise
        except Exception:
            raise Fail("IllegalBackReference")

    def get(self, cs):
        n = self.root
        for c in cs:
            if not isinstance(n, dict) or c not in n:
                return None
            n = n[c]
        return n

    def parent(self, cs, err="ResourceNotFound"):
        p = self.get(cs[:-1])
        if not isinstance(p, dict):
            raise Fail(err)
        return p

    def snapshot(self):
        out = []

        def rec(d, pre):
            for k, v in d.items():
                p = pre + "/" + k if pre else k
                if isinstance(v, dict):
                    out.append(("D", p))
                    rec(v, p)
                else:
                    out.append(("F", p, self._read(v)))
        rec(self.root, "")
        return H.canon_tree(out)

    def build(self, tree):
        for e in tree:
            cs = self.comps(e[1])
            if e[0] == "D":
                self.parent(cs)[cs[-1]] = {}
            else:
                self.parent(cs)[cs[-1]] = self._new(e[2])

    # -- writing one file (the same inode when it exists)
    def _write(self, cs, f):
        if not cs:
            raise Fail("FileExpected")
        par = self.parent(cs)
        cur = par.get(cs[-1])
        if isinstance(cur, dict):
            raise Fail("FileExpected")
        if cur is None:
            par[cs[-1]] = self._new(f(None))
        else:
            self._rewrite(cur, f(self._read(cur)))

    def _copy_into(self, src, dst):
        """merge directory `src` into directory `dst`: files overwrite in place (same inode) or are new inodes"""
        for k, v in src.items():
            cur = dst.get(k)
            if isinstance(v, dict):
                if cur is None:
                    dst[k] = cur = {}
                elif not isinstance(cur, dict):
                    raise Fail("OperationFailed")
                self._copy_into(v, cur)
            else:
                if isinstance(cur, dict):
                    raise Fail("OperationFailed")
                if cur is None:
                    dst[k] = self._new(self._read(v))
                else:
                    self._rewrite(cur, self._read(v))

    def tree_op(self, op):
        name = op[0]
        if name == "close":
            self.closed = True
            return "unit"
        if self.closed:
            raise Fail("FilesystemClosed")
        if name == "openbin":
            if op[2] not in MODES + [m + "b" for m in MODES]:
                raise Fail("ValueError")
        cs = self.comps(op[1])
        node = self.get(cs)
        if name == "exists":
            return "bool:%d" % (node is not None)
        if name == "isdir":
            return "bool:%d" % isinstance(node, dict)
        if name == "isfile":
            return "bool:%d" % isinstance(node, int)
        if name in ("listdir", "isempty"):
            if node is None:
                raise Fail("ResourceNotFound")
            if not isinstance(node, dict):
                raise Fail("DirectoryExpected")
            return ("names:" + vlib.hxlist(sorted(node))) if name == "listdir" else "bool:%d" % (not node)
        if name == "getsize":
            if node is None:
                raise Fail("ResourceNotFound")
            return "nat:%d" % (0 if isinstance(node, dict) else len(self._read(node)))
        if name == "readbytes":
            if node is None:
                raise Fail("ResourceNotFound")
            if isinstance(node, dict):
                raise Fail("FileExpected")
            return "bytes:" + hx(self._read(node))
        if name == "makedir":
            if not cs:
                if op[2]:
                    return "unit"
                raise Fail("DirectoryExists")
            par = self.parent(cs)
            if node is not None:
                if isinstance(node, dict) and op[2]:
                    return "unit"
                raise Fail("DirectoryExists")
            par[cs[-1]] = {}
            return "unit"
        if name == "writebytes":
            self._write(cs, lambda old: op[2])
            return "unit"
        if name == "appendbytes":
            self._write(cs, lambda old: (old or b"") + op[2])
            return "unit"
        if name == "create":
            if not op[2] and node is not None:
                return "bool:0"
            self._write(cs, lambda old: b"")
            return "bool:1"
        if name == "touch":
            if node is None:
                self._write(cs, lambda old: b"")
            return "unit"
        if name == "openbin":
            return self._open_verdict(cs, op[2].replace("b", ""), keep=False)
        if name == "remove":
            if not cs or isinstance(node, dict):
                raise Fail("FileExpected")
            if node is None:
                raise Fail("ResourceNotFound")
            del self.parent(cs)[cs[-1]]
            return "unit"
        if name == "removedir":
            if not cs:
                raise Fail("RemoveRootError")
            if node is None:
                raise Fail("ResourceNotFound")
            if not isinstance(node, dict):
                raise Fail("DirectoryExpected")
            if node:
                raise Fail("DirectoryNotEmpty")
            del self.parent(cs)[cs[-1]]
            return "unit"
        if name == "removetree":
            if not cs:
                self.root.clear()
                return "unit"
            if node is None:
                raise Fail("ResourceNotFound")
            if not isinstance(node, dict):
                raise Fail("DirectoryExpected")
            del self.parent(cs)[cs[-1]]
            return "unit"
        ds = self.comps(op[2])
        dnode = self.get(ds)
        flag = op[3]
        if name == "move":
            if node is None:
                raise Fail("ResourceNotFound")
            if isinstance(node, dict):
                raise Fail("FileExpected")
            if not flag and dnode is not None:
                raise Fail("DestinationExists")
            if cs == ds:
                return "unit"
            if not ds or isinstance(dnode, dict):
                raise Fail("FileExpected")
            dpar = self.parent(ds)
            dpar[ds[-1]] = node               # the SAME inode gets the new name
            del self.parent(cs)[cs[-1]]
            return "unit"
        if name == "copy":
            if not flag and dnode is not None:
                raise Fail("DestinationExists")
            if cs == ds:
                raise Fail("IllegalDestination")
            if node is None:
                raise Fail("ResourceNotFound")
            if isinstance(node, dict):
                raise Fail("FileExpected")
            data = self._read(node)
            self._write(ds, lambda old: data)
            return "unit"
        if name in ("movedir", "copydir"):
            if name == "movedir" and cs == ds:
                return "unit"
            if ds[:len(cs)] == cs:
                raise Fail("IllegalDestination")
            if node is None:
                raise Fail("ResourceNotFound")
            if not isinstance(node, dict):
                raise Fail("DirectoryExpected")
            if isinstance(dnode, int):
                raise Fail("DirectoryExpected")
            if dnode is None:
                if not flag:
                    raise Fail("ResourceNotFound")
                if name == "movedir":
                    dpar = self.parent(ds)
                    dpar[ds[-1]] = node       # the directory entry is re-linked: open files follow
                    del self.parent(cs)[cs[-1]]
                    return "unit"
                cur = self.root
                for c in ds:                  # copydir(create=True) makes missing ancestors
                    nxt = cur.get(c)
                    if nxt is None:
                        cur[c] = nxt = {}
                    elif not isinstance(nxt, dict):
                        raise Fail("DirectoryExpected")
                    cur = nxt
                dnode = cur
            if cs[:len(ds)] == ds and name == "movedir":
                raise Fail("OperationFailed")   # destination an ancestor of the source: steered around
            self._copy_into(node, dnode)
            if name == "movedir":
                del self.parent(cs)[cs[-1]]
            return "unit"
        raise AssertionError(op)

    def _open_verdict(self, cs, mode, keep):
        if not cs:
            raise Fail("FileExpected")
        par = self.parent(cs)
        cur = par.get(cs[-1])
        if isinstance(cur, dict):
            raise Fail("FileExpected")
        creating = mode[0] in "wax"
        if cur is None and not creating:
            raise Fail("ResourceNotFound")
        if cur is not None and mode[0] == "x":
            raise Fail("FileExists")
        if cur is None:
            self.n += 1
            cur = par[cs[-1]] = self.n      # a new inode; its backing file is created by the open below
        fobj = open(self._ipath(cur), mode + "b", buffering=0)
        if keep:
            return fobj
        fobj.close()
        return "unit"

    def step(self, op):
        try:
            if op[0] == "t":
                return "tok:" + self.tree_op(op[1]) + "@-"
            if op[0] == "o":
                if self.closed:
                    raise Fail("FilesystemClosed")
                if op[2] not in MODES:
                    raise Fail("ValueError")
                fobj = self._open_verdict(self.comps(op[1]), op[2], keep=True)
                self.handles.append(fobj)
                return "opened:%d@%s" % (len(self.handles) - 1, tell_of(fobj))
        except Fail as e:
            return ("terr:" if op[0] == "t" else "oerr:") + str(e) + "@-"
        if op[1] >= len(self.handles):
            return "badh@-"
        return file_call(self.handles[op[1]], op[2])

    def finish(self):
        surv = {i: survivor_bytes(f) for i, f in enumerate(self.handles) if not f.closed}
        return (None if self.closed else self.snapshot()), surv

    def dispose(self):
        for f in self.handles:
            try:
                f.close()
            except Exception:
                pass
        H.rm_rf(self.dir)


def oracle_run(tree, hist):
    o = PosixOracle()
    try:
        o.build(tree)
        tr = [o.step(op) for op in hist]
        fin = o.finish()
    finally:
        o.dispose()
    return tr, fin


def real_run(kind, tree, hist):
    r = RealRun(kind, tree)
    try:
        tr = []
        for op in hist:
            tr.append(r.step(op))
        fin = r.finish()
    finally:
        r.dispose()
    return tr, fin


# ----------------------------------------------------------------------------- comparison


def verdict_only(x):
    """filesystem calls and `open` are compared on verdict + value (error CLASS is C06's business)"""
    out, t = x.rsplit("@", 1)
    if out.startswith("terr:"):
        return "terr@" + t
    if out.startswith("oerr:"):
        return "oerr@" + t
    return x


def first_diff(a, b):
    """index and description of the first difference between two executions, or None.
    a, b = (trace, (tree, survivors)); model survivors are {hid: (link, oc, pos, bytes)}"""
    ta, tb = a[0], b[0]
    for i, (x, y) in enumerate(zip(ta, tb)):
        if verdict_only(x) != verdict_only(y):
            return i, "call %d: %s vs %s" % (i, x, y)
    if len(ta) != len(tb):
        return min(len(ta), len(tb)), "trace lengths %d vs %d" % (len(ta), len(tb))
    (tra, sa), (trb, sb) = a[1], b[1]
    if tra is not None and trb is not None and tra != trb:
        return len(ta), "final tree: %r vs %r" % (tra, trb)
    if sorted(sa) != sorted(sb):
        return len(ta), "surviving handles %r vs %r" % (sorted(sa), sorted(sb))
    for hid in sa:
        if sa[hid] != sb[hid]:
            return len(ta), "bytes through surviving handle %d: %r vs %r" % (hid, sa[hid], sb[hid])
    return None


def model_fin(m, like):
    """the model's end state in the shape of a real run's `finish()` (`like` tells which handles are
    readable: for the others only the size is observable)"""
    surv = {}
    for hid, (link, oc, pos, data) in m["handles"].items():
        if oc == "O":
            kind = like.get(hid, ("bytes",))[0]
            surv[hid] = ("size", len(data)) if kind == "size" else ("bytes", data)
    return (None if m["closed"] else m["tree"]), surv


def in_known_movedir_class(tree, hist, drv):
    """do the two movedir variants of the model disagree on this history (an open file below the
    source of a movedir onto a new destination, later observed)?"""
    a, b = [parse_reply(x) for x in drv.batch([request("rename", tree, hist), request("copy", tree, hist)])]
    return first_diff((a["trace"], model_fin(a, {})), (b["trace"], model_fin(b, {}))) is not None


def judge(rep, drv, kind, tree, hist, real, m, what):
    """compare one executed history with the model; classify a disagreement with the oracle"""
    rep.evaluations += len(hist)
    d = first_diff(real, (m["trace"], model_fin(m, real[1][1])))
    if not m["wf"]:
        d = d or (len(hist), "model tables not well-formed at the end")
    if d is None:
        return True
    rep.disagreements_checked += 1
    orc = oracle_run(tree, hist)
    d_or = first_diff(real, orc)
    case = {"handles_history": hist_json(hist), "backend": kind,
            "tree": [[e[0], e[1]] + ([e[2].decode("latin-1")] if e[0] == "F" else []) for e in tree],
            "impl_trace": real[0], "model_trace": m["trace"], "oracle_trace": orc[0], "what": what}
    if d_or is not None:
        sig = "C01/handles/%s/%s" % (kind, d[1].split(":")[0].split(" ")[0])
        if IMPL[kind] == "copy" and in_known_movedir_class(tree, hist, drv):
            mc = parse_reply(drv.batch([request("copy", tree, hist)])[0])
            if first_diff(real, (mc["trace"], model_fin(mc, real[1][1]))) is None:
                sig = SIG_MOVEDIR
        rep.violation(case, "%s with open handles: history %r from tree %r — backend vs reference: %s; backend vs the POSIX "
                      "contract evaluated directly (real inodes + io.FileIO): %s"
                      % (kind, hist_json(hist), [e[:2] for e in tree], d[1], d_or[1]),
                      found_input=True, signature=sig)
    else:
        rep.violation(case, "correspondence FsModel.Handles vs %s broke on history %r from tree %r — %s; the backend agrees "
                      "with the POSIX contract evaluated directly on this history" % (kind, hist_json(hist), [e[:2] for e in tree], d[1]),
                      found_input=False, signature="C01/handles-model/%s" % kind)
    return False


# ----------------------------------------------------------------------------- generators

FILE_OPS = [("read", None), ("read", 2), ("readline", None), ("readlines",), ("readinto", 3), ("write", b"X"), ("write", b"yz\n"),
            ("write", b""), ("writelines", (b"p\n", b"q")), ("seek", 0, 0), ("seek", 2, 0), ("seek", 9, 0), ("seek", 0, 2),
            ("seek", -1, 1), ("seek", -2, 2), ("tell",), ("truncate", None), ("truncate", 1), ("truncate", 6), ("flush",),
            ("next",), ("close",)]


def gen_history(rng, n_ops, with_close):
    """a mostly-valid history, generated while stepping the oracle (so that paths and handle ids
    refer to what exists); returns (tree, history, oracle trace, oracle end state)"""
    tree = rng.choice(TREES)
    o = PosixOracle()
    hist, tr = [], []
    try:
        o.build(tree)
        for i in range(n_ops):
            open_h = [k for k, f in enumerate(o.handles) if not f.closed]
            files = [e[1] for e in o.snapshot() if e[0] == "F"] if not o.closed else []
            dirs = [e[1] for e in o.snapshot() if e[0] == "D"] if not o.closed else []
            r = rng.random()

            def some_file():
                # prefer files that have an open handle or exist
                return rng.choice(files) if files and rng.random() < 0.75 else rng.choice(FILES)

            if r < 0.17 and len(open_h) < MAX_OPEN and not o.closed:
                op = ("o", some_file(), rng.choice(MODES))
            elif r < 0.64 and o.handles:
                hid = rng.choice(open_h) if open_h and rng.random() < 0.93 else rng.randrange(len(o.handles))
                op = ("f", hid, rng.choice(FILE_OPS))
            else:
                k = rng.random()
                if k < 0.12:
                    op = ("t", ("remove", some_file()))
                elif k < 0.26:
                    op = ("t", ("move", some_file(), rng.choice(FILES), rng.random() < 0.7))
                elif k < 0.36:
                    op = ("t", ("writebytes", some_file(), rng.choice([b"", b"W", b"new-content"])))
                elif k < 0.41:
                    op = ("t", ("appendbytes", some_file(), b"+a"))
                elif k < 0.45:
                    op = ("t", ("create", some_file(), rng.random() < 0.6))
                elif k < 0.53:
                    op = ("t", ("copy", some_file(), rng.choice(FILES), rng.random() < 0.7))
                elif k < 0.63:
                    src = rng.choice(dirs) if dirs and rng.random() < 0.8 else rng.choice(DIRS)
                    dst = rng.choice([x for x in DIRS + ["n"] if x != src and not src.startswith(x + "/")] or ["n"])
                    op = ("t", ("movedir", src, dst, rng.random() < 0.7))
                elif k < 0.69:
                    src = rng.choice(dirs) if dirs and rng.random() < 0.8 else rng.choice(DIRS)
                    dst = rng.choice([x for x in DIRS + ["n"] if x != src] or ["n"])
                    op = ("t", ("copydir", src, dst, rng.random() < 0.7))
                elif k < 0.77:
                    op = ("t", ("removetree", rng.choice(dirs) if dirs and rng.random() < 0.8 else rng.choice(DIRS + [""])))
                elif k < 0.80:
                    op = ("t", ("removedir", rng.choice(DIRS)))
                elif k < 0.85:
                    op = ("t", ("makedir", rng.choice(DIRS), rng.random() < 0.5))
                elif k < 0.88:
                    op = ("t", ("openbin", some_file(), rng.choice(MODES)))
                elif k < 0.90:
                    op = ("t", ("touch", some_file()))
                elif k < 0.95:
                    op = ("t", (rng.choice(["readbytes", "getsize", "exists", "isfile"]), some_file()))
                elif k < 0.98 or not with_close:
                    op = ("t", ("listdir", rng.choice(DIRS + [""])))
                else:
                    op = ("t", ("close",))
            hist.append(op)
            tr.append(o.step(op))
        fin = o.finish()
    finally:
        o.dispose()
    return tree, hist, tr, fin


def gen_session_history(rng, n_items):
    """a history made of filesystem calls and CLOSED sessions (open; calls on that handle; close) — the shape
    `handles_refine_ref` talks about; generated while stepping the oracle"""
    tree = rng.choice(TREES)
    o = PosixOracle()
    hist, tr = [], []
    try:
        o.build(tree)
        for _ in range(n_items):
            files = [e[1] for e in o.snapshot() if e[0] == "F"]
            f = rng.choice(files) if files and rng.random() < 0.75 else rng.choice(FILES)
            if rng.random() < 0.6:
                hid = len(o.handles)
                ops = [("o", f, rng.choice(MODES))]
                ops += [("f", hid, rng.choice(FILE_OPS)) for _ in range(rng.randint(0, 4))]
                ops.append(("f", hid, ("close",)))
            else:
                k = rng.random()
                if k < 0.3:
                    ops = [("t", ("writebytes", f, rng.choice([b"", b"W", b"new-content"])))]
                elif k < 0.5:
                    ops = [("t", ("remove", f))]
                elif k < 0.7:
                    ops = [("t", ("move", f, rng.choice(FILES), True))]
                elif k < 0.8:
                    ops = [("t", ("makedir", rng.choice(DIRS), True))]
                else:
                    ops = [("t", ("readbytes", f))]
            for op in ops:
                hist.append(op)
                tr.append(o.step(op))
        fin = o.finish()
    finally:
        o.dispose()
    return tree, hist, tr, fin


def small_alphabet(n_opens):
    ops = [("o", "f", "r+"), ("o", "f", "a"), ("t", ("remove", "f")), ("t", ("move", "f", "g", True)),
           ("t", ("writebytes", "f", b"Y"))]
    for h in range(n_opens):
        ops += [("f", h, ("write", b"X")), ("f", h, ("read", None)), ("f", h, ("close",))]
    return ops


def small_histories(max_len):
    """all histories of length <= max_len over the tiny alphabet; a file-object call only on a
    handle id some earlier `open` of the history can have returned"""
    out = []

    def rec(prefix, n_opens):
        if prefix:
            out.append(list(prefix))
        if len(prefix) == max_len:
            return
        for op in small_alphabet(n_opens):
            prefix.append(op)
            rec(prefix, n_opens + (1 if op[0] == "o" else 0))
            prefix.pop()
    rec([], 0)
    return out


# the minimal history of the known movedir difference (fs/base.py move_dir copies, MemoryFS re-links)
DIRECTED = [
    ("movedir-new-dst", [("D", "d"), ("F", "d/f", b"in-d")],
     [("o", "d/f", "r+"), ("t", ("movedir", "d", "e", True)), ("f", 0, ("seek", 0, 2)), ("f", 0, ("write", b"!")),
      ("t", ("readbytes", "e/f")), ("f", 0, ("seek", 0, 0)), ("f", 0, ("read", None))]),
    ("unlink-survives", [("F", "f", b"hello")],
     [("o", "f", "r+"), ("t", ("remove", "f")), ("f", 0, ("seek", 5, 0)), ("f", 0, ("write", b"X")),
      ("t", ("writebytes", "f", b"new")), ("f", 0, ("seek", 0, 0)), ("f", 0, ("read", None)), ("t", ("readbytes", "f"))]),
    ("move-follows", [("F", "a", b"aaa"), ("F", "b", b"bbb")],
     [("o", "a", "r+"), ("o", "b", "r+"), ("t", ("move", "a", "b", True)), ("f", 0, ("seek", 0, 2)), ("f", 0, ("write", b"1")),
      ("f", 1, ("seek", 0, 2)), ("f", 1, ("write", b"2")), ("t", ("readbytes", "b")), ("f", 1, ("seek", 0, 0)), ("f", 1, ("read", None))]),
    ("truncate-same-inode", [("F", "w", b"12345"), ("F", "s", b"SRC")],
     [("o", "w", "r+"), ("f", 0, ("seek", 4, 0)), ("t", ("writebytes", "w", b"ab")), ("f", 0, ("write", b"Z")), ("t", ("readbytes", "w")),
      ("t", ("copy", "s", "w", True)), ("f", 0, ("seek", 1, 0)), ("f", 0, ("write", b"q")), ("t", ("readbytes", "w")),
      ("o", "w", "w"), ("f", 0, ("read", None)), ("f", 1, ("write", b"xy")), ("f", 0, ("write", b"Q")), ("t", ("readbytes", "w"))]),
    ("two-appenders", [("F", "u", b"0")],
     [("o", "u", "a"), ("o", "u", "a+"), ("f", 0, ("write", b"1")), ("f", 1, ("write", b"2")), ("f", 0, ("write", b"3")),
      ("f", 1, ("seek", 0, 0)), ("f", 1, ("read", None)), ("t", ("readbytes", "u"))]),
    ("dir-merge-and-removetree", [("D", "d"), ("F", "d/f", b"in-D2"), ("D", "e"), ("F", "e/f", b"old")],
     [("o", "d/f", "r+"), ("o", "e/f", "r+"), ("t", ("movedir", "d", "e", False)), ("f", 0, ("seek", 0, 2)), ("f", 0, ("write", b"S")),
      ("f", 1, ("seek", 0, 2)), ("f", 1, ("write", b"T")), ("t", ("readbytes", "e/f")), ("t", ("removetree", "e")),
      ("f", 1, ("write", b"R")), ("f", 1, ("seek", 0, 0)), ("f", 1, ("read", None)), ("t", ("exists", "e"))]),
    ("fs-closed", [("F", "z", b"zz")],
     [("o", "z", "r+"), ("t", ("close",)), ("f", 0, ("seek", 0, 2)), ("f", 0, ("write", b"W")), ("f", 0, ("seek", 0, 0)),
      ("f", 0, ("read", None)), ("t", ("readbytes", "z")), ("o", "z", "r"), ("f", 0, ("close",))]),
]


# ----------------------------------------------------------------------------- entry points


def check_handles(rep, drv, rng, tier):
    if os.environ.get("VERIF_SKIP_HANDLES"):      # development: measure what the rest of C01 sees without this part
        return 0
    _load_proposed_findings(rep)
    quick = tier == "quick"
    n_hist, n_ops = (160, 20) if quick else (1500, 30)
    rep.rule += ("; HANDLES: whole histories mixing filesystem calls with up to %d simultaneously open file objects (same file twice, "
                 "files removed / moved / overwritten / below a removetree'd or movedir'ed directory while open, filesystem closed "
                 "with handles open) on %s: directed corpus, all histories of length <= %d over {open f r+, open f a, write, read, "
                 "close, remove f, move f g, writebytes f} on MemoryFS, %d random histories x %d calls per backend, session-shaped "
                 "histories with `h.items`; each executed on the backend, on FsModel.Handles (`h.run`) and on the POSIX contract "
                 "evaluated directly (real inodes + io.FileIO), compared per call (result, tell()), on the final tree and on the "
                 "bytes readable through every surviving handle"
                 % (MAX_OPEN, BACKENDS, 4 if quick else 5, n_hist, n_ops))
    rep.assumptions.append("handle histories use unbuffered binary handles (OSFS buffering=0); buffered/text handles, "
                           "MountFS/MultiFS/FTPFS handles are not explored; error classes there are compared by verdict")
    before = rep.evaluations
    n_prog = 0

    # (1) directed corpus, every backend, against THE REFERENCE (movedir = rename)
    batch = []
    for kind in BACKENDS:
        for name, tree, hist in DIRECTED:
            batch.append((kind, tree, hist, "directed/" + name))
    replies = drv.batch([request("rename", t, h) for (_k, t, h, _w) in batch])
    for (kind, tree, hist, what), line in zip(batch, replies):
        real = real_run(kind, tree, hist)
        judge(rep, drv, kind, tree, hist, real, parse_reply(line), what)
        rep.nontrivial("handles", kind, what)
        n_prog += 1

    # (2) exhaustive small scope on MemoryFS
    small = sorted(small_histories(4 if quick else 5), key=len)   # shortest first: minimal replays
    tree0 = [("F", "f", b"ab")]
    replies = drv.batch([request("rename", tree0, h) for h in small])
    for hist, line in zip(small, replies):
        m = parse_reply(line)
        if any(x.startswith("badh") for x in m["trace"]):
            rep.count("handles/small-skipped-no-such-handle")
            continue
        real = real_run("mem", tree0, hist)
        judge(rep, drv, "mem", tree0, hist, real, m, "small-scope")
        rep.nontrivial("handles", "small", repr(hist))
        n_prog += 1
    rep.count("handles/small-scope-histories", len(small))

    # (3) random histories: oracle (generation) == model(rename); every backend == its model variant
    closed_sessions = []
    for kind in BACKENDS:
        runs = [gen_history(rng, n_ops, with_close=True) for _ in range(n_hist)]
        reqs = []
        for tree, hist, _tr, _fin in runs:
            reqs.append(request("rename", tree, hist))
            reqs.append(request(IMPL[kind], tree, hist))
        replies = drv.batch(reqs)
        for j, (tree, hist, otr, ofin) in enumerate(runs):
            m_ref, m_impl = parse_reply(replies[2 * j]), parse_reply(replies[2 * j + 1])
            n_prog += 1
            rep.nontrivial("handles", kind, repr(hist), repr(tree))
            for o in hist:
                rep.count("handles/op/" + (o[1][0] if o[0] == "t" else "open" if o[0] == "o" else "file." + o[2][0]))
            # the reference itself against the contract evaluated directly
            d = first_diff((otr, ofin), (m_ref["trace"], model_fin(m_ref, ofin[1])))
            rep.evaluations += len(hist)
            if d is not None:
                rep.disagreements_checked += 1
                rep.violation({"handles_history": hist_json(hist), "backend": "oracle",
                               "tree": [[e[0], e[1]] + ([e[2].decode("latin-1")] if e[0] == "F" else []) for e in tree],
                               "oracle_trace": otr, "model_trace": m_ref["trace"]},
                              "correspondence FsModel.Handles vs the POSIX contract evaluated directly (real inodes + io.FileIO) broke "
                              "on history %r from tree %r — %s" % (hist_json(hist), [e[:2] for e in tree], d[1]),
                              found_input=False, signature="C01/handles-model/oracle")
            real = real_run(kind, tree, hist)
            # do the two movedir variants differ OBSERVABLY on this history (calls, tree, bytes through handles)?
            if first_diff((m_ref["trace"], model_fin(m_ref, {})), (m_impl["trace"], model_fin(m_impl, {}))) is not None:
                rep.count("handles/known-movedir-class/" + kind)
                # the backend follows the as-coded variant here: the open finding, met in the wild
                if first_diff(real, (m_impl["trace"], model_fin(m_impl, real[1][1]))) is None:
                    f = rep.match_known(SIG_MOVEDIR)
                    if f is not None:
                        rep.known(f)
                        continue
                judge(rep, drv, kind, tree, hist, real, m_ref, "random")
            else:
                judge(rep, drv, kind, tree, hist, real, m_impl, "random")

    # (4) histories made of closed sessions: the compiled statement of `handles_refine_ref` is RUN (`h.items`:
    # runItems and refItems agree, the flat history is `quiescent`), and the backends agree with it
    n_sess = 60 if quick else 600
    for kind in ("mem", "os"):
        runs = [gen_session_history(rng, 8) for _ in range(n_sess)]
        replies = drv.batch([request("rename", t, h) for (t, h, _a, _b) in runs] +
                            ["h.items rename %s %s" % (H.enc_tree(t), " ; ".join(enc_hop(o) for o in h)) for (t, h, _a, _b) in runs])
        for j, (tree, hist, otr, ofin) in enumerate(runs):
            m = parse_reply(replies[j])
            n_prog += 1
            rep.nontrivial("handles", "sessions", kind, repr(hist), repr(tree))
            if replies[len(runs) + j] != "same":
                rep.disagreements_checked += 1
                rep.violation({"handles_history": hist_json(hist), "backend": "oracle", "h_items": replies[len(runs) + j],
                               "tree": [[e[0], e[1]] + ([e[2].decode("latin-1")] if e[0] == "F" else []) for e in tree]},
                              "FsProofs.HandleLaws.handles_refine_ref, executed (h.items), answers %r on the session history %r"
                              % (replies[len(runs) + j], hist_json(hist)), found_input=False, signature="C01/handles-model/items")
            judge(rep, drv, kind, tree, hist, real_run(kind, tree, hist), m, "sessions")
    rep.extra["handles"] = {"histories": n_prog, "calls": rep.evaluations - before,
                            "small_scope": len(small), "backends": BACKENDS}
    rep.programs += n_prog
    return n_prog


def is_mine(case):
    return case.get("case", {}).get("handles_history") is not None


def replay(rep, case):
    _load_proposed_findings(rep)
    c = case["case"]
    hist = hist_from_json(c["handles_history"])
    tree = [tuple([e[0], e[1]] + ([e[2].encode("latin-1")] if e[0] == "F" else [])) for e in c["tree"]]
    kind = c["backend"]
    drv = vlib.Driver()
    try:
        if kind == "oracle":
            real = oracle_run(tree, hist)
        else:
            real = real_run(kind, tree, hist)
        m = parse_reply(drv.batch([request("rename", tree, hist)])[0])
        print("impl :", real[0], real[1])
        print("model:", m["trace"], m["tree"], m["handles"])
        if kind == "oracle":
            d = first_diff(real, (m["trace"], model_fin(m, real[1][1])))
            if d:
                rep.violation(c, "model vs oracle: " + d[1], found_input=False, signature="C01/handles-model/oracle")
        else:
            judge(rep, drv, kind, tree, hist, real, m, "replay")
    finally:
        H.cleanup_scratch()
    return 1 if rep.violations else 0
