"""C04 — read-only filesystems cannot be modified through any call.

Theorems: lean/FsProofs/C04.lean over the GENERATED guard/shape tables (re-proved on every run).

Dynamic side, for every read-only construction and EVERY public method by reflection (dir(obj)),
with arguments synthesised from the signature:

  oracle         the underlying storage (tree, bytes, explicitly set mtimes) is the same before and
                 after the call; a mutating call raises ResourceReadOnly; every object handed back
                 (SubFS, file object, Globber, BoundWalker) is exercised with its own methods and
                 must not change the storage either; handles opened for reading reject
                 write / writelines / truncate.
  correspondence the predictions of the generated table as the compiled Lean model reports them
                 ("raisesReadOnly", "modeGuarded <chars>", "safe") and the model's `RO.step` on
                 reference operations are compared with what the real code does = validation of
                 the extractor and of the wrapper model.
"""
from __future__ import annotations

import datetime
import hashlib
import io
import os
import shutil

import vlib
import fsharness as H
from props import _reflect as R
from props import _stateful as S

EXTRA_PROOF_MODULES = ()
LEANCHECKER_MODULES = ("FsProofs.C04",)

# ----------------------------------------------------------------------------- constructions

BASE_TREE = [("D", "d"), ("D", "d/e"), ("F", "f", b"file-f"), ("F", "d/g", b"file-g"), ("F", "d/e/h", b""),
             ("D", "empty")]
PATHS = {"file": "f", "dir": "d", "missing": "nope", "root": "/", "deep": "d/new/x"}
KINDS = ["ro(mem)", "ro(os)", "ro(sub(mem))", "ro(sub(os))", "ro(mount)", "ro(multi)", "ro(ro(mem))",
         "ro(wrapfs(mem))", "ro(cachedir(mem))", "sub(ro(mem))", "cachedir(ro(mem))", "ro(sub(ro(mem)))",
         "zip-r", "tar-r"]
# outermost fs.wrap.read_only: mutators must raise ResourceReadOnly whatever the arguments
STRICT = {"ro(mem)", "ro(os)", "ro(sub(mem))", "ro(sub(os))", "ro(mount)", "ro(multi)", "ro(ro(mem))",
          "ro(wrapfs(mem))", "ro(cachedir(mem))", "ro(sub(ro(mem)))"}


def random_tree(rng):
    names = ["a", "b", "c", "d.e", "x y"]
    tree, dirs = [], [""]
    for _ in range(rng.randint(2, 7)):
        parent = rng.choice(dirs)
        n = rng.choice(names)
        p = (parent + "/" + n) if parent else n
        if any(e[1] == p for e in tree):
            continue
        if rng.random() < 0.4:
            tree.append(("D", p))
            dirs.append(p)
        else:
            tree.append(("F", p, bytes(rng.randrange(256) for _ in range(rng.randint(0, 9)))))
    return tree


def paths_for(tree):
    files = [e[1] for e in tree if e[0] == "F"]
    dirs = [e[1] for e in tree if e[0] == "D"]
    d = dirs[0] if dirs else "/"
    return {"file": files[0] if files else "nofile", "dir": d, "missing": "zz-missing", "root": "/",
            "deep": (d.rstrip("/") + "/zz-new/x") if d != "/" else "zz-new/x"}


def populate(f, tree, mtimes=True):
    for e in tree:
        if e[0] == "D":
            f.makedirs(e[1], recreate=True)
        else:
            f.writebytes(e[1], e[2])
    if mtimes:
        for i, e in enumerate(tree):
            try:
                f.settimes(e[1], modified=datetime.datetime(2001, 1, 1 + (i % 27), 3, 4, 5, tzinfo=datetime.timezone.utc))
            except Exception:
                pass


class Cons:
    def __init__(self, kind, fs_obj, snap, cleanup=None, tree=None, replica_root=""):
        self.kind, self.fs, self.snap, self._cleanup, self.tree = kind, fs_obj, snap, cleanup, tree
        self.base = None

    def replica(self):
        """a writable MemoryFS holding the same tree (what would the call do if it could write?)"""
        from fs.memoryfs import MemoryFS
        m = MemoryFS()
        populate(m, self.tree)
        return m

    def close(self):
        try:
            self.fs.close()
        except Exception:
            pass
        if self._cleanup:
            self._cleanup()


def _tmp():
    os.makedirs(H.SCRATCH_ROOT, exist_ok=True)
    import tempfile
    return tempfile.mkdtemp(dir=H.SCRATCH_ROOT)


def build(kind, tree):
    from fs.memoryfs import MemoryFS
    from fs.osfs import OSFS
    from fs.wrap import read_only, cache_directory
    from fs.wrapfs import WrapFS
    from fs.mountfs import MountFS
    from fs.multifs import MultiFS

    if kind in ("ro(mem)", "ro(ro(mem))", "ro(wrapfs(mem))", "ro(cachedir(mem))", "sub(ro(mem))", "cachedir(ro(mem))",
                "ro(sub(ro(mem)))"):
        m = MemoryFS()
        if kind in ("sub(ro(mem))", "ro(sub(ro(mem)))"):
            m.makedirs("top/in")
            populate(m.opendir("top/in"), tree)
            m.writebytes("top/canary", b"canary")
            r = read_only(m).opendir("top/in")
            if kind == "ro(sub(ro(mem)))":
                r = read_only(r)
        else:
            populate(m, tree)
            r = {"ro(mem)": lambda: read_only(m), "ro(ro(mem))": lambda: read_only(read_only(m)),
                 "ro(wrapfs(mem))": lambda: read_only(WrapFS(m)), "ro(cachedir(mem))": lambda: read_only(cache_directory(m)),
                 "cachedir(ro(mem))": lambda: cache_directory(read_only(m))}[kind]()
        return Cons(kind, r, lambda: R.snap_fs(m), lambda: m.close(), tree)
    if kind == "ro(os)":
        d = _tmp()
        o = OSFS(d)
        populate(o, tree)
        return Cons(kind, read_only(o), lambda: R.snap_dir(d), lambda: (o.close(), shutil.rmtree(d, ignore_errors=True)), tree)
    if kind == "ro(sub(mem))":
        m = MemoryFS()
        m.makedirs("top/in")
        populate(m.opendir("top/in"), tree)
        m.writebytes("top/canary", b"canary")
        return Cons(kind, read_only(m.opendir("top/in")), lambda: R.snap_fs(m), lambda: m.close(), tree)
    if kind == "ro(sub(os))":
        d = _tmp()
        o = OSFS(d)
        o.makedirs("top/in")
        populate(o.opendir("top/in"), tree)
        o.writebytes("top/canary", b"canary")
        return Cons(kind, read_only(o.opendir("top/in")), lambda: R.snap_dir(d),
                    lambda: (o.close(), shutil.rmtree(d, ignore_errors=True)), tree)
    if kind == "ro(mount)":
        mfs = MountFS()
        a = MemoryFS()
        mfs.mount("/", a)
        populate(mfs, tree)
        return Cons(kind, read_only(mfs), lambda: (R.snap_fs(a), R.snap_fs(mfs.default_fs)),
                    lambda: (mfs.close(), a.close()), tree)
    if kind == "ro(multi)":
        mu = MultiFS()
        w, lo = MemoryFS(), MemoryFS()
        mu.add_fs("lo", lo, priority=1)
        mu.add_fs("w", w, write=True, priority=5)
        populate(mu, tree)
        lo.writebytes("only-lo", b"lo")
        return Cons(kind, read_only(mu), lambda: (R.snap_fs(w), R.snap_fs(lo)), lambda: (mu.close(), w.close(), lo.close()),
                    tree + [("F", "only-lo", b"lo")])
    if kind in ("zip-r", "tar-r"):
        from fs.zipfs import ZipFS
        from fs.tarfs import TarFS
        cls = ZipFS if kind == "zip-r" else TarFS
        d = _tmp()
        path = os.path.join(d, "a.zip" if kind == "zip-r" else "a.tar")
        with cls(path, write=True) as w:
            populate(w, tree, mtimes=False)
        r = cls(path)

        def snap():
            with open(path, "rb") as fh:
                digest = hashlib.sha256(fh.read()).hexdigest()
            return (digest, os.stat(path).st_mtime_ns, R.snap_fs(r))
        return Cons(kind, r, snap, lambda: shutil.rmtree(d, ignore_errors=True), tree)
    raise ValueError(kind)


# wrapper plumbing that hands back the *wrapped* filesystem object itself (documented accessors of
# WrapFS / MultiFS): what a caller does with that object is not a call "through the read-only
# filesystem", so the objects they return are not exercised (stated exclusion, see design.d/C04.md)
UNWRAPPERS = {"delegate_fs", "delegate_path", "get_fs", "iterate_fs"}

# ----------------------------------------------------------------------------- judging


def is_fs(v):
    return hasattr(v, "getinfo") and hasattr(v, "openbin") and hasattr(v, "isclosed")


def is_file(v):
    return hasattr(v, "read") and hasattr(v, "close") and not is_fs(v)


def writing(mode):
    return any(c in mode for c in "wax+")


class Run:
    def __init__(self, rep, table, rng, limit):
        self.rep, self.table, self.rng, self.limit = rep, table, rng, limit
        self.max_viol = 30
        self.seen_sig = set()

    def viol(self, case, note, found, sig):
        if not os.path.exists(os.path.join(H.SCRATCH_ROOT, ".alive")):
            # every OSFS/TempFS/archive of this run lives below the scratch root
            raise vlib.Infra("scratch root %s was removed by another process during the run" % H.SCRATCH_ROOT)
        """one report per signature (class / method / kind of failure)"""
        if sig in self.seen_sig or len(self.rep.violations) >= self.max_viol:
            return
        self.seen_sig.add(sig)
        self.rep.violation(case, note, found_input=found, signature=sig)

    def moved(self, cons):
        """did the underlying storage change since the last look (then re-base)"""
        now = cons.snap()
        if now != cons.base:
            cons.base = now
            return True
        return False

    # -- one call on a read-only filesystem
    def call(self, cons, target, tname, name, kw, base=None, depth=0):
        rep = self.rep
        base = cons.base
        cls = type(target).__name__
        kind = self.table.kind(name)
        rep.evaluations += 1

        def go():
            attr = getattr(target, name)
            if R.is_property(target, name) and not callable(attr):
                return attr
            return R.drain(attr(**R.materialise_kw(kw)))
        out = R.outcome(go)
        after = cons.snap()
        case = {"construction": cons.kind, "tree": tree_json(cons.tree), "target": tname, "method": name, "kwargs": kw,
                "outcome": list(out[:2]) if out[0] == "err" else ["ok", repr(out[1])[:80]]}
        rep.count("%s/%s" % (kind, out[1] if out[0] == "err" else "ok"))
        rep.nontrivial(cons.kind, tname, name, repr(sorted(kw.items(), key=lambda x: x[0])), out[0], out[1] if out[0] == "err" else "")
        changed = after != base
        if changed:
            cons.base = after          # report every change once
            self.viol(case, "%s: %s.%s(%s) changed the underlying storage (%s)" % (cons.kind, tname, name, kw, out[:2]),
                      True, "C04/%s/%s/storage-changed" % (cls, name))
        mode = kw.get("mode", "")
        mutating = kind == "mutator" or (kind == "opener" and writing(mode))
        if mutating and not changed:
            ro = out[0] == "err" and out[1] == "ResourceReadOnly"
            if not ro:
                if cons.kind in STRICT and tname == "fs":
                    self.viol(case, "%s: mutating call %s(%s) did not raise ResourceReadOnly: %s" % (cons.kind, name, kw, out[:2]),
                              True, "C04/%s/%s/no-ResourceReadOnly" % (cls, name))
                elif tname == "fs":
                    # archives / views: ResourceReadOnly is due whenever a writable filesystem
                    # holding the same tree would have been changed by this very call
                    rp = cons.replica()
                    b0 = R.snap_fs(rp)
                    R.outcome(lambda: R.drain(getattr(rp, name)(**R.materialise_kw(kw))))
                    would = R.snap_fs(rp) != b0
                    rp.close()
                    if would:
                        x_only = kind == "opener" and "x" in mode and not any(c in mode for c in "wa+")
                        sig = ("C04/known/archive-open-exclusive-mode" if x_only and cons.kind in ("zip-r", "tar-r")
                               else "C04/%s/%s/no-ResourceReadOnly" % (cls, name))
                        self.viol(case, "%s: %s(%s) would change a writable filesystem but did not raise ResourceReadOnly: %s"
                                  % (cons.kind, name, kw, out[:2]), True, sig)
                    else:
                        rep.count("mutator-noop-or-precondition")
        # table predictions (only for classes the shape table knows)
        if tname == "fs":
            row = self.table.row(cls, name)
            if row is not None and row.get("shape") not in (None, "missing"):
                sh = row["shape"]
                rep.disagreements_checked += 1
                if sh == "raisesReadOnly" and not (out[0] == "err" and out[1] == "ResourceReadOnly"):
                    self.viol(case, "table says %s.%s is `check(); raise ResourceReadOnly`, the call gave %s" % (cls, name, out[:2]),
                              False, "C04/table/%s/%s/raisesReadOnly" % (cls, name))
                if sh.startswith("modeGuarded:"):
                    chars = sh.split(":")[1]
                    if any(c in mode for c in chars) and not (out[0] == "err" and out[1] == "ResourceReadOnly"):
                        self.viol(case, "table says %s.%s rejects modes containing one of %r, mode %r gave %s" % (cls, name, chars, mode, out[:2]),
                                  False, "C04/table/%s/%s/modeGuarded" % (cls, name))
                if row.get("safe") == "1" and changed:
                    self.viol(case, "table says %s.%s is Safe but the storage changed" % (cls, name), False,
                              "C04/table/%s/%s/safe" % (cls, name))
        # objects handed back
        if out[0] == "ok" and depth == 0 and name not in UNWRAPPERS:
            self.returned(cons, name, kw, out[1], base)
        return out

    def returned(self, cons, name, kw, v, base=None):
        rep = self.rep
        vals = v if isinstance(v, (list, tuple)) else [v]
        for x in vals[:3]:
            if is_fs(x) and x is not cons.fs:
                self.view(cons, x, "%s(%s)->%s" % (name, kw.get("path", ""), type(x).__name__), base)
            elif is_file(x):
                self.handle(cons, x, name, kw, base)
            elif type(x).__name__ == "Globber":
                self.globber(cons, x, name, kw, base)
            elif type(x).__name__ == "BoundWalker":
                self.walker(cons, x, base)
        rep.count("returned/" + type(v).__name__)

    def view(self, cons, sub, tname, base=None):
        """a SubFS (or other filesystem) obtained from the read-only filesystem"""
        paths = {"file": "g", "dir": "e", "missing": "zz", "root": "/", "deep": "e/zz/x"}
        for name in R.public_names(sub):
            if name == "close":
                continue
            k = self.table.kind(name)
            if k not in ("mutator", "opener"):
                continue
            try:
                vs = R.arg_variants(sub, name, paths, R.WRITE_MODES[:4], limit=3, rng=None)
            except R.Skip:
                continue
            for kw in vs:
                self.call(cons, sub, tname, name, kw, base, depth=1)
        R.outcome(sub.close)
        if self.moved(cons):
            self.viol({"construction": cons.kind, "target": tname, "method": "close"},
                      "closing the view %s changed the underlying storage" % tname, True, "C04/view/close")

    def handle(self, cons, fh, name, kw, base=None):
        rep = self.rep
        mode = kw.get("mode", "r")
        case = {"construction": cons.kind, "tree": tree_json(cons.tree), "method": name, "kwargs": kw}
        try:
            if not writing(mode):
                data = "x" if ("b" not in mode and name == "open") else b"x"
                for meth, args in (("write", (data,)), ("writelines", ([data],)), ("truncate", (0,)), ("truncate", ()),
                                   ("truncate", (70001,)), ("seek+truncate", ())):
                    rep.evaluations += 1
                    if meth == "seek+truncate":
                        # growing is a modification too: beyond the end, then truncate at the position
                        R.outcome(lambda: fh.seek(70003))
                        o = R.outcome(lambda: fh.truncate())
                        R.outcome(lambda: fh.seek(0))
                    else:
                        o = R.outcome(lambda: getattr(fh, meth)(*args))
                    if o[0] == "ok":
                        self.viol(dict(case, handle_method=meth), "%s: handle from %s(%s) accepted %s%r" % (cons.kind, name, kw, meth, args),
                                  True, "C04/handle/%s/%s" % (type(fh).__name__, meth))
                o = R.outcome(lambda: fh.writable())
                if o[0] == "ok" and o[1]:
                    self.viol(dict(case, handle_method="writable"), "%s: read handle claims writable()" % cons.kind, True,
                              "C04/handle/%s/writable" % type(fh).__name__)
            for meth in R.public_names(fh):
                if meth in ("close", "write", "writelines", "truncate", "detach"):
                    continue
                sig = R.signature_of(fh, meth)
                if sig is None or any(p.default is p.empty and p.kind in (p.POSITIONAL_ONLY, p.POSITIONAL_OR_KEYWORD)
                                      for p in sig.parameters.values()):
                    if meth == "seek":
                        R.outcome(lambda: fh.seek(0))
                    continue
                rep.evaluations += 1
                R.outcome(lambda: R.drain(getattr(fh, meth)()))
                if self.moved(cons):
                    sig = ("C04/known/memoryfile-on_modify-read-handle" if meth == "on_modify" and not writing(mode)
                           else "C04/handle/%s/%s/storage-changed" % (type(fh).__name__, meth))
                    self.viol(dict(case, handle_method=meth),
                              "%s: %s() of the handle from %s(%s) changed the underlying storage" % (cons.kind, meth, name, kw),
                              True, sig)
        finally:
            R.outcome(fh.close)
        if self.moved(cons):
            self.viol(case, "%s: using the handle from %s(%s) changed the underlying storage" % (cons.kind, name, kw), True,
                      "C04/handle/%s/storage-changed" % type(fh).__name__)

    def globber(self, cons, g, name, kw, base=None):
        rep = self.rep
        case = {"construction": cons.kind, "tree": tree_json(cons.tree), "method": "glob", "kwargs": kw}
        n = R.outcome(lambda: g.count())
        for meth in R.public_names(g):
            rep.evaluations += 1
            o = R.outcome(lambda: R.drain(getattr(g, meth)()))
            if meth == "remove" and n[0] == "ok" and (n[1].files + n[1].directories) > 0:
                if not (o[0] == "err" and o[1] == "ResourceReadOnly"):
                    self.viol(dict(case, globber_method=meth), "%s: Globber(%s).remove() with matches gave %s" % (cons.kind, kw, o[:2]),
                              True, "C04/globber/remove")
        R.outcome(lambda: list(g))
        if self.moved(cons):
            self.viol(case, "%s: the Globber for %s changed the underlying storage" % (cons.kind, kw), True,
                      "C04/globber/storage-changed")

    def walker(self, cons, w, base=None):
        for meth in R.public_names(w):
            self.rep.evaluations += 1
            R.outcome(lambda: R.drain(getattr(w, meth)()))
        R.outcome(lambda: R.drain(w()))
        if self.moved(cons):
            self.viol({"construction": cons.kind, "method": "walk"}, "%s: the BoundWalker changed the underlying storage" % cons.kind,
                      True, "C04/walker/storage-changed")

    # -- a whole construction
    def construction(self, kind, tree, names=None):
        rep = self.rep
        cons = build(kind, tree)
        try:
            base = cons.base = cons.snap()
            if base is None:
                raise vlib.Infra("cannot snapshot " + kind)
            paths = paths_for(cons.tree)
            fs_obj = cons.fs
            unmapped = []
            for name in R.public_names(fs_obj):
                if names is not None and name not in names:
                    continue
                if name == "close":
                    continue
                k = self.table.kind(name)
                if k == "none":
                    unmapped.append(name)
                try:
                    if k == "opener":     # writing modes (must raise) and reading modes (handles are exercised)
                        vs = (R.arg_variants(fs_obj, name, paths, R.WRITE_MODES, limit=self.limit, rng=self.rng)
                              + R.arg_variants(fs_obj, name, paths, R.READ_MODES, limit=self.limit, rng=self.rng))
                    else:
                        vs = R.arg_variants(fs_obj, name, paths, ["r"], limit=self.limit, rng=self.rng)
                except R.Skip as e:
                    rep.count("unsynthesisable/" + name)
                    if k in ("mutator", "opener", "none"):
                        self.viol({"construction": kind, "method": name}, "cannot synthesise arguments for %s: %s" % (name, e),
                                  False, "C04/reflection/%s" % name)
                    continue
                for kw in vs:
                    self.call(cons, fs_obj, "fs", name, kw, base)
            if unmapped:
                self.viol({"construction": kind, "unclassified": unmapped},
                          "public methods without a classification in FsModel/Guard.lean: %s" % unmapped, False,
                          "C04/reflection/unclassified")
            # close last: the wrapped filesystem must stay as it was
            R.outcome(fs_obj.close)
            if kind not in ("zip-r", "tar-r") and self.moved(cons):
                self.viol({"construction": kind, "method": "close"}, "%s: close() changed the underlying storage" % kind, True,
                          "C04/%s/close/storage-changed" % type(fs_obj).__name__)
            rep.programs += 1
        finally:
            cons.close()


def tree_json(tree):
    return [[e[0], e[1]] + ([e[2].decode("latin-1")] if e[0] == "F" else []) for e in tree]


def tree_unjson(t):
    return [tuple([e[0], e[1]] + ([e[2].encode("latin-1")] if e[0] == "F" else [])) for e in t]


# ----------------------------------------------------------------------------- RO.step correspondence


def ro_step_correspondence(rep, drv, rng, n_hist, n_ops, small):
    """reference operations on read_only(MemoryFS) and on read archives against the model's RO.step"""
    from fs.memoryfs import MemoryFS
    from fs.wrap import read_only

    jobs = []   # (cls, tree, op, impl, post)

    class _St:      # what _stateful.known_class looks at
        def __init__(self, op, pre):
            self.op, self.pre = op, pre

    def one(cls, make, tree, op):
        if S.known_class(_St(op, tree)) is not None:
            return      # an open finding of the *reference* comparison (C01/C05), not of the wrapper
        f, under, cleanup = make(tree)
        try:
            impl = H.apply_op(f, op)
            post = H.snapshot(under)
        finally:
            cleanup()
        jobs.append((cls, tree, op, impl, post))

    def make_ro(tree):
        m = MemoryFS()
        for e in tree:
            (m.makedirs(e[1], recreate=True) if e[0] == "D" else m.writebytes(e[1], e[2]))
        return read_only(m), m, m.close

    def make_zip(tree):
        from fs.zipfs import ZipFS
        buf = io.BytesIO()
        with ZipFS(buf, write=True) as w:
            for e in tree:
                (w.makedirs(e[1], recreate=True) if e[0] == "D" else w.writebytes(e[1], e[2]))
        buf.seek(0)
        r = ZipFS(buf)
        return r, r, r.close

    def make_tar(tree):
        from fs.tarfs import TarFS
        buf = io.BytesIO()
        with TarFS(buf, write=True) as w:
            for e in tree:
                (w.makedirs(e[1], recreate=True) if e[0] == "D" else w.writebytes(e[1], e[2]))
        buf.seek(0)
        r = TarFS(buf)
        return r, r, r.close

    makers = [("WrapReadOnly", make_ro), ("ReadZipFS", make_zip), ("ReadTarFS", make_tar)]
    trees = S.small_trees()
    ops = S.exhaustive_small_ops()
    for cls, mk in makers:
        ts = trees if cls == "WrapReadOnly" else trees[:: (3 if small else 1)]
        step = 7 if (small and cls != "WrapReadOnly") else (3 if small else 1)
        k = 0
        for t in ts:
            for op in ops[k % step:: step]:
                one(cls, mk, t, op)
            k += 1
        for _ in range(n_hist):
            t = sorted(random_tree(rng), key=lambda e: e[1].count("/"))
            t = [e for e in t if all(any(x[0] == "D" and x[1] == "/".join(e[1].split("/")[:i]) for x in t)
                                     for i in range(1, e[1].count("/") + 1))]
            for _ in range(n_ops):
                one(cls, mk, t, H.gen_op(rng, t, H.NAMES))
    reqs = []
    for cls, tree, op, impl, post in jobs:
        a = H.op_request(op, False, H.enc_tree(tree)).split(" ", 3)   # ref.step <closed> <tree> <op…>
        reqs.append("ro.step %s 0 0 %s %s" % (cls, a[2], a[3]))
    replies = drv.batch(reqs)
    seen = set()

    def report(case, note, found, sig):
        if sig in seen or len(rep.violations) >= 30:
            return
        seen.add(sig)
        rep.violation(case, note, found_input=found, signature=sig)

    def replica_changes(tree, op):
        m = MemoryFS()
        for e in tree:
            (m.makedirs(e[1], recreate=True) if e[0] == "D" else m.writebytes(e[1], e[2]))
        b0 = H.snapshot(m)
        H.apply_op(m, op)
        would = H.snapshot(m) != b0
        m.close()
        return would

    for (cls, tree, op, impl, post), line in zip(jobs, replies):
        parts = [p.strip() for p in line.split(" | ")]
        mout, mtree, mut = parts[0], parts[1], parts[4] == "mut=1"
        rep.evaluations += 1
        rep.disagreements_checked += 1
        rep.nontrivial("ro.step", cls, op, H.enc_tree(tree))
        case = {"class": cls, "pre_tree": tree_json(tree), "op": H.op_json(op), "impl": list(impl[:2]), "model": mout}
        head = "%s %s%r from %r: " % (cls, op[0], op[1:], [e[:2] for e in tree])
        mo = ("ok", mout[3:]) if mout.startswith("ok ") else ("err", mout[4:])
        if mo[0] == "ok" and mo[1].startswith("names:"):
            mo = ("ok", "names:" + vlib.hxlist(sorted(vlib.unhxlist(mo[1][6:]))))
        model_tree = H.canon_tree(H.dec_tree(mtree))
        impl_ro = impl[:2] == ("err", "ResourceReadOnly")
        # ---- the property itself, on the real code
        if post is None or H.canon_tree(post) != H.canon_tree(tree):
            report(case, head + "the read-only filesystem changed: %r" % ([e[:2] for e in (post or [])],), True,
                   "C04/%s/%s/storage-changed" % (cls, op[0]))
        elif mut and not impl_ro:
            if cls == "WrapReadOnly":
                report(case, head + "mutating call gave %s, not ResourceReadOnly" % (impl[:2],), True,
                       "C04/%s/%s/no-ResourceReadOnly" % (cls, op[0]))
            elif replica_changes(tree, op):
                # archives: the inherited default may stop earlier only when the call would not
                # have changed a writable filesystem either
                x_only = op[0] == "openbin" and "x" in op[2] and not any(c in op[2] for c in "wa+")
                report(case, head + "the call would change a writable filesystem, gave %s instead of ResourceReadOnly" % (impl[:2],),
                       True, "C04/known/archive-open-exclusive-mode" if x_only else "C04/%s/%s/no-ResourceReadOnly" % (cls, op[0]))
            else:
                rep.count("archive-mutator-noop-or-precondition")
        # ---- the wrapper model against the real code
        if post is not None and H.canon_tree(post) != model_tree:
            report(case, head + "resulting tree: model %r, code %r" % ([e[:2] for e in model_tree], [e[:2] for e in H.canon_tree(post)]),
                   False, "C04/ro.step/%s/%s/tree" % (cls, op[0]))
        elif mo == ("err", "ResourceReadOnly"):
            if not impl_ro and (cls == "WrapReadOnly" or replica_changes(tree, op)):
                x_only = op[0] == "openbin" and "x" in op[2] and not any(c in op[2] for c in "wa+")
                if not x_only:
                    report(case, head + "model says ResourceReadOnly, code gave %s" % (impl[:2],), False,
                           "C04/ro.step/%s/%s/out" % (cls, op[0]))
        elif cls == "WrapReadOnly" and op[0] != "openbin":      # handle semantics are C16's
            # the model hands the call on to the wrapped filesystem: same verdict / value
            if impl[0] != mo[0]:
                if not (op[0] in ("exists", "isdir", "isfile") and impl[:2] == ("ok", "bool:0")):
                    report(case, head + "verdict: code %s, model %s" % (impl[:2], mo), False, "C04/ro.step/%s/%s/verdict" % (cls, op[0]))
            elif impl[0] == "ok" and impl[1] != mo[1]:
                report(case, head + "value: code %s, model %s" % (impl[1], mo[1]), False, "C04/ro.step/%s/%s/value" % (cls, op[0]))
    return len(jobs)


# ----------------------------------------------------------------------------- entry points


def library_functions_on_composites(rep):
    """fs.move / fs.copy / fs.mirror functions applied to a composite that CONTAINS a read-only
    filesystem (MountFS / MultiFS member, SubFS of a read_only): the wrapped data must not change"""
    import shutil
    import fs.copy as C
    import fs.mirror as MI
    import fs.move as M
    from fs.memoryfs import MemoryFS
    from fs.mountfs import MountFS
    from fs.multifs import MultiFS
    from fs.osfs import OSFS
    from fs.wrap import read_only

    def snap_os(d):
        out = {}
        for root, dirs, files in os.walk(d):
            for f in files:
                p = os.path.join(root, f)
                out[os.path.relpath(p, d)] = open(p, "rb").read()
            for dd in dirs:
                out[os.path.relpath(os.path.join(root, dd), d) + "/"] = None
        return out

    for under in ("os", "mem"):
        for comp in ("mount", "multi", "sub"):
            for fn in ("move_file", "move_dir", "move_fs", "copy_file-into", "mirror-into"):
                base = H._tmpdir()
                try:
                    if under == "os":
                        inner = OSFS(base)
                    else:
                        inner = MemoryFS()
                    inner.makedirs("d/e", recreate=True)
                    inner.writebytes("f", b"keep-f")
                    inner.writebytes("d/g", b"keep-g")
                    ro = read_only(inner)
                    if comp == "mount":
                        c = MountFS()
                        c.mount("ro", ro)
                        pre = "ro/"
                    elif comp == "multi":
                        c = MultiFS()
                        c.add_fs("ro", ro)
                        pre = ""
                    else:
                        c = ro.opendir("/")
                        pre = ""
                    other_dir = H._tmpdir()
                    other = OSFS(other_dir) if under == "os" else MemoryFS()
                    other.writebytes("x", b"other")
                    before = snap_os(base) if under == "os" else H.snapshot(inner)

                    def go():
                        if fn == "move_file":
                            M.move_file(c, pre + "f", other, "f")
                        elif fn == "move_dir":
                            M.move_dir(c, pre + "d", other, "d")
                        elif fn == "move_fs":
                            M.move_fs(c, other)
                        elif fn == "copy_file-into":
                            C.copy_file(other, "x", c, pre + "f")
                        else:
                            MI.mirror(other, c if pre == "" else c.opendir("ro"))
                    o = R.outcome(go)
                    after = snap_os(base) if under == "os" else H.snapshot(inner)
                    rep.evaluations += 1
                    rep.nontrivial("libfn", under, comp, fn)
                    if after != before:
                        rep.violation({"construction": "%s(read_only(%s))" % (comp, under), "function": fn, "outcome": list(o[:2])},
                                      "fs.%s on %s containing read_only(%s): the wrapped filesystem changed (%s)" % (
                                          fn, {"mount": "a MountFS", "multi": "a MultiFS", "sub": "a SubFS view"}[comp],
                                          "OSFS" if under == "os" else "MemoryFS", o[:2]),
                                      found_input=True,
                                      signature=("C04/known/move-via-syspath-bypasses-read-only" if (under == "os" and fn.startswith("move"))
                                                 else "C04/libfn/%s/%s" % (comp, fn)))
                    for x in (c, other, inner):
                        try:
                            x.close()
                        except Exception:
                            pass
                    H.rm_rf(other_dir)
                finally:
                    H.rm_rf(base)


def run(rep, tier, seed, deep=False):
    drv = vlib.Driver()
    rng = vlib.rng_for(seed, "c04")
    quick = tier == "quick"
    table = R.Table(drv)
    limit = 6 if quick else 20
    if deep:
        limit *= 3
    n_random = 1 if quick else 10
    if deep:
        n_random *= 3
    rep.rule = ("every construction in %s x every public name of dir(obj) x up to %d argument combinations synthesised from "
                "the signature (paths: existing file/dir, missing, root, below-missing; write modes; bytes/text/file objects), on "
                "a fixed tree and %d random trees; after every call the underlying storage (tree, bytes, explicitly set mtimes; "
                "archive bytes) is compared with the snapshot taken before; returned SubFS/file/Globber/BoundWalker objects are "
                "exercised too; generated-table predictions and RO.step (all ops over small trees + random) compared with the real code"
                % (KINDS, limit, n_random))
    rep.assumptions = [
        "passive methods (queries/helpers) of the wrapped filesystem do not change it (C01/C10's business)",
        "zipfile/tarfile handles opened with mode 'r' cannot write (Python stdlib)",
        "OSFS handles are Python io objects: their mode discipline is trusted, only validated here",
        "for an inherited base-class default on an archive the model's outcome is the nominal ResourceReadOnly; the real "
        "default may stop earlier (other fs.errors class / no-op result) when the call would not have changed a writable "
        "filesystem either - decided by running the same call on a writable MemoryFS replica",
    ]
    os.makedirs(H.SCRATCH_ROOT, exist_ok=True)
    with open(os.path.join(H.SCRATCH_ROOT, ".alive"), "w") as fh:
        fh.write("c04\n")
    try:
        runner = Run(rep, table, rng, limit)
        for kind in KINDS:
            runner.construction(kind, list(BASE_TREE))
            for _ in range(n_random):
                t = random_tree(rng)
                t = [e for e in t if e[0] == "D"] + [e for e in t if e[0] == "F"]
                runner.construction(kind, t)
        library_functions_on_composites(rep)
        n = ro_step_correspondence(rep, drv, rng, 6 if quick else 150, 12, small=quick)
        rep.extra["ro_step_cases"] = n
        rep.extra["table_rows"] = len(table.rows)
        rep.sample({"construction": "ro(mem)", "method": "copydir", "kwargs": {"src_path": "d", "dst_path": "nope", "create": True}})
        rep.sample({"construction": "zip-r", "method": "openbin", "kwargs": {"path": "f", "mode": "x"}})
    finally:
        H.cleanup_scratch()


def replay(rep, case):
    c = case["case"]
    rep.tier = "replay"            # do not overwrite the replay file being replayed
    os.makedirs(H.SCRATCH_ROOT, exist_ok=True)
    open(os.path.join(H.SCRATCH_ROOT, ".alive"), "w").close()
    drv = vlib.Driver()
    if "construction" in c and "method" in c and "kwargs" in c:
        table = R.Table(drv)
        runner = Run(rep, table, vlib.rng_for(0, "replay"), 4)
        cons = build(c["construction"], tree_unjson(c.get("tree") or tree_json(BASE_TREE)))
        try:
            base = cons.base = cons.snap()
            target, tname = cons.fs, c.get("target", "fs")
            if tname.startswith("opendir(") and "->" in tname:
                target = cons.fs.opendir(tname[len("opendir("):tname.index(")->")])
            else:
                tname = "fs"
            out = runner.call(cons, target, tname, c["method"], c["kwargs"], depth=0 if tname == "fs" else 1)
            print("outcome:", out[:2], "storage changed:", cons.snap() != base)
        finally:
            cons.close()
            H.cleanup_scratch()
    elif "op" in c:
        print("replay of an RO.step case: class %s op %s (re-run ./check C04 for the comparison)" % (c.get("class"), c.get("op")))
        return 1
    else:
        print("nothing to re-execute in this replay (it names a theorem / table row):", c)
        return 1
    return 1 if rep.violations else 0
