"""C16 — file objects from every filesystem behave like Python io files.

Theorems: lean/FsProofs/C16.lean (MemFile refines IoRef outside the recorded deviation classes,
mode flags, the corollaries named by the property).

Correspondence, per (mode, initial content, call sequence):
  (i)   IoRef (Lean)          == real io.FileIO on a temp file (buffering=0)     -- validates the reference
        Bio (Lean)            == real io.BytesIO                                  -- validates the BytesIO model
  (ii)  MemFile (Lean)        == MemoryFS.openbin file object                     -- validates the transcription
  (iii) every backend         == io.FileIO (the property's oracle, evaluated directly):
        MemoryFS, OSFS (buffering=0), RawWrapper over both, zip/tar members (mode r);
        OSFS with default buffering == Python's own buffered open() of the same mode.
A backend that differs from io.FileIO is a failing input of the property unless the session is
admitted by the reference with its documented tolerance (`IoRef.admits`: only readline(0) on a
closed/unreadable handle and writelines([]) on a read-only handle may be rejected instead — the
calls are identified by the Lean model through `file.dev` — and nothing else may differ).  Open
findings, if any, come only from known_findings.json through `rep.match_known`.
"""
from __future__ import annotations

import io
import itertools
import json
import os
import shutil
import sys
import tempfile

import vlib
from vlib import hx

SCRATCH_ROOT = os.environ.get("VERIF_SCRATCH", "/tmp/verif-scratch")
MODES = ["r", "r+", "w", "w+", "a", "a+", "x", "x+"]
INITS = [b"", b"a", b"0123", b"ab\ncd\n\nef"]
TOLERATED = {"readline_zero", "writelines_empty_readonly"}
MAXVIOL = 6
LEANCHECKER_MODULES = ["FsProofs.C16"]
# Mode predicates regenerated from fs/mode.py by harness/extract/modegen.py, proved equal to File.Mode.* / Ref.parseBinMode
EXTRA_PROOF_MODULES = ("FsProofs.ModeGenEq",)
MODEGEN_STATUS = os.path.join(vlib.LEAN, "FsModel", "Generated", "ModeGen.status.json")

# ----------------------------------------------------------------------------- ops


def sizes(L):
    out = []
    for v in (-1, 0, 1, 2, L - 1, L, L + 1):
        if v >= -1 and v not in out:
            out.append(v)
    return out


def alphabet(L):
    S = sizes(L)
    ops = []
    ops += [("read", n) for n in [None] + S]
    ops += [("readall",)]
    ops += [("readline", n) for n in [None] + S]
    ops += [("readlines",)]
    ops += [("readinto", k) for k in sorted(set([0, 1, 2, L + 1]))]
    ops += [("write", d) for d in (b"", b"X", b"yz\n")]
    ops += [("writelines", ls) for ls in ((), (b"p\n", b"q"), (b"",))]
    ops += [("seek", o, w) for o in S for w in (0, 1, 2)]
    ops += [("tell",)]
    ops += [("truncate", n) for n in [None] + S]
    ops += [("flush",), ("close",), ("next",), ("iter",)]
    return ops


def compact_alphabet(L):
    """one or two representatives per call (used for the exhaustive length-3 enumeration)"""
    return [("read", None), ("read", 1), ("readall",), ("readline", None), ("readline", 1), ("readlines",),
            ("readinto", 2), ("write", b"X"), ("write", b""), ("writelines", (b"p\n", b"q")), ("writelines", ()),
            ("seek", 0, 0), ("seek", 1, 0), ("seek", L + 1, 0), ("seek", -1, 1), ("seek", -1, 2), ("seek", 0, 2),
            ("tell",), ("truncate", None), ("truncate", 0), ("truncate", L + 1), ("truncate", -1),
            ("flush",), ("close",), ("next",), ("iter",)]


def tok(op):
    k = op[0]
    if k in ("read", "readline", "truncate"):
        return "%s:%s" % (k, "N" if op[1] is None else op[1])
    if k == "readinto":
        return "readinto:%d" % op[1]
    if k == "write":
        return "write:" + hx(op[1])
    if k == "writelines":
        return "writelines:" + ",".join(hx(x) for x in op[1])
    if k == "seek":
        return "seek:%d:%d" % (op[1], op[2])
    return k


def enc_init(init):
    return "N" if init is None else hx(init)


def requests(mode, init, ops):
    body = "%s %s %s" % (hx(mode), enc_init(init), " ".join(tok(o) for o in ops))
    return ["file.run ioref " + body, "file.run memfile " + body, "file.dev " + body]


# ----------------------------------------------------------------------------- executing on real objects


def family(e, f):
    if isinstance(e, StopIteration):
        return "Estop"
    if isinstance(e, io.UnsupportedOperation):
        return "Enotpermitted"
    if isinstance(e, ValueError):
        return "Eclosed" if "closed" in str(e) else "Einvalid"
    if isinstance(e, OSError):
        import errno

        if e.errno == errno.EINVAL:
            return "Einvalid"
        return "Enotpermitted"
    return "Leak:" + type(e).__name__


def call(f, op):
    k = op[0]
    if k == "read":
        return "b" + hx(f.read(op[1]))
    if k == "readall":
        return "b" + hx(f.readall() if hasattr(f, "readall") else f.read())
    if k == "readline":
        return "b" + hx(f.readline(op[1]))
    if k == "readlines":
        return "L" + ",".join(hx(x) for x in f.readlines())
    if k == "readinto":
        buf = bytearray(op[1])
        n = f.readinto(buf)
        return "b" + hx(bytes(buf[:n]))
    if k == "write":
        return "n%d" % f.write(op[1])
    if k == "writelines":
        f.writelines(list(op[1]))
        return "N"
    if k == "seek":
        return "n%d" % f.seek(op[1], op[2])
    if k == "tell":
        return "n%d" % f.tell()
    if k == "truncate":
        return "n%d" % f.truncate(op[1])
    if k == "flush":
        f.flush()
        return "N"
    if k == "close":
        f.close()
        return "N"
    if k == "next":
        return "b" + hx(next(f))
    if k == "iter":
        return "L" + ",".join(hx(x) for x in list(f))
    raise AssertionError(op)


def exec_ops(f, ops):
    tr = []
    for op in ops:
        try:
            out = call(f, op)
        except BaseException as e:  # noqa
            if isinstance(e, (KeyboardInterrupt, SystemExit)):
                raise
            out = family(e, f)
        if f.closed:
            t = "-"
        else:
            try:
                t = str(f.tell())
            except Exception as e:  # noqa
                t = "!" + type(e).__name__
        tr.append(out + "@" + t)
    return tr


def open_err(e):
    import fs.errors as E

    if isinstance(e, (FileNotFoundError, E.ResourceNotFound)):
        return "err ResourceNotFound"
    if isinstance(e, (FileExistsError, E.FileExists)):
        return "err FileExists"
    if type(e) is ValueError:
        return "err ValueError"
    return "err Leak:" + type(e).__name__


def render(tr, final):
    return "ok %s | %s" % (";".join(tr) if tr else ".", hx(final))


class Targets:
    """the real file objects; one scratch directory, file `f` recreated for every session"""

    def __init__(self):
        os.makedirs(SCRATCH_ROOT, exist_ok=True)
        self.dir = tempfile.mkdtemp(dir=SCRATCH_ROOT, prefix="c16-")
        self.path = os.path.join(self.dir, "f")
        from fs.osfs import OSFS

        self.osfs = OSFS(self.dir)
        self._arch = {}
        self.lost = 0  # times the scratch directory vanished under us (concurrent cleanup)

    def close(self):
        try:
            self.osfs.close()
        except Exception:
            pass
        shutil.rmtree(self.dir, ignore_errors=True)

    def _prep(self, init):
        try:
            os.unlink(self.path)
        except FileNotFoundError:
            pass
        if init is not None:
            try:
                fh = open(self.path, "wb")
            except FileNotFoundError:
                # the shared scratch root was cleaned by a concurrent check: recreate our directory
                self.lost += 1
                os.makedirs(self.dir, exist_ok=True)
                fh = open(self.path, "wb")
            with fh:
                fh.write(init)
        elif not os.path.isdir(self.dir):
            self.lost += 1
            os.makedirs(self.dir, exist_ok=True)

    def _final(self):
        with open(self.path, "rb") as fh:
            return fh.read()

    def _session(self, opener, ops, final):
        try:
            f = opener()
        except Exception as e:  # noqa
            return open_err(e)
        try:
            tr = exec_ops(f, ops)
        finally:
            try:
                f.close()
            except Exception:
                pass
        return render(tr, final())

    def run(self, target, mode, init, ops):
        from fs.iotools import RawWrapper

        if target in ("fileio", "pybuf", "os0", "osbuf", "rw-os0"):
            self._prep(init)
            if target == "fileio":
                op = lambda: open(self.path, mode + "b", buffering=0)  # noqa
            elif target == "pybuf":
                op = lambda: open(self.path, mode + "b")  # noqa
            elif target == "os0":
                op = lambda: self.osfs.openbin("f", mode, buffering=0)  # noqa
            elif target == "osbuf":
                op = lambda: self.osfs.openbin("f", mode)  # noqa
            else:
                op = lambda: RawWrapper(self.osfs.openbin("f", mode, buffering=0))  # noqa
            for _attempt in range(3):
                try:
                    res = self._session(op, ops, self._final)
                except FileNotFoundError:
                    res = None
                if res is not None and os.path.isdir(self.dir):
                    return res
                self.lost += 1
                self._prep(init)
            raise vlib.Infra("scratch directory %s keeps disappearing (concurrent cleanup of %s?)" % (self.dir, SCRATCH_ROOT))
        if target in ("mem", "rw-mem"):
            from fs.memoryfs import MemoryFS

            m = MemoryFS()
            if init is not None:
                m.writebytes("f", init)
            if target == "mem":
                op = lambda: m.openbin("f", mode)  # noqa
            else:
                op = lambda: RawWrapper(m.openbin("f", mode))  # noqa
            return self._session(op, ops, lambda: m.readbytes("f"))
        if target == "bytesio":
            b = io.BytesIO(init or b"")
            tr = exec_ops(b, [o for o in ops if o[0] != "close"])
            return render(tr, b.getvalue())
        if target in ("zip-r", "tar-r"):
            a = self._archive(target, init)
            return self._session(lambda: a.openbin("f", mode), ops, lambda: a.readbytes("f"))
        raise AssertionError(target)

    def _archive(self, target, init):
        key = (target, init)
        if key not in self._arch:
            from fs.tarfs import TarFS
            from fs.zipfs import ZipFS

            cls = ZipFS if target == "zip-r" else TarFS
            buf = io.BytesIO()
            w = cls(buf, write=True)
            w.writebytes("f", init)
            w.close()
            buf.seek(0)
            self._arch[key] = cls(buf)
        return self._arch[key]


# ----------------------------------------------------------------------------- judging


def parse(line):
    """-> (trace list, final) or (None, err)"""
    if line.startswith("err "):
        return None, line
    body, final = line[3:].split(" | ")
    return ([] if body == "." else body.split(";")), final


def first_diff(a, b):
    """index of the first call whose observation differs; len(ops) = only the final bytes differ"""
    ta, fa = parse(a)
    tb, fb = parse(b)
    if ta is None or tb is None:
        return -1
    for i, (x, y) in enumerate(zip(ta, tb)):
        if x != y:
            return i
    return len(ta)


KIND = {"mem": "MemoryFS", "rw-mem": "MemoryFS", "os0": "OSFS", "osbuf": "OSFS", "rw-os0": "OSFS",
        "zip-r": "ZipFS", "tar-r": "TarFS"}


def case_of(target, mode, init, ops, **kw):
    c = {"target": target, "mode": mode, "init": None if init is None else init.decode("latin-1"),
         "ops": [[x.decode("latin-1") if isinstance(x, bytes) else
                  ([y.decode("latin-1") for y in x] if isinstance(x, tuple) else x) for x in o] for o in ops]}
    c.update(kw)
    return c


def ops_from_case(c):
    out = []
    for o in c["ops"]:
        if o[0] == "write":
            out.append(("write", o[1].encode("latin-1")))
        elif o[0] == "writelines":
            out.append(("writelines", tuple(y.encode("latin-1") for y in o[1])))
        else:
            out.append(tuple(o))
    return out


REJECTION = {"readline_zero": ("Eclosed", "Enotpermitted"), "writelines_empty_readonly": ("Enotpermitted",)}


def admitted(impl, ref, devs):
    """`IoRef.admits` of the Lean model, evaluated on the real traces: every call returns what
    io.FileIO returns or — only where the Lean model says the call is one of the two tolerated
    vacuous calls (`file.dev`) — the allowed rejection; tell() after every call and the final bytes
    are io.FileIO's.  Returns the index of the first call that is not admitted (len = final bytes),
    or None when the session is admitted."""
    ti, fi = parse(impl)
    tr, fr = parse(ref)
    if ti is None or tr is None:
        return None if impl == ref else -1
    if len(ti) != len(tr) or len(devs) != len(tr):
        return 0
    for k, (x, y) in enumerate(zip(ti, tr)):
        if x == y:
            continue
        xo, xt = x.split("@")
        yo, yt = y.split("@")
        if devs[k] in TOLERATED and xo in REJECTION[devs[k]] and xt == yt and not yo.startswith("E"):
            continue
        return k
    return None if fi == fr else len(ti)


def judge_backend(rep, target, mode, init, ops, impl, ref, devs, note_ref="io.FileIO"):
    """impl differs from the oracle `ref`: inside the documented tolerance, or a violation"""
    rep.disagreements_checked += 1
    if KIND[target] == "MemoryFS":
        i = admitted(impl, ref, devs)
        if i is None:
            for d in set(devs) & TOLERATED:
                rep.count("tolerated:" + d)
            return
    else:
        i = first_diff(impl, ref)
    sig = "C16/%s/%s/%s" % (KIND[target], mode, tok(ops[i]).split(":")[0] if 0 <= i < len(ops) else "final-bytes")
    if rep.match_known(sig) is None and len(rep.violations) >= MAXVIOL:
        return
    rep.violation(
        case_of(target, mode, init, ops, impl=impl, oracle=ref, first_diff=i,
                tolerated_calls=[k for k, d in enumerate(devs) if d != "-"]),
        "%s file object, mode %r on %r, calls %s: got %s, %s gives %s"
        % (target, mode, init, [tok(o) for o in ops], impl, note_ref, ref),
        found_input=True, signature=sig)


def check_session(rep, T, targets, mode, init, ops, replies, stats=True):
    ioref, memfile, dev = replies
    ref = T.run("fileio", mode, init, ops)
    rep.evaluations += 1
    devs = dev[3:].split(";") if dev.startswith("ok ") and dev != "ok " else []
    if stats:
        tr, _ = parse(ioref)
        if tr is not None and any(not x.startswith("E") for x in tr):
            rep.nontrivial(mode, init, tuple(ops))
        for o, x in zip(ops, tr or []):
            rep.count("%s:%s" % (o[0], x.split("@")[0] if x.startswith("E") else "ok"))
    # (i) the reference model is io.FileIO
    if ioref != ref:
        if len(rep.violations) < MAXVIOL:
            rep.violation(case_of("fileio", mode, init, ops, model=ioref, impl=ref),
                          "reference model IoRef disagrees with real io.FileIO, mode %r on %r, calls %s: model %s, io.FileIO %s"
                          % (mode, init, [tok(o) for o in ops], ioref, ref),
                          found_input=False, signature="C16/IoRef/correspondence")
        return
    for target in targets:
        if target in ("zip-r", "tar-r") and (mode != "r" or init is None):
            continue
        impl = T.run(target, mode, init, ops)
        rep.evaluations += 1
        oracle, oname = ref, "io.FileIO"
        if target == "osbuf":
            oracle, oname = T.run("pybuf", mode, init, ops), "Python's buffered open()"
            if impl == oracle and impl != ref:
                rep.count("buffered-layer-differs-from-raw")
        if target == "mem" and impl != memfile:
            # (ii) the transcription broke: is the code still like io.FileIO here?
            rep.disagreements_checked += 1
            if impl != ref and admitted(impl, ref, devs) is not None:
                judge_backend(rep, target, mode, init, ops, impl, ref, devs)
            elif len(rep.violations) < MAXVIOL:
                rep.violation(case_of(target, mode, init, ops, model=memfile, impl=impl, oracle=ref),
                              "model MemFile disagrees with MemoryFS file object, mode %r on %r, calls %s: model %s, code %s "
                              "(io.FileIO: %s)" % (mode, init, [tok(o) for o in ops], memfile, impl, ref),
                              found_input=False, signature="C16/MemFile/correspondence")
            continue
        if impl != oracle and target in ("zip-r", "tar-r"):
            # archive members are read-only compressed streams: seeking outside [0, size] is
            # documented as unsupported (_ZipExtFile.seek docstring; tarfile clamps), and what a
            # closed member handle answers is zipfile/tarfile's business — compare the calls before
            # the first such seek / close only, errors of the write calls by "rejected" only
            L = len(init)
            rt, _ = parse(oracle)
            it, _ = parse(impl)
            cut = next((k for k, (o, x) in enumerate(zip(ops, rt))
                        if o[0] == "close" or
                        (o[0] == "seek" and (x.startswith("E") or int(x.split("@")[1]) > L))), len(ops))

            def norm(tr):
                return [("E@" + x.split("@")[1]) if x.startswith("E") and o[0] in ("write", "writelines", "truncate") else x
                        for o, x in zip(ops, tr)][:cut]
            if it is not None and norm(it) == norm(rt):
                rep.count("archive:compared-prefix-only")
                continue
        if impl != oracle:
            judge_backend(rep, target, mode, init, ops, impl, oracle, devs, oname)


# ----------------------------------------------------------------------------- generators


def inits_for(mode):
    if "x" in mode:
        return [None, b"0123"]
    return INITS + [None]


def exhaustive(maxlen_full, compact_len):
    for mode in MODES:
        for init in inits_for(mode):
            L = len(init or b"")
            A = alphabet(L)
            for n in range(0, maxlen_full + 1):
                for seq in itertools.product(A, repeat=n):
                    yield mode, init, seq
            if compact_len > maxlen_full:
                C = compact_alphabet(L)
                for n in range(maxlen_full + 1, compact_len + 1):
                    for seq in itertools.product(C, repeat=n):
                        yield mode, init, seq


def sampled(rng, count, length):
    for _ in range(count):
        mode = rng.choice(MODES)
        init = rng.choice(inits_for(mode))
        A = alphabet(len(init or b""))
        yield mode, init, tuple(rng.choice(A) for _ in range(length))


def random_long(rng, count, length=20):
    for _ in range(count):
        mode = rng.choice(MODES)
        init = rng.choice([None] if "x" in mode else INITS)
        L = len(init or b"")
        A = alphabet(L + 3)
        heavy = [o for o in A if o[0] in ("write", "seek", "truncate", "read", "readline", "writelines")]
        light = [o for o in A if o[0] not in ("close",)]
        seq = []
        for i in range(length):
            r = rng.random()
            if r < 0.02:
                seq.append(("close",))
            elif r < 0.7:
                seq.append(rng.choice(heavy))
            else:
                seq.append(rng.choice(light))
        yield mode, init, tuple(seq)


REGRESSIONS = [
    # (mode, init, ops) — the repaired defects must stay repaired (any of them returning is a violation):
    # 4a1749f closed handle, c173fc2 negative relative seek, d2dd72d truncate() past EOF, dee803f iteration
    ("r+", b"0123", (("close",), ("read", None))),
    ("r+", b"0123", (("close",), ("write", b"X"))),
    ("w", b"", (("close",), ("tell",), ("flush",), ("seek", 0, 0), ("truncate", 0))),
    ("r+", b"0123", (("seek", -1, 1),)),
    ("r", b"0123", (("seek", -9, 2), ("tell",))),
    ("r+", b"0123", (("seek", 10, 0), ("truncate", None))),
    ("w", b"0123", (("seek", 10, 0), ("truncate", None))),
    ("r", b"a\nb", (("iter",), ("read", None))),
    ("a", b"a\nb", (("seek", 0, 0), ("next",))),
    ("a", b"a\nb", (("seek", 0, 0), ("iter",))),
    # 5781f51
    ("r+", b"0123", (("seek", 2, 0), ("truncate", 8), ("tell",))),
    ("a", b"0123", (("seek", 0, 0), ("write", b"X"))),
    ("r", b"0123", (("truncate", 0),)),
    ("r", b"0123", (("writelines", (b"X",)),)),
    # c4647cd (zero-length append write) and the two tolerances
    ("a+", b"0123", (("seek", 0, 0), ("write", b""), ("read", None))),
    ("w", b"", (("readline", 0),)),
    ("r", b"", (("writelines", ()),)),
]


# ----------------------------------------------------------------------------- run


def run_batch(rep, drv, T, targets, sessions):
    CH = 4000
    for i in range(0, len(sessions), CH):
        chunk = sessions[i:i + CH]
        reqs = []
        for (mode, init, ops) in chunk:
            reqs += requests(mode, init, ops)
        replies = drv.batch(reqs)
        for k, (mode, init, ops) in enumerate(chunk):
            check_session(rep, T, targets, mode, init, list(ops), replies[3 * k:3 * k + 3])
        rep.programs += len(chunk)


TARGETS = ["mem", "os0", "osbuf", "rw-mem", "rw-os0", "zip-r", "tar-r"]


def session_stream(tier, seed, deep):
    """all sessions of a run, in a fixed order (regenerated identically in every worker)"""
    quick = tier == "quick"
    n3, nlong = (20000, 1500) if quick else (250000, 20000)
    if deep:
        n3, nlong = n3 * 2, nlong * 3
    rng = vlib.rng_for(seed, "c16")
    for (m, i, o) in REGRESSIONS:
        yield m, i, tuple(o)
    for s in exhaustive(1 if quick else 2, 1 if quick else 3):
        yield s
    if quick:
        for s in sampled(rng, n3 // 4, 2):
            yield s
    for s in sampled(rng, n3, 3):
        yield s
    for s in random_long(rng, nlong):
        yield s


class Collect(object):
    """what a worker process gathers; merged into the Report by the parent"""

    def __init__(self, prop_id, open_findings):
        self.prop_id = prop_id
        self.open_findings = open_findings
        self.evaluations = self.programs = self.disagreements_checked = 0
        self.distinct = set()
        self.histogram = {}
        self.violations = []
        self.calls = []

    def count(self, key, n=1):
        self.histogram[key] = self.histogram.get(key, 0) + n

    def nontrivial(self, *key):
        import hashlib

        self.distinct.add(hashlib.blake2b(repr(key).encode("utf-8", "surrogatepass"), digest_size=8).digest())

    def match_known(self, signature):
        for f in self.open_findings:
            if f["signature"] == signature:
                return f
        return None

    def violation(self, case, note, found_input=True, signature=None):
        known = signature is not None and self.match_known(signature) is not None
        if known:
            if any(c[3] == signature for c in self.calls):
                return False
        else:
            self.violations.append(signature)
        self.calls.append((case, note, found_input, signature))
        return not known


def _shard(args):
    tier, seed, deep, k, n, prop_id, open_findings = args
    col = Collect(prop_id, open_findings)
    drv = vlib.Driver()
    T = Targets()
    try:
        batch = []
        for idx, sess in enumerate(session_stream(tier, seed, deep)):
            if idx % n == k:
                batch.append(sess)
                if len(batch) >= 4000:
                    run_batch(col, drv, T, TARGETS, batch)
                    batch = []
        run_batch(col, drv, T, TARGETS, batch)
        col.lost = T.lost
    finally:
        T.close()
    return col


def run_sessions(rep, tier, seed, deep):
    workers = int(os.environ.get("VERIF_WORKERS", "1" if tier == "quick" else "8"))
    args = [(tier, seed, deep, k, workers, rep.prop_id, rep.open_findings) for k in range(workers)]
    if workers == 1:
        cols = [_shard(args[0])]
    else:
        import multiprocessing

        with multiprocessing.get_context("fork").Pool(workers) as pool:
            cols = pool.map(_shard, args)
    lost = sum(getattr(c, "lost", 0) for c in cols)
    if lost:
        rep.extra["scratch_dir_recreated"] = lost
        if any(c.violations for c in cols):
            raise vlib.Infra("the scratch directory was removed %d times by a concurrent run while sessions were "
                             "executing; differences seen in this run are not a verdict" % lost)
    for col in cols:
        rep.evaluations += col.evaluations
        rep.programs += col.programs
        rep.disagreements_checked += col.disagreements_checked
        rep.distinct |= col.distinct
        for k, v in col.histogram.items():
            rep.count(k, v)
        for (case, note, found_input, signature) in col.calls:
            if rep.match_known(signature) is not None if signature else False:
                rep.violation(case, note, found_input=found_input, signature=signature)
            elif len(rep.violations) < MAXVIOL:
                rep.violation(case, note, found_input=found_input, signature=signature)
    rep.extra["workers"] = workers


def check_bio(rep, drv, T, rng, count):
    """the BytesIO model against real io.BytesIO"""
    sess = []
    for _ in range(count):
        init = rng.choice(INITS)
        A = [o for o in alphabet(len(init) + 2) if o[0] != "close"]
        sess.append((init, tuple(rng.choice(A) for _ in range(rng.choice([1, 2, 3, 8])))))
    replies = drv.batch(["file.run bio %s %s %s" % (hx("r+"), enc_init(i), " ".join(tok(o) for o in ops)) for i, ops in sess])
    for (init, ops), model in zip(sess, replies):
        impl = T.run("bytesio", "r+", init, list(ops))
        rep.evaluations += 1
        if impl != model and len(rep.violations) < MAXVIOL:
            rep.violation(case_of("bytesio", "r+", init, ops, model=model, impl=impl),
                          "BytesIO model disagrees with real io.BytesIO on %r, calls %s: model %s, real %s"
                          % (init, [tok(o) for o in ops], model, impl),
                          found_input=False, signature="C16/Bio/correspondence")
    rep.programs += len(sess)


def py_observe(T, s):
    """what Python's own open(path, s) does: 'none' when the mode is rejected, else the observed
    bits (readable, writable, appends, truncates, exclusive, creates)"""
    def bit(x):
        return str(int(bool(x)))

    T._prep(None)
    r = w = False
    try:
        f = open(T.path, s)
    except ValueError:
        return "none"
    except FileNotFoundError:
        create = False
    else:
        create = True
        r, w = f.readable(), f.writable()
        f.close()
    T._prep(b"12")
    trunc = app = excl = False
    try:
        f = open(T.path, s)
    except FileExistsError:
        excl = True
    else:
        r, w = f.readable(), f.writable()
        if w:
            f.seek(0)
            f.write("Z" if isinstance(f, io.TextIOBase) else b"Z")
        f.close()
        content = T._final()
        trunc = content in (b"", b"Z")
        app = content == b"12Z"
    return bit(r) + bit(w) + bit(app) + bit(trunc) + bit(excl) + bit(create)


def check_modes(rep, drv, T):
    """mode.flags: Mode (fs/mode.py) and the io.open grammar against the real things"""
    from fs.mode import Mode

    alpha = "rwxab+t"
    strings = [""] + ["".join(t) for n in range(1, 5) for t in itertools.product(alpha, repeat=n)] + ["rU", "r b", "R", "rb+t", "w+bx+"]
    replies = drv.batch(["mode.flags " + hx(s) for s in strings])
    for s, model in zip(strings, replies):
        rep.evaluations += 1
        try:
            m = Mode(s)
            v = 1
        except ValueError:
            m, v = None, 0
        vb = 0
        if m is not None:
            try:
                m.validate_bin()
                vb = 1
            except ValueError:
                pass
        if m is not None:
            bits = "".join(str(int(b)) for b in (m.reading, m.writing, m.appending, m.truncate, m.exclusive, m.create))
            binm = m.to_platform_bin()
        else:
            # properties of an invalid mode are never consulted; the model computes them anyway
            bits = binm = None
        py = py_observe(T, s)
        got = dict(kv.split("=") for kv in model[3:].split(" "))
        bad = []
        if int(got["validate"]) != v or int(got["validate_bin"]) != vb:
            bad.append("validate")
        if m is not None and (got["flags"] != bits or vlib.unhx(got["bin"]) != binm):
            bad.append("flags")
        if got["py"] != py:
            bad.append("py-grammar")
        rep.count("mode:" + ("valid" if v else "invalid"))
        if v:
            rep.nontrivial("mode", s)
        # the property's oracle on modes: a mode Python accepts is accepted with the same flags
        if py != "none" and v:
            want = py[:3] + str(int(py[3] == "1" or py[4] == "1")) + py[4:]
            if bits != want and len(rep.violations) < MAXVIOL:
                rep.violation({"mode": s, "fs.mode": bits, "python": py}, "Mode(%r) flags %s differ from Python's open (%s)" % (s, bits, want),
                              found_input=True, signature="C16/Mode/flags")
        if bad and len(rep.violations) < MAXVIOL:
            rep.violation({"mode": s, "model": model, "impl": {"validate": v, "validate_bin": vb, "flags": bits, "bin": binm, "py": py}},
                          "mode model disagrees with the code on %r (%s): model %s" % (s, ",".join(bad), model),
                          found_input=False, signature="C16/Mode/correspondence")
    rep.programs += len(strings)


def translator_status(rep):
    """what harness/extract/modegen.py did on this run (evidence); one deferred broken obligation per refusal.
    FsProofs/ModeGenEq.lean proves the generated predicates equal to File.Mode.* (what `mode.flags` executes),
    so check_modes below is also the differential validation of the generated definitions."""
    try:
        with open(MODEGEN_STATUS) as fh:
            st = json.load(fh)
    except (OSError, ValueError) as ex:
        rep.extra["modegen"] = {"status": "missing", "error": str(ex)}
        rep.violation({"broken_obligation": "ModeGen.translate(<module>)", "error": str(ex)},
                      "ModeGen.translate(<module>): the translator left no status file (%s)" % ex,
                      found_input=False, signature="C16/ModeGen.translate(<module>)")
        return
    rep.extra["modegen"] = {
        "source": st.get("source"), "class": st.get("class"), "translated": st.get("translated", []),
        "methods_not_translated": st.get("not_translated", []),
        "refused": [r["obligation"] + ": " + r["message"] for r in st.get("refused", [])],
    }
    for r in st.get("refused", []):
        rep.violation({"broken_obligation": r["obligation"], "function": r["function"], "node": r["node"], "message": r["message"]},
                      "%s: the source-to-Lean translator refused (%s); FsProofs.ModeGenEq no longer builds, the mode "
                      "correspondence and the oracle found no failing input" % (r["obligation"], r["message"]),
                      found_input=False, signature="C16/%s" % r["obligation"])


def run(rep, tier, seed, deep=False):
    drv = vlib.Driver()
    quick = tier == "quick"
    translator_status(rep)
    targets = TARGETS
    n3, nlong, nbio = (20000, 1500, 4000) if quick else (250000, 20000, 40000)
    if deep:
        n3, nlong = n3 * 2, nlong * 3
    rep.rule = (
        "sessions = (mode in %s) x (initial content in %r or missing file) x call sequence; exhaustive: all sequences of "
        "length <=%d over the full alphabet (~62 calls: sizes/offsets in {None,-1,0,1,2,len-1,len,len+1}, whence 0/1/2)%s; "
        "sampled: %d length-3 sequences over the full alphabet, %d random length-20 sequences. Every session runs on real "
        "io.FileIO (oracle), MemoryFS, OSFS buffering=0, OSFS buffered (vs Python's buffered open), RawWrapper over both, "
        "zip/tar members (mode r) and on the Lean models IoRef/MemFile; compared: result of each call, tell() after it, "
        "final bytes. distinct = distinct sessions with at least one successful call"
        % (MODES, INITS, 1 if quick else 2, "" if quick else " and length 3 over a 26-call compact alphabet", n3, nlong))
    rep.assumptions = [
        "io.FileIO on a regular Linux file is the reference ('a Python io file opened in that mode'); IoRef restates it and is validated against it on every run",
        "exceptions are compared by family: not-permitted (UnsupportedOperation/OSError), invalid argument (ValueError/OSError EINVAL), closed (ValueError ... closed)",
        "readlines(hint), read(n<-1), whence outside 0..2, non-bytes arguments, two handles on one file, text mode layers (see C02) are not explored",
        "FTPFS file objects (thorough tier only): FTPFile against io.FileIO on a loopback pyftpdlib 1.5.10 server (MLSD and LIST variants), "
        "all call sequences of length <=2 and 12 000 sampled of length 3 over a 25-call alphabet; exact agreement is required except in the "
        "enumerated deviation classes of findings/C16-ftpfs-ftpfile.md (one open finding each, recognised from the first differing call and "
        "the reference state before it); connection errors are infrastructure (retried on a new server)",
        "documented tolerance (either behaviour satisfies the property text): readline(0) on a closed or unreadable handle (io.FileIO returns b'' without touching the file, MemoryFS rejects it); writelines([]) on a read-only handle (io.FileIO accepts the vacuous call, MemoryFS rejects it)",
    ]
    T = Targets()
    try:
        check_modes(rep, drv, T)
        check_bio(rep, drv, T, vlib.rng_for(seed, "c16-bio"), nbio)
        rep.extra["exhaustive_sessions"] = len(REGRESSIONS) + sum(1 for _ in exhaustive(1 if quick else 2, 1 if quick else 3))
        run_sessions(rep, tier, seed, deep)
        if not quick:
            # FTPFile (fs/ftpfs.py) against io.FileIO on a loopback pyftpdlib server, MLSD and LIST variants
            from props import _ftpfile
            _ftpfile.run_ftp(sys.modules[__name__], rep, seed, deep)
            targets = targets + ["ftp", "ftp-nomlsd"]
        rep.extra["targets"] = ["fileio(oracle)", "bytesio"] + targets
        rep.extra["exhaustive"] = True
        for m, i, o in REGRESSIONS[:3]:
            rep.sample({"mode": m, "init": i.decode("latin-1"), "ops": [tok(x) for x in o],
                        "MemoryFS": T.run("mem", m, i, list(o)), "io.FileIO": T.run("fileio", m, i, list(o))})
    finally:
        T.close()


def replay(rep, case):
    vlib.repo_on_path()
    c = case["case"]
    if "ops" not in c:
        print("mode case:", c)
        return 1
    drv = vlib.Driver()
    T = Targets()
    try:
        init = None if c["init"] is None else c["init"].encode("latin-1")
        ops = ops_from_case(c)
        ioref, memfile, dev = drv.batch(requests(c["mode"], init, ops))
        target = c["target"]
        if target in ("ftp", "ftp-nomlsd"):
            from props import _ftpfile
            return _ftpfile.replay(sys.modules[__name__], T, c)
        impl = T.run(target, c["mode"], init, ops)
        ref = T.run("fileio" if target != "osbuf" else "pybuf", c["mode"], init, ops)
        print("calls     :", [tok(o) for o in ops])
        print("%-10s:" % target, impl)
        print("io.FileIO :", ref)
        print("IoRef     :", ioref)
        print("MemFile   :", memfile)
        print("dev class :", dev)
        if target == "bytesio":
            model = drv.batch(["file.run bio %s %s %s" % (hx("r+"), enc_init(init), " ".join(tok(o) for o in ops))])[0]
            print("Bio       :", model)
            return 0 if model == impl else 1
        if target == "fileio":
            return 0 if ioref == impl else 1
        return 0 if impl == ref else 1
    finally:
        T.close()
