"""C10 — all query methods agree with each other in every state.

Theorems: lean/FsProofs/C10.lean (query consistency of Ref in every well-formed state) and
lean/FsProofs/InfoLaws.lean (Permissions / fs.time / Info accessors over FsModel.Info, tied to
the real classes by props/_infomodel.py).  Oracle on the real code (needs no model): after the
steps of random histories every query is evaluated on every directory and file of every
filesystem kind and the equalities of the property are checked directly.
"""
from __future__ import annotations

import io
import itertools
import json

import vlib
import fsharness as H
from props import _stateful as S
from props import _infomodel
from props import _ftp as F
from props import _genstatus

# PermGenEq: `Permissions` regenerated from fs/permissions.py by harness/extract/permgen.py = Fs.Info.Permissions (design.d/GEN2.md)
# InfoGenEq: the accessors of `Info` regenerated from fs/info.py by harness/extract/infogen.py = Fs.Info.Info.* (design.d/GEN2.md, round 4)
EXTRA_PROOF_MODULES = ("FsProofs.InfoLaws", "FsProofs.PermGenEq", "FsProofs.InfoGenEq")

NS_SETS = [(), ("basic",), ("details",), ("basic", "details"), ("details", "access"), ("stat",), ("details", "stat", "lstat", "link", "access")]
STANDARD_NS = ("basic", "details", "access", "link")


def _names(infos):
    return [i.name for i in infos]


def raw_subset(raw, ns):
    d = raw.get(ns)
    if d is None:
        return None
    d = dict(d)
    d.pop("accessed", None)  # reading may legitimately change the access time
    d.pop("_write", None)
    return d


def consistency(f, kind, bad, rep, maxdirs=40):
    """evaluate the property on one filesystem state; append (law, detail) to bad"""
    import fs.path as P
    from fs.enums import ResourceType
    from fs.time import epoch_to_datetime

    stack = ["/"]
    ndirs = 0
    while stack and ndirs < maxdirs:
        d = stack.pop()
        ndirs += 1
        names = f.listdir(d)
        rep.evaluations += 1
        if len(set(names)) != len(names):
            bad.append(("listdir_nodup", "%r: %r" % (d, names)))
        sc = list(f.scandir(d))
        if sorted(_names(sc)) != sorted(names):
            bad.append(("listdir_eq_scandir_names", "%r: listdir %r scandir %r" % (d, sorted(names), sorted(_names(sc)))))
        fd = list(f.filterdir(d))
        if sorted(_names(fd)) != sorted(names):
            bad.append(("filterdir_none_eq_listdir", "%r: %r vs %r" % (d, sorted(_names(fd)), sorted(names))))
        try:
            step = next(iter(f.walk(d, max_depth=1)))
            wn = sorted(_names(step.dirs) + _names(step.files))
            if wn != sorted(names):
                bad.append(("walk_one_level_eq_listdir", "%r: %r vs %r" % (d, wn, sorted(names))))
        except StopIteration:
            bad.append(("walk_one_level_eq_listdir", "%r: walk yields nothing" % d))
        if f.isempty(d) != (not names):
            bad.append(("isempty_iff_listdir_nil", d))
        if not (f.exists(d) and f.isdir(d) and not f.isfile(d)) or f.gettype(d) != ResourceType.directory:
            bad.append(("gettype_isdir_isfile_agree(dir)", d))
        # paging: a page is the corresponding slice of the unpaged listing
        base = _names(f.scandir(d))
        n = len(base)
        for a in range(0, min(n, 3) + 2):
            for b in range(a, min(n, 4) + 2):
                got = _names(f.scandir(d, page=(a, b)))
                if got != base[a:b]:
                    bad.append(("page_is_slice", "%r page=(%d,%d): %r vs %r" % (d, a, b, got, base[a:b])))
        # filterdir: a page is the slice of the *filtered* listing
        for kw in ({"files": ["*a*"]}, {"dirs": ["*"], "exclude_files": ["*"]}, {"exclude_dirs": ["*"]}, {"exclude_files": ["*.e", "a*"]}):
            try:
                full = _names(f.filterdir(d, **kw))
                for a in range(0, min(len(full), 2) + 2):
                    for b in range(a, min(len(full), 3) + 2):
                        got = _names(f.filterdir(d, page=(a, b), **kw))
                        rep.evaluations += 1
                        if got != full[a:b]:
                            bad.append(("filterdir_page_is_slice", "%r %r page=(%d,%d): %r vs %r" % (d, kw, a, b, got, full[a:b])))
            except Exception as e:  # noqa
                bad.append(("filterdir_raises", "%r %r: %r" % (d, kw, e)))
        for ns in NS_SETS:
            try:
                infos = {i.name: i for i in f.scandir(d, namespaces=list(ns))}
            except Exception as e:  # noqa
                bad.append(("scandir_raises", "%r ns=%r: %r" % (d, ns, e)))
                continue
            for name, si in infos.items():
                p = P.join(d, name)
                gi = f.getinfo(p, namespaces=list(ns))
                rep.evaluations += 1
                for n_ in ("basic",) + tuple(ns):
                    a, b = raw_subset(si.raw, n_), raw_subset(gi.raw, n_)
                    if a is not None and b is not None and a != b and n_ not in ("stat", "lstat"):
                        bad.append(("scandir_info_eq_getinfo", "%r ns=%s: scandir %r getinfo %r" % (p, n_, a, b)))
                for info in (si, gi):
                    if "basic" not in info.raw or "name" not in info.raw["basic"] or "is_dir" not in info.raw["basic"]:
                        bad.append(("raw_has_basic", "%r: %r" % (p, info.raw)))
                    for n_ in STANDARD_NS:
                        if n_ in info.raw:
                            try:
                                json.dumps(info.raw[n_])
                            except Exception as e:  # noqa
                                bad.append(("raw_json_serialisable", "%r ns=%s: %r" % (p, n_, e)))
                    if "details" in info.raw:
                        dt = info.raw["details"]
                        if info.type != ResourceType(dt.get("type", 0)):
                            bad.append(("info_type_conversion", p))
                        for tkey in ("modified", "created", "accessed", "metadata_changed"):
                            v = dt.get(tkey)
                            want = None if v is None else epoch_to_datetime(v)
                            if getattr(info, tkey) != want:
                                bad.append(("info_time_conversion", "%r %s" % (p, tkey)))
                        if info.is_dir != (info.type == ResourceType.directory) and dt.get("type") in (1, 2):
                            bad.append(("gettype_isdir_isfile_agree(info)", p))
                    if "access" in info.raw and info.raw["access"].get("permissions") is not None:
                        perm = info.permissions
                        if sorted(perm.dump()) != sorted(info.raw["access"]["permissions"]):
                            bad.append(("info_permissions_conversion", p))
        for name in names:
            p = P.join(d, name)
            isd, isf, ex = f.isdir(p), f.isfile(p), f.exists(p)
            if ex != (isd or isf) or (isd and isf):
                bad.append(("exists_eq_isdir_or_isfile", "%r: %r %r %r" % (p, ex, isd, isf)))
            t = f.gettype(p)
            if (t == ResourceType.directory) != isd or (t == ResourceType.file) != isf:
                bad.append(("gettype_isdir_isfile_agree", "%r: %r %r %r" % (p, t, isd, isf)))
            if isd:
                stack.append(p)
            elif isf:
                data = f.readbytes(p)
                sz, dsz = f.getsize(p), f.getinfo(p, namespaces=["details"]).size
                if not (sz == len(data) == dsz):
                    bad.append(("getsize_eq_len_readbytes_eq_details_size", "%r: %r %r %r" % (p, sz, len(data), dsz)))


def derived_views(b, snap, archives=True):
    """read-only and composed views of the state of backend b: (kind, fs, closer)"""
    from fs.wrap import read_only, cache_directory
    from fs.zipfs import ZipFS
    from fs.tarfs import TarFS
    from fs import copy as C

    out = [("ro-" + b.kind, read_only(b.fs), None), ("cachedir-" + b.kind, cache_directory(b.fs), None)]
    for cls, nm in ((ZipFS, "zip-r"), (TarFS, "tar-r")) if archives else ():
        buf = io.BytesIO()
        w = cls(buf, write=True)
        C.copy_fs(b.fs, w)
        w.close()
        buf.seek(0)
        out.append((nm, cls(buf), None))
    return out


def check_state(rep, kind, f, ctx):
    bad = []
    try:
        H.with_watchdog(lambda: consistency(f, kind, bad, rep), 30)
    except Exception as e:  # noqa
        if "ftp" in kind and type(e).__name__ in ("RemoteConnectionError", "Timeout"):
            # connection trouble with the loopback server is infrastructure, never a verdict; a run in which it
            # keeps happening is not evidence of anything
            rep.count("ftp/connection-error-in-queries")
            if rep.histogram["ftp/connection-error-in-queries"] > 5:
                raise vlib.Infra("repeated connection errors / timeouts against the loopback FTP server: %r" % (e,))
            return []
        bad.append(("query_raises", "%s: %r" % (type(e).__name__, e)))
    rep.programs += 1
    for law, detail in bad[:1]:
        if len(rep.violations) < 6:
            rep.violation({"backend": kind, "context": ctx, "law": law, "detail": detail},
                          "%s: %s fails — %s (state %s)" % (kind, law, detail[:300], str(ctx)[:200]),
                          found_input=True, signature="C10/%s/%s" % (kind.split("-")[0] if kind.startswith(("ro-", "cachedir-")) else kind, law))
    return bad


def query_through_views(rep, kind, f, snap, ctx):
    """queries are observations: asking views of the directories (opendir(d).getinfo('/'), listdir, exists…) must
    leave every answer of the filesystem itself as it was — the equalities are evaluated again afterwards
    (a wrapper that caches Info objects must not let a view rename them)"""
    dirs = [e[1] for e in snap if e[0] == "D"][:6]
    for d in dirs:
        try:
            v = f.opendir(d)
            v.getinfo("/")
            v.getinfo("", namespaces=["details"])
            v.listdir("/")
            v.exists("/")
            list(v.scandir(""))
        except Exception:  # noqa
            continue
    if dirs:
        check_state(rep, kind + "+views", f, dict(ctx, after="opendir(d).getinfo('/') for d in %r" % dirs))


def info_accessor_grid(rep, rng, n_random):
    """Info accessors are the exact conversions of the raw values: constructed raw infos over a
    grid of edge values (epoch 0, negative, fractional, None; every type; permission sets)."""
    import datetime as _dt
    from fs.info import Info
    from fs.enums import ResourceType
    from fs.permissions import Permissions

    times = [None, 0, 0.0, 1, -1, 1.5, 86399, 86400, 951782400, 1e9, 1582934400.25, 2 ** 31, 4102444800]
    perm_names = ["u_r", "u_w", "u_x", "g_r", "g_w", "g_x", "o_r", "o_w", "o_x", "setuid", "setguid", "sticky"]
    cases = []
    for t in times:
        for key in ("modified", "created", "accessed", "metadata_changed"):
            cases.append({"basic": {"name": "n", "is_dir": False}, "details": {key: t, "type": 2, "size": 0}})
    for ty in range(0, 8):
        for size in (0, 1, 2 ** 40):
            cases.append({"basic": {"name": "x", "is_dir": ty == 1}, "details": {"type": ty, "size": size}})
    for _ in range(n_random):
        names = [n for n in perm_names if rng.random() < 0.5]
        cases.append({"basic": {"name": "p", "is_dir": False}, "access": {"permissions": names, "uid": rng.randrange(70000), "gid": 0,
                                                                           "user": "u", "group": None}})
    for mode in list(range(0, 0o10000, 73)) + [0, 0o7777, 0o4000, 0o2000, 0o1000, 0o777]:
        cases.append({"basic": {"name": "m", "is_dir": False}, "access": {"permissions": Permissions(mode=mode).dump()}, "_mode": mode})
    for raw in cases:
        mode = raw.pop("_mode", None)
        info = Info(raw)
        rep.evaluations += 1
        rep.nontrivial("info-grid", repr(sorted((k, repr(sorted(v.items(), key=repr))) for k, v in raw.items())))
        bad = None
        try:
            d = raw.get("details", {})
            for key in ("modified", "created", "accessed", "metadata_changed"):
                if key in d:
                    v = d[key]
                    want = None if v is None else _dt.datetime.fromtimestamp(v, _dt.timezone.utc)
                    got = getattr(info, key)
                    if (got is None) != (want is None) or (got is not None and abs((got - want).total_seconds()) > 1e-6):
                        bad = ("info_time_conversion", "%s raw=%r accessor=%r expected=%r" % (key, v, got, want))
            if "type" in d and info.type != ResourceType(d["type"]):
                bad = ("info_type_conversion", repr(d))
            if "size" in d and info.size != d["size"]:
                bad = ("info_size_conversion", repr(d))
            a = raw.get("access")
            if a is not None:
                perm = info.permissions
                if sorted(perm.dump()) != sorted(a["permissions"]):
                    bad = ("info_permissions_conversion", "%r -> %r" % (a["permissions"], perm.dump()))
                want_mode = 0
                bits = {"u_r": 0o400, "u_w": 0o200, "u_x": 0o100, "g_r": 0o40, "g_w": 0o20, "g_x": 0o10, "o_r": 4, "o_w": 2, "o_x": 1,
                        "setuid": 0o4000, "setguid": 0o2000, "sticky": 0o1000}
                for n_ in a["permissions"]:
                    want_mode |= bits[n_]
                if perm.mode != want_mode or (mode is not None and perm.mode != mode):
                    bad = ("permissions_mode_roundtrip", "%r mode=%o expected=%o" % (a["permissions"], perm.mode, want_mode))
                for k in ("uid", "gid", "user", "group"):
                    if k in a and getattr(info, k) != a[k]:
                        bad = ("info_access_conversion", k)
            if info.name != raw["basic"]["name"] or info.is_dir != raw["basic"]["is_dir"] or info.is_file == info.is_dir:
                bad = ("info_basic_conversion", repr(raw["basic"]))
        except Exception as e:  # noqa
            bad = ("info_accessor_raises", "%r on %r" % (e, raw))
        if bad:
            rep.violation({"raw": raw, "law": bad[0], "detail": bad[1]}, "Info(%r): %s — %s" % (raw, bad[0], bad[1]),
                          found_input=True, signature="C10/info/%s" % bad[0])
            break
    rep.extra["info_grid_cases"] = len(cases)


def run(rep, tier, seed, deep=False):
    rng = vlib.rng_for(seed, "c10")
    quick = tier == "quick"
    _genstatus.report(rep, "C10", "PermGen", "FsProofs.PermGenEq", "FsModel/Info.lean (Permissions)")
    _genstatus.report(rep, "C10", "InfoGen", "FsProofs.InfoGenEq", "FsModel/Info.lean (Info)")
    n_hist, n_ops, every = (60, 16, 4) if quick else (400, 30, 3)
    if deep:
        n_hist *= 3
    kinds = S.WRITABLE + ["multi2", "mount-nested"]
    rep.rule = ("after every %d-th step of %d random histories x %d ops per backend %s, and on read-only / cached / zip / tar views "
                "of the final state: all query equalities of the property on every directory, file, namespace set %s and page window; "
                "distinct = distinct (backend, tree) states checked" % (every, n_hist, n_ops, kinds, NS_SETS))
    rep.assumptions = ["access times may change between two reads and are not compared", "stat/lstat namespaces are backend specific: presence only",
                       "FTPFS (thorough tier only): loopback pyftpdlib 1.5.10 server, MLSD and LIST variants, 60 histories x 15 ops each, names "
                       "the FTP listing formats carry unambiguously in the random part (others: directed cases); connection errors are infrastructure"]
    def explore(kind, n_hist, n_ops, every, names, ftp=False):
        for h in range(n_hist):
            b = H.make_backend(kind)
            try:
                snap = H.snapshot(b.fs)
                if snap is None:
                    check_state(rep, kind, b.fs, {"history": [], "note": "initial state could not be snapshotted"})
                ops = []
                for i in range(n_ops):
                    op = H.gen_op(rng, snap or [], names)
                    if not S.steer(kind, op) or (ftp and not F.steer(kind, op)):
                        continue
                    r = H.apply_op(b.fs, op)
                    if ftp and F.is_conn_error(r):
                        if not F.server_healthy(b):
                            raise vlib.Infra("loopback FTP server (%s) died / does not answer during %r: %r" % (kind, op, r[2]))
                        rep.count("ftp/connection-error-history-abandoned")
                        snap = None
                        break
                    ops.append(H.op_json(op))
                    if op[0] in ("writebytes", "makedir", "create") and rng.random() < 0.3:
                        # explicit timestamps, including the epoch itself
                        try:
                            b.fs.setinfo(op[1], {"details": {"modified": rng.choice([0, 1, 86400, 1e9]), "accessed": rng.choice([0, 5])}})
                        except Exception:
                            pass
                    snap = H.snapshot(b.fs)
                    if snap is None:
                        # the generic snapshot walker could not make sense of the filesystem:
                        # evaluate the query equalities on it before giving up on this history
                        check_state(rep, kind, b.fs, {"history": ops[-8:], "note": "state could not be snapshotted"})
                        break
                    if i % every == every - 1 or i == n_ops - 1:
                        rep.nontrivial(kind, H.enc_tree(snap))
                        check_state(rep, kind, b.fs, {"history": ops[-8:]})
                        if i == n_ops - 1 and not ftp:
                            query_through_views(rep, kind, b.fs, snap, {"history": ops[-8:]})
                        if ftp:
                            # what FTPFS shows must be what the server's directory holds (seen through the OS)
                            disk = H.ftp_os_snapshot(b)
                            rep.evaluations += 1
                            if H.canon_tree(snap) != H.canon_tree(disk) and len(rep.violations) < 6:
                                rep.violation({"backend": kind, "context": {"history": ops[-8:]}, "law": "ftpfs_view_eq_disk",
                                               "detail": "%r vs %r" % ([e[:2] for e in H.canon_tree(snap)][:12], [e[:2] for e in H.canon_tree(disk)][:12])},
                                              "%s: FTPFS shows %r, the server's directory holds %r (after %r)" % (
                                                  kind, [e[:2] for e in H.canon_tree(snap)][:10], [e[:2] for e in H.canon_tree(disk)][:10], ops[-5:]),
                                              found_input=True, signature="C10/%s/ftpfs_view_eq_disk" % kind)
                if snap:
                    for vk, vfs, _ in derived_views(b, snap, archives=not ftp):
                        rep.nontrivial(vk, H.enc_tree(snap))
                        check_state(rep, vk, vfs, {"tree": [e[:2] for e in snap][:12]})
                        if not ftp:
                            query_through_views(rep, vk, vfs, snap, {"tree": [e[:2] for e in snap][:12]})
                        try:
                            vfs.close() if vk.endswith("-r") else None
                        except Exception:
                            pass
            finally:
                b.close()

    try:
        for kind in kinds:
            explore(kind, n_hist, n_ops, every, H.NAMES)
        if not quick:
            # FTPFS against a loopback pyftpdlib server (MLSD and LIST variants): thorough tier only, small budget
            import time as _time
            t_ftp = _time.time()
            for kind in F.KINDS:
                explore(kind, 60 * (3 if deep else 1), 15, 3, F.NAMES, ftp=True)
            rep.extra["ftp_name_cases"] = F.directed_name_cases(rep, "C10", [n for n in F.ODD_NAMES if "\n" not in n and "\r" not in n])
            rep.extra["ftp_seconds"] = round(_time.time() - t_ftp, 1)
        info_accessor_grid(rep, rng, 200 if quick else 5000)
        _infomodel.check_info_model(rep, vlib.Driver(), vlib.rng_for(seed, "c10-info"), tier)
        rep.sample({"backend": "mem", "laws": ["listdir_eq_scandir_names", "page_is_slice", "scandir_info_eq_getinfo", "getsize_eq_len_readbytes_eq_details_size"]})
    finally:
        H.cleanup_scratch()


def replay(rep, case):
    print("C10 replays: rerun ./check C10 with the same VERIF_SEED; case:", json.dumps(case.get("case"))[:400])
    return 1
