"""C12 — fs.path functions obey their algebraic laws for every string.

Theorems: lean/FsProofs/C12.lean (over FsModel.Path / FsModel.PathSpec).
Translator: harness/extract/pathgen.py regenerates lean/FsModel/Generated/PathGen.lean from fs/path.py on
every run; lean/FsProofs/PathGenEq.lean (one equality per function, re-proved on every run) identifies the
generated definitions with FsModel.Path, lean/FsProofs/C12Gen.lean restates the headline theorems over them.
A translator refusal or a broken equality is a broken proof obligation: the correspondence and the law
oracles below then decide between a failing input and `no-failing-input-found` (which names the
obligation, e.g. `PathGen.translate(normpath)` or `Fs.PathGenEq.isbase_eq`).
Correspondence: every function of fs/path.py vs. the compiled model on exhaustive
component sequences, exhaustive short strings over the regex alphabet and random
Unicode strings; the laws themselves are also evaluated directly on the real code.
"""
from __future__ import annotations

import itertools
import json
import os

import vlib
from vlib import hx, hxlist

# the model regenerated from the source (translator) + its equality to the hand model + corollaries
EXTRA_PROOF_MODULES = ("FsProofs.PathGenEq", "FsProofs.C12Gen")
PATHGEN_STATUS = os.path.join(vlib.LEAN, "FsModel", "Generated", "PathGen.status.json")

NAMES = ["", ".", "..", "foo", "a.b", "*{x}[?"]
ONE = [
    "normpath", "iteratepath", "recursepath0", "recursepath1", "isabs", "abspath", "relpath",
    "parts", "split", "splitext", "isdotfile", "dirname", "basename", "forcedir", "iswildcard", "reqnorm",
]
TWO = ["combine", "issamedir", "isbase", "isparent", "frombase", "relativefrom", "join2"]


def enc_list(l):
    return hxlist(l)


def enc_pair(p):
    return "P" + hx(p[0]) + "," + hx(p[1])


def call_impl(fn, *a):
    """Run the real function; canonical reply string in the driver's format."""
    import fs.path as P
    from fs.errors import IllegalBackReference

    try:
        if fn == "normpath":
            return "ok " + hx(P.normpath(a[0]))
        if fn == "reqnorm":
            return "ok " + ("1" if P._requires_normalization(a[0]) else "0")
        if fn == "iteratepath":
            return "ok " + enc_list(P.iteratepath(a[0]))
        if fn == "recursepath0":
            return "ok " + enc_list(P.recursepath(a[0]))
        if fn == "recursepath1":
            return "ok " + enc_list(P.recursepath(a[0], reverse=True))
        if fn in ("isabs", "isdotfile", "iswildcard"):
            return "ok " + ("1" if getattr(P, fn)(a[0]) else "0")
        if fn in ("abspath", "relpath", "dirname", "basename", "forcedir"):
            return "ok " + hx(getattr(P, fn)(a[0]))
        if fn == "parts":
            return "ok " + enc_list(P.parts(a[0]))
        if fn in ("split", "splitext"):
            return "ok " + enc_pair(getattr(P, fn)(a[0]))
        if fn == "combine":
            return "ok " + hx(P.combine(a[0], a[1]))
        if fn in ("isbase", "isparent", "issamedir"):
            return "ok " + ("1" if getattr(P, fn)(a[0], a[1]) else "0")
        if fn in ("frombase", "relativefrom"):
            return "ok " + hx(getattr(P, fn)(a[0], a[1]))
        if fn == "join2":
            return "ok " + hx(P.join(a[0], a[1]))
        if fn == "joinN":
            return "ok " + hx(P.join(*a[0]))
        raise AssertionError(fn)
    except IllegalBackReference:
        return "err IllegalBackReference"
    except ValueError:
        return "err ValueError"
    except Exception as e:  # anything else is a leak
        return "err Leak:" + type(e).__name__


def request(fn, *a):
    if fn == "recursepath0":
        return "path.recursepath %s 0" % hx(a[0])
    if fn == "recursepath1":
        return "path.recursepath %s 1" % hx(a[0])
    if fn == "join2":
        return "path.join " + hxlist([a[0], a[1]])
    if fn == "joinN":
        return "path.join " + hxlist(a[0])
    return "path.%s %s" % (fn, " ".join(hx(x) for x in a))


# ----------------------------------------------------------------------------- oracles
# The property itself, evaluated on the real code with an independent reference.


def ref_resolve(comps):
    out = []
    for c in comps:
        if c in ("", "."):
            continue
        if c == "..":
            if not out:
                return None
            out.pop()
        else:
            out.append(c)
    return out


def ref_norm(p):
    r = ref_resolve(p.split("/"))
    if r is None:
        return None
    return ("/" if p.startswith("/") else "") + "/".join(r)


def is_prefix(a, b):
    return len(a) <= len(b) and b[: len(a)] == a


def oracle_one(p):
    """Laws of one path; returns list of (law, detail) failures on the real code."""
    import fs.path as P
    from fs.errors import IllegalBackReference

    bad = []
    want = ref_norm(p)
    try:
        got = P.normpath(p)
    except IllegalBackReference:
        got = None
    except Exception as e:
        return [("normpath_raises_only_IllegalBackReference", repr(e))]
    if want is None or got is None:
        if want != got:
            bad.append(("normpath_err_iff_climbs", "ref=%r impl=%r" % (want, got)))
        return bad
    if got != want:
        bad.append(("normpath_eq_spec", "ref=%r impl=%r" % (want, got)))
    comps = [c for c in got.split("/")]
    body = got[1:] if got.startswith("/") else got
    if body and any(c in ("", ".", "..") for c in body.split("/")):
        bad.append(("normpath_clean", repr(got)))
    try:
        if P.normpath(got) != got:
            bad.append(("normpath_idem", "%r -> %r" % (got, P.normpath(got))))
    except Exception as e:
        bad.append(("normpath_idem", repr(e)))
    n = got  # laws on the normalised path
    cs = body.split("/") if body else []
    try:
        if P.iteratepath(n) != cs:
            bad.append(("iteratepath_components", repr((n, P.iteratepath(n)))))
        h, t = P.split(n)
        if (h, t) != (P.dirname(n), P.basename(n)):
            bad.append(("split_dirname_basename", repr(n)))
        if n not in ("",) and P.combine(h, t) != n:
            bad.append(("combine_dirname_basename", repr((n, h, t, P.combine(h, t)))))
        if n and P.join(h, t) != n:
            bad.append(("join_dirname_basename", repr((n, h, t, P.join(h, t)))))
        if cs and t != cs[-1]:
            bad.append(("basename_is_last_component", repr((n, t))))
        want_rec = ["/"] + ["/" + "/".join(cs[: i + 1]) for i in range(len(cs))]
        if P.recursepath(n) != want_rec or P.recursepath(n, reverse=True) != want_rec[::-1]:
            bad.append(("recursepath_eq_prefixes", repr((n, P.recursepath(n)))))
        want_parts = ["/" if n.startswith("/") else "./"] + cs
        if P.parts(n) != want_parts:
            bad.append(("parts_eq", repr((n, P.parts(n)))))
        a = P.abspath(n)
        if a != (n if n.startswith("/") else "/" + n):
            bad.append(("abspath_adds_slash", repr((n, a))))
        if P.relpath(a) != body or P.relpath(n) != body:
            bad.append(("relpath_strips_slash", repr((n, P.relpath(a)))))
    except Exception as e:
        bad.append(("laws_raise", "%r on %r" % (e, n)))
    return bad


def oracle_two(a, b):
    """Laws on two normalised paths (component-wise comparisons)."""
    import fs.path as P

    bad = []
    na, nb = ref_norm(a), ref_norm(b)
    if na is None or nb is None:
        return bad
    ca = [c for c in na.split("/") if c]
    cb = [c for c in nb.split("/") if c]
    try:
        if P.isbase(na, nb) != is_prefix(ca, cb):
            bad.append(("isbase_iff_component_prefix", repr((na, nb, P.isbase(na, nb)))))
        if na.startswith("/") == nb.startswith("/") and na != "" and nb != "":
            if P.isparent(na, nb) != is_prefix(ca, cb):
                bad.append(("isparent_iff_component_prefix", repr((na, nb, P.isparent(na, nb)))))
            if P.issamedir(na, nb) != (ca[:-1] == cb[:-1]) and ca and cb:
                bad.append(("issamedir_iff_init_eq", repr((na, nb))))
            if is_prefix(ca, cb) and na not in ("/",):
                fb = P.frombase(na, nb)
                if na + fb != nb:
                    bad.append(("frombase_append", repr((na, nb, fb))))
        # "compare whole components, never raw string prefixes", for ANY two normalised paths (absolute
        # or relative in any combination): whatever frombase returns consists of exactly the components
        # of path2 that follow those of path1 (it may refuse with ValueError instead)
        try:
            fb = P.frombase(na, nb)
        except ValueError:
            fb = None
        if fb is not None and (not is_prefix(ca, cb) or [c for c in fb.split("/") if c] != cb[len(ca):]):
            bad.append(("frombase_whole_components", repr((na, nb, fb))))
        rel = P.relativefrom(na, nb)
        if ref_resolve(ca + rel.split("/")) != cb:
            bad.append(("relativefrom_resolves", repr((na, nb, rel))))
    except Exception as e:
        bad.append(("laws_raise", "%r on %r" % (e, (na, nb))))
    return bad


# ----------------------------------------------------------------------------- generators


def component_strings(L):
    for n in range(L + 1):
        for combo in itertools.product(NAMES, repeat=n):
            body = "/".join(combo)
            for lead in ("", "/"):
                for trail in ("", "/"):
                    yield lead + body + trail


def alphabet_strings(maxlen, alphabet="/.a\n"):
    for n in range(maxlen + 1):
        for t in itertools.product(alphabet, repeat=n):
            yield "".join(t)


def random_strings(rng, count):
    pools = [
        "/./..ab",
        "/.a\n \t",
        "/.abc*?[]!{}%\\",
        "/.αβ日本\U0001f600é   x",
    ]
    for _ in range(count):
        pool = rng.choice(pools)
        n = rng.choice([1, 2, 3, 5, 8, 13, 30, 80])
        if rng.random() < 0.5:
            # component-structured
            comps = []
            for _ in range(rng.randint(0, n)):
                r = rng.random()
                if r < 0.15:
                    comps.append("..")
                elif r < 0.3:
                    comps.append(".")
                elif r < 0.4:
                    comps.append("")
                else:
                    comps.append("".join(rng.choice(pool.replace("/", "")) for _ in range(rng.randint(1, 4))))
            yield rng.choice(["", "/"]) + "/".join(comps) + rng.choice(["", "/"])
        else:
            yield "".join(rng.choice(pool) for _ in range(n))


# ----------------------------------------------------------------------------- run


def classify(rep, fn, args, model, impl):
    """A model/implementation disagreement: search for a failing input of the property."""
    rep.disagreements_checked += 1
    fails = []
    cands = list(args) if fn != "joinN" else list(args[0])
    for p in cands:
        fails += oracle_one(p)
    if len(cands) == 2:
        fails += oracle_two(*cands)
        fails += oracle_two(cands[1], cands[0])
    if impl.startswith("err Leak"):
        fails.append(("raises_undocumented_exception", impl))
    case = {"function": fn, "args": list(args), "model": model, "impl": impl, "failed_laws": fails}
    if fails:
        rep.violation(case, "fs.path.%s%r: %s" % (fn, tuple(args), fails[0]), found_input=True,
                      signature="C12/%s/%s" % (fn, fails[0][0]))
    else:
        rep.violation(
            case,
            "correspondence PathModel.%s vs fs.path.%s broke on %r (model %s, impl %s); "
            "the algebraic laws still hold at this input" % (fn, fn, tuple(args), model, impl),
            found_input=False,
            signature="C12/%s/correspondence" % fn,
        )


def translator_status(rep):
    """what harness/extract/pathgen.py did on this run: evidence, and one (deferred) broken obligation per refusal"""
    try:
        with open(PATHGEN_STATUS) as fh:
            st = json.load(fh)
    except (OSError, ValueError) as ex:
        rep.extra["pathgen"] = {"status": "missing", "error": str(ex)}
        rep.violation({"broken_obligation": "PathGen.translate(<module>)", "error": str(ex)},
                      "PathGen.translate(<module>): the translator left no status file (%s)" % ex,
                      found_input=False, signature="C12/PathGen.translate(<module>)")
        return
    exercised = {f.rstrip("012") for f in ONE + TWO} | {"join", "recursepath"}
    rep.extra["pathgen"] = {
        "source": st.get("source"),
        "translated": st.get("translated", []),
        "refused": [r["obligation"] + ": " + r["message"] for r in st.get("refused", [])],
        "new_functions_without_hand_model": st.get("new_functions", []),
        "vanished_functions": st.get("vanished_functions", []),
        "in_all_not_translated": st.get("not_translated_in_all", []),
        "translated_but_not_exercised_by_the_correspondence": sorted(
            n for n in st.get("translated", []) if n not in exercised and not n.startswith("_")),
    }
    for r in st.get("refused", []):
        rep.violation({"broken_obligation": r["obligation"], "function": r["function"], "node": r["node"],
                       "message": r["message"]},
                      "%s: the source-to-Lean translator refused (%s); the equality theorems of FsProofs.PathGenEq "
                      "no longer build, the correspondence and the law oracles found no failing input"
                      % (r["obligation"], r["message"]),
                      found_input=False, signature="C12/%s" % r["obligation"])
    for n in st.get("new_functions", []):
        rep.violation({"broken_obligation": "PathGen.coverage", "function": n},
                      "fs/path.py has a function `%s` with no counterpart in the hand model FsModel/Path.lean "
                      "(no equality theorem, not exercised by the correspondence)" % n,
                      found_input=False, signature="C12/PathGen.coverage/%s" % n)


def run(rep, tier, seed, deep=False):
    drv = vlib.Driver()
    rng = vlib.rng_for(seed, "c12")
    translator_status(rep)
    L = 5 if tier == "quick" else 7
    A = 7 if tier == "quick" else 9
    R = 10000 if tier == "quick" else 300000
    if deep:
        R *= 3
    rep.rule = (
        "every fs.path function on (i) all sequences of <=%d components over %r x leading/trailing slash, "
        "(ii) all strings of length <=%d over '/.a\\n', (iii) %d random unicode strings; two-argument "
        "functions on the pair product of a 400-string sample. non-trivial/distinct = distinct "
        "(function, argument) pairs whose model reply is not the identity on the argument" % (L, NAMES, A, R)
    )
    rep.assumptions = [
        "Python's re engine, str methods: external (the regex pre-check is re-stated on components and validated via path.reqnorm)",
        "the source-to-Lean translator harness/extract/pathgen.py and the PyStr primitives: trusted to render the Python "
        "subset faithfully; validated by this correspondence (Path.* = PathGen.* is proved, Path.* vs fs.path is executed)",
        "lone surrogates are outside the model (Str = List Char); generators never emit them",
    ]
    singles = []
    seen = set()
    for src in (component_strings(L), alphabet_strings(A), random_strings(rng, R)):
        for s in src:
            if s not in seen:
                seen.add(s)
                singles.append(s)
    rep.extra["single_inputs"] = len(singles)
    maxviol = 5
    # single-argument functions, chunked
    CH = 20000
    for i in range(0, len(singles), CH):
        chunk = singles[i : i + CH]
        reqs = [request(fn, s) for s in chunk for fn in ONE]
        replies = drv.batch(reqs)
        k = 0
        for s in chunk:
            for fn in ONE:
                model = replies[k]
                k += 1
                impl = call_impl(fn, s)
                rep.evaluations += 1
                rep.count(fn + (":err" if impl.startswith("err") else ":ok"))
                if model != "ok " + hx(s):
                    rep.nontrivial(fn, s)
                if model != impl:
                    classify(rep, fn, (s,), model, impl)
            bad = oracle_one(s)
            if bad:
                rep.violation({"function": "laws", "args": [s], "failed_laws": bad},
                              "law %s fails on the real code at %r: %s" % (bad[0][0], s, bad[0][1]),
                              found_input=True, signature="C12/law/%s" % bad[0][0])
        rep.programs += len(chunk)
    rep.sample({"fn": "normpath", "arg": "/foo//bar/../a.b/", "impl": call_impl("normpath", "/foo//bar/../a.b/")})
    # two-argument functions
    base = list(component_strings(2))
    extra = rng.sample(singles, min(len(singles), 400 - min(400, len(base)) + 150))
    sample = (base + extra)[: (400 if tier == "quick" else 1200)]
    rep.extra["pair_sample"] = len(sample)
    pairs = [(a, b) for a in sample for b in sample]
    for i in range(0, len(pairs), CH):
        chunk = pairs[i : i + CH]
        reqs = [request(fn, a, b) for (a, b) in chunk for fn in TWO]
        replies = drv.batch(reqs)
        k = 0
        for (a, b) in chunk:
            for fn in TWO:
                model = replies[k]
                k += 1
                impl = call_impl(fn, a, b)
                rep.evaluations += 1
                rep.count(fn + (":err" if impl.startswith("err") else ":ok"))
                rep.nontrivial(fn, a, b)
                if model != impl:
                    classify(rep, fn, (a, b), model, impl)
            bad = oracle_two(a, b)
            if bad:
                rep.violation({"function": "laws2", "args": [a, b], "failed_laws": bad},
                              "law %s fails on the real code at %r: %s" % (bad[0][0], (a, b), bad[0][1]),
                              found_input=True, signature="C12/law/%s" % bad[0][0])
        rep.programs += len(chunk)
    # n-ary join
    lists = [[rng.choice(sample) for _ in range(rng.randint(0, 5))] for _ in range(5000 if tier == "quick" else 100000)]
    replies = drv.batch([request("joinN", l) for l in lists])
    for l, model in zip(lists, replies):
        impl = call_impl("joinN", l)
        rep.evaluations += 1
        rep.nontrivial("joinN", tuple(l))
        if model != impl:
            classify(rep, "joinN", (l,), model, impl)
    rep.programs += len(lists)
    rep.sample({"fn": "isbase", "args": ["/a", "/ab"], "impl": call_impl("isbase", "/a", "/ab")})
    rep.sample({"fn": "relativefrom", "args": ["foo/bar", "baz/index.html"],
                "impl": vlib.unhx(call_impl("relativefrom", "foo/bar", "baz/index.html")[3:])})
    rep.extra["exhaustive"] = True


def replay(rep, case):
    c = case["case"]
    fn, args = c["function"], c["args"]
    if fn in ("laws", "laws2"):
        bad = oracle_one(args[0]) if fn == "laws" else oracle_two(*args)
        print("laws failing now:", bad)
        return 1 if bad else 0
    drv = vlib.Driver()
    a = tuple(args) if fn != "joinN" else (args[0],)
    model = drv.batch([request(fn, *a)])[0]
    impl = call_impl(fn, *a)
    print("model:", model, "impl:", impl)
    return 0 if model == impl else 1
