"""FTPFS against a loopback pyftpdlib server — shared by the thorough tiers of C01, C06, C10, C11, C16.

Backends `ftp` (MLSD/MLST offered) and `ftp-nomlsd` (LIST parsing path) come from
`fsharness.make_backend`; each has a server of its own and its backing directory `b.root`, which gives
an observation of the state that does not go through the library at all (`fsharness.ftp_os_snapshot`):
**what FTPFS shows must be what is on disk** is checked after every step.

Triage policy (design.d/FTP.md has the table):
 (a) a genuine violation of a property text is an open finding, recognised here by a *precise* predicate
     over (operation, pre-tree, observed outcome) -> signature `Cxx/known/ftpfs-<slug>`; anything else
     that disagrees is reported as a fresh violation;
 (b) behaviour the property cannot blame on the library (what the FTP protocol / ftplib / pyftpdlib
     cannot carry) is steered around: `NAMES`, `steer`;
 (c) connection trouble is infrastructure: a step that ends in RemoteConnectionError / a watchdog
     timeout is re-executed on fresh servers; if the server itself is unhealthy -> vlib.Infra (exit 2);
     only an error that reproduces on healthy servers is judged (then it is the library's).
"""
from __future__ import annotations

import socket

import vlib
import fsharness as H
from props import _stateful as S

KINDS = list(H.FTP_KINDS)

# Names the protocol carries unambiguously on both variants.  Left out of the random generators (each is
# exercised once per run by `directed_name_cases`):
#   "h\n"  ftplib refuses CR/LF in a command line with a raw ValueError          -> finding (C06)
#   " f"   MLSD: `_parse_facts` strips/splits the name (also ';' and '=')          -> finding (C10)
#          LIST: a leading blank cannot be told from the column separator          -> limit (b)
NAMES = ["a", "b", "c", "d.e", "g*", "k l"]

CONN_CLASSES = ("RemoteConnectionError", "Leak:Timeout", "Leak:ConnectionResetError", "Leak:ConnectionRefusedError",
                "Leak:BrokenPipeError", "Leak:EOFError", "Leak:timeout", "Leak:TimeoutError", "Leak:ConnectionAbortedError")


class FtpStep(H.Step):
    __slots__ = ("disk", "note")

    def __init__(self, kind, pre, op, impl, post, hist_id, idx, disk=None, note=None):
        H.Step.__init__(self, kind, pre, op, impl, post, hist_id, idx)
        self.disk = disk
        self.note = note


# ----------------------------------------------------------------------------- infrastructure


def server_healthy(b):
    if not b.server.alive():
        return False
    try:
        with socket.create_connection((b.server.host, b.server.port), timeout=5) as s:
            s.settimeout(5)
            ok = s.recv(16).startswith(b"220")
            s.sendall(b"QUIT\r\n")
        return ok
    except OSError:
        return False


def is_conn_error(impl):
    return impl[0] == "err" and impl[1] in CONN_CLASSES


def steer(kind, op):
    """False for operations the FTP control channel cannot carry at all (CR / LF inside a path: ftplib
    raises ValueError before anything is sent — recorded once by `directed_name_cases`)."""
    for x in op[1:]:
        if isinstance(x, str) and ("\n" in x or "\r" in x):
            return False
    return True


def gen(rng, snap, names):
    for _ in range(50):
        op = H.gen_op(rng, snap, names)
        if steer("ftp", op):
            return op
    return ("exists", "a")


def build_state(kind, tree):
    """H.build_state; failing to BUILD the pre-state is infrastructure, whatever the reason"""
    last = None
    for _attempt in range(3):
        try:
            return H.build_state(kind, tree)
        except vlib.Infra:
            raise
        except Exception as e:  # noqa
            last = e
    raise vlib.Infra("cannot build the pre-state %r on a fresh %s backend: %r" % ([e[:2] for e in tree], kind, last))


def one_step(kind, tree, op, hid, idx=0, counts=None):
    """(tree, op) on a fresh backend; connection-class outcomes are retried on fresh servers"""
    last = None
    for attempt in range(3):
        b = build_state(kind, tree)
        try:
            pre = H.snapshot(b.fs)
            impl = H.apply_op(b.fs, op, keep_order=True)
            if is_conn_error(impl):
                healthy = server_healthy(b)
                if not healthy:
                    raise vlib.Infra("loopback FTP server (%s) died / does not answer during %r: %r" % (kind, op, impl[2]))
                last = impl
                if counts is not None:
                    counts["connection-error-retried"] = counts.get("connection-error-retried", 0) + 1
                continue
            post = H.snapshot(b.fs)
            disk = H.ftp_os_snapshot(b)
            return FtpStep(kind, pre, op, impl, post, hid, idx, disk=disk,
                           note="after %d connection errors" % attempt if attempt else None)
        finally:
            b.close()
    # reproduces on three healthy servers: it is what the library does with this input
    b = build_state(kind, tree)
    try:
        pre = H.snapshot(b.fs)
        impl = H.apply_op(b.fs, op, keep_order=True)
        post = H.snapshot(b.fs)
        return FtpStep(kind, pre, op, impl, post, hid, idx, disk=H.ftp_os_snapshot(b), note="connection error reproduces: %r" % (last,))
    finally:
        b.close()


def run_history(kind, rng, n_ops, hist_id, names=NAMES, counts=None):
    b = H.make_backend(kind)
    steps = []
    try:
        pre = H.snapshot(b.fs)
        for i in range(n_ops):
            if pre is None:
                break
            op = gen(rng, pre, names)
            impl = H.apply_op(b.fs, op, keep_order=True)
            if is_conn_error(impl):
                if not server_healthy(b):
                    raise vlib.Infra("loopback FTP server (%s) died / does not answer during %r: %r" % (kind, op, impl[2]))
                # judged from the same pre-state on fresh servers (the live connection of this history may be broken)
                steps.append(one_step(kind, pre, op, hist_id, i, counts))
                break
            post = H.snapshot(b.fs)
            steps.append(FtpStep(kind, pre, op, impl, post, hist_id, i, disk=H.ftp_os_snapshot(b)))
            pre = post
    finally:
        b.close()
    return steps


def collect(n_hist, n_ops, rng, counts=None, kinds=KINDS, hid0=3 * 10 ** 6):
    steps = []
    hid = hid0
    for kind in kinds:
        for _ in range(n_hist):
            steps += run_history(kind, rng, n_ops, hid, counts=counts)
            hid += 1
    return steps


def exhaustive_sample(rng, n, counts=None, kinds=KINDS, hid0=4 * 10 ** 6):
    """n (tree, op) pairs per kind drawn from the exhaustive small scope of `_stateful` (every op x flag over
    {'',a,b,a/a,a/b,b/a} from every tree with <= 3 nodes: 11 856 pairs, ~30 ms each over FTP)"""
    trees, ops = S.small_trees(), S.exhaustive_small_ops()
    steps = []
    hid = hid0
    for kind in kinds:
        total = len(trees) * len(ops)
        for k in sorted(rng.sample(range(total), min(n, total))):
            steps.append(one_step(kind, trees[k // len(ops)], ops[k % len(ops)], hid, 0, counts))
            hid += 1
    return steps


# ----------------------------------------------------------------------------- known findings (a)


def _norm(p):
    cs = S._comps(p)
    return None if cs is None else "/".join(cs)


def _kind_of(pre, p):
    """'D' / 'F' / None for the clean path p in the snapshot (root is 'D')"""
    if p == "":
        return "D"
    for e in pre:
        if e[1] == p:
            return e[0]
    return None


def _parent_is_dir(pre, p):
    return _kind_of(pre, p.rsplit("/", 1)[0] if "/" in p else "") == "D"


def _mode_flags(m):
    """(reading, writing, create, truncate, exclusive) of a binary mode string fs.mode.Mode accepts, else None"""
    from fs.mode import Mode

    try:
        mo = Mode(m)
        mo.validate_bin()
    except ValueError:
        return None
    return mo.reading, mo.writing, mo.create, mo.truncate, mo.exclusive


def _disagrees(s, m):
    """does the step differ from Ref.step at all (verdict, value, tree, or an error class outside adm)?"""
    (mout, mtree, mclosed, adm, wf) = m
    if mout == ("err", "OperationFailed"):
        return s.impl[0] == "ok"
    if s.impl[0] != mout[0]:
        return True
    if s.impl[0] == "ok" and H.canon_val(s.impl[1]) != mout[1]:
        return True
    if s.impl[0] == "err" and s.impl[1] not in adm:
        return True
    return s.post is None or H.canon_tree(s.post) != H.canon_tree(H.dec_tree(mtree))


def known_class(s, m):
    """slug of the open FTPFS finding this step is an instance of, else None.  `m` = parsed Ref.step reply.
    Every predicate states the whole observation (pre-tree, outcome, resulting tree), so a different
    misbehaviour of the same call is still reported."""
    (mout, mtree, mclosed, adm, wf) = m
    op, pre, impl = s.op, s.pre, s.impl
    name = op[0]
    unchanged = s.post is not None and H.canon_tree(s.post) == H.canon_tree(pre)
    p = _norm(op[1]) if len(op) > 1 and isinstance(op[1], str) else None
    if p is None:
        return None
    # K7  LIST variant only: getinfo(q/n) lists q; when q is a FILE named n the server (RFC 959) answers with the
    #     entry of q itself, which is then taken for q/n — so "f/f" exists, is a file, has a size ... whenever f is
    #     a file.  An input class: whatever a call does with such a path argument is attributed to it.
    if s.kind == "ftp-nomlsd":
        for x in op[1:3]:
            q = _norm(x) if isinstance(x, str) else None
            if q and "/" in q:
                par, base = q.rsplit("/", 1)
                if _kind_of(pre, par) == "F" and par.rsplit("/", 1)[-1] == base and _disagrees(s, m):
                    return "list-child-of-file-named-like-it"
    tk = _kind_of(pre, p)
    # K1  create(wipe=False) / touch on an existing directory: `if wipe or not self.isfile(path)` sends STOR
    if name in ("touch", "create") and tk == "D" and impl[:2] == ("err", "ResourceNotFound") and mout[0] == "ok" and unchanged \
            and (name == "touch" or op[2] is False):
        return "create-on-directory"
    # K3  setinfo on a missing path: the 550 answer to MFMT is swallowed
    if name == "settimes" and tk is None and impl[0] == "ok" and mout == ("err", "ResourceNotFound") and unchanged:
        return "setinfo-missing-path-silent"
    if name == "openbin":
        fl = _mode_flags(op[2])
        if fl is not None:
            reading, writing, create, truncate, exclusive = fl
            # K5  a '+' mode that creates (w+ a+ x+) on a missing file below an existing directory
            if tk is None and reading and create and _parent_is_dir(pre, p) and impl[:2] == ("err", "ResourceNotFound") \
                    and mout[0] == "ok" and unchanged:
                return "open-plus-mode-missing-file"
            # K4  create / truncate are deferred to the first write(): open(...).close() changes nothing
            if impl[0] == "ok" and mout[0] == "ok" and unchanged and writing and (
                    (tk is None and create and _parent_is_dir(pre, p)) or (tk == "F" and truncate and not exclusive)):
                want = [e for e in pre if e[1] != p] + [("F", p, b"")]
                if H.canon_tree(H.dec_tree(mtree)) == H.canon_tree(want) and H.canon_tree(want) != H.canon_tree(pre):
                    return "open-defers-create-truncate"
    return None


def known_class_c06(s, m):
    """C06 view of the same classes + the two class-only ones (the call fails, as it must, but with a class
    whose documented condition does not hold)."""
    (mout, mtree, mclosed, adm, wf) = m
    op, pre, impl = s.op, s.pre, s.impl
    if impl[0] != "err":
        return None
    kc = known_class(s, m)
    if kc in ("create-on-directory", "open-plus-mode-missing-file", "list-child-of-file-named-like-it"):
        return kc
    name, cls = op[0], impl[1]
    unchanged = s.post is not None and H.canon_tree(s.post) == H.canon_tree(pre)
    if not unchanged:
        return None
    # K2  a 550 reply to STOR is always reported as ResourceNotFound; here the target IS there — a directory
    if cls == "ResourceNotFound" and "ResourceNotFound" not in adm and "FileExpected" in adm:
        dst = {"create": 1, "writebytes": 1, "touch": 1, "copy": 2, "move": 2}.get(name)
        if dst is not None:
            d = _norm(op[dst])
            if d is not None and _kind_of(pre, d) == "D" and (name not in ("copy", "move") or _kind_of(pre, _norm(op[1]) or "\0") == "F"):
                return "stor-on-directory-reported-as-not-found"
    # K6  MKD refused because the name is taken by a FILE: reported as DirectoryExists
    if cls == "DirectoryExists" and "DirectoryExists" not in adm and "DirectoryExpected" in adm:
        dst = {"makedir": 1, "makedirs": 1, "movedir": 2, "copydir": 2}.get(name)
        if dst is not None:
            d = _norm(op[dst])
            if d is not None:
                # the file in the way is the target itself or (makedirs) one of its ancestors
                cs = d.split("/") if d else []
                if any(_kind_of(pre, "/".join(cs[:k])) == "F" for k in range(1, len(cs) + 1)):
                    return "mkd-on-file-reported-as-directory-exists"
    return None


# ----------------------------------------------------------------------------- disk cross-check


def disk_mismatch(s):
    """FTPFS-side snapshot vs the OS-side one of the backing directory (None = they agree)"""
    if s.disk is None or s.post is None:
        return None
    if H.canon_tree(s.post) != H.canon_tree(s.disk):
        return "FTPFS shows %r, the server's directory holds %r" % ([e[:2] for e in H.canon_tree(s.post)][:12],
                                                                    [e[:2] for e in H.canon_tree(s.disk)][:12])
    return None


# ----------------------------------------------------------------------------- names the parsers mangle


ODD_NAMES = [" f", "f ", "x;y", "k=v", "x; y", "type=dir; z", "a -> b", "ü", "日本", "h\n", "c\rd"]


def name_case_class(kind, name):
    """('finding', slug) / ('limit', slug) / None (= must work) for a file name on a variant"""
    if "\n" in name or "\r" in name:
        return ("finding", "newline-in-path-raw-valueerror")
    if kind == "ftp" and (";" in name or "=" in name or name != name.strip()):
        return ("finding", "mlsd-name-separators")
    if kind == "ftp-nomlsd" and name != name.lstrip():
        return ("limit", "list-leading-blank-ambiguous")
    return None


def directed_name_cases(rep, prop, names=None, kinds=KINDS):
    """one file + one directory per odd name, created through FTPFS; `listdir('/')`, `getinfo`, `isfile` must
    describe what is on disk.  Returns the number of cases.  (C06 runs the CR/LF names — the finding there is
    the raw ValueError —, C10 the others — the finding there is the MLSD listing.)"""
    import os

    n = 0
    for kind in kinds:
        for name in (ODD_NAMES if names is None else names):
            n += 1
            cls = name_case_class(kind, name)
            b = H.make_backend(kind)
            try:
                bad = None
                r = H.apply_op(b.fs, ("writebytes", name, b"12"))
                if r[0] == "err":
                    if r[1] in ("ValueError",) or r[1].startswith("Leak:"):
                        bad = ("leak", "writebytes(%r) raises %r" % (name, r[2]))
                    else:
                        rep.count("ftp-name/%s:%s" % (kind, r[1]))
                        continue
                else:
                    H.apply_op(b.fs, ("makedir", name + "D", False))
                    disk = sorted(os.listdir(b.root))
                    try:
                        ls = sorted(b.fs.listdir("/"))
                    except Exception as e:  # noqa
                        ls = "raises %r" % (e,)
                    if ls != disk:
                        bad = ("listing", "after writebytes(%r) and makedir(%r): listdir('/') = %r, the directory holds %r" % (name, name + "D", ls, disk))
                    elif not (b.fs.isfile(name) and b.fs.isdir(name + "D") and b.fs.getinfo(name).name == name):
                        bad = ("query", "isfile/isdir/getinfo disagree with the listing for %r" % name)
                rep.evaluations += 1
                rep.nontrivial("ftp-name", kind, name)
                if bad is None:
                    rep.count("ftp-name/%s:ok" % kind)
                    continue
                if cls is not None and cls[0] == "limit":
                    rep.count("ftp-name/limit:" + cls[1])
                    continue
                sig = "%s/known/ftpfs-%s" % (prop, cls[1]) if cls is not None and (
                    (cls[1] == "newline-in-path-raw-valueerror") == (bad[0] == "leak")) else "%s/%s/name/%s" % (prop, kind, bad[0])
                rep.violation({"backend": kind, "name": name, "what": bad[1]}, "%s: %s" % (kind, bad[1]), found_input=True, signature=sig)
            finally:
                b.close()
    return n


# ----------------------------------------------------------------------------- C01 / C06 drivers


DIRECTED = [
    # one minimal history per open finding (replayed in every thorough run) + neighbours that must agree
    ([("D", "a")], ("touch", "a")),
    ([("D", "a")], ("create", "a", False)),
    ([("D", "a")], ("create", "a", True)),
    ([("D", "a")], ("writebytes", "a", b"x")),
    ([], ("create", "", True)),
    ([], ("settimes", "b")),
    ([("F", "a", b"1")], ("settimes", "a")),
    ([("D", "a")], ("settimes", "a")),
    ([], ("openbin", "a", "w")),
    ([], ("openbin", "a", "a")),
    ([], ("openbin", "a", "x")),
    ([("F", "a", b"old")], ("openbin", "a", "w")),
    ([("F", "a", b"old")], ("openbin", "a", "w+")),
    ([("F", "a", b"old")], ("openbin", "a", "a")),
    ([("F", "a", b"old")], ("openbin", "a", "x")),
    ([], ("openbin", "a", "w+")),
    ([], ("openbin", "a", "a+")),
    ([], ("openbin", "a", "x+")),
    ([], ("openbin", "d/a", "w+")),
    ([], ("openbin", "a", "r+")),
    ([("F", "b", b"x")], ("makedir", "b", True)),
    ([("F", "b", b"x")], ("makedir", "b", False)),
    ([("F", "b", b"x")], ("makedirs", "b/c", True)),
    ([("F", "b", b"x"), ("D", "c")], ("movedir", "c", "b", False)),
    ([("F", "b", b"x"), ("D", "c")], ("copydir", "c", "b", True)),
    ([("F", "a", b"x"), ("D", "d")], ("copy", "a", "d", True)),
    ([("F", "a", b"x"), ("D", "d")], ("move", "a", "d", True)),
    ([("F", "a", b"x")], ("move", "a", "", True)),
    ([("F", "a", b"0123")], ("appendbytes", "a", b"45")),
    ([("D", "d"), ("F", "d/a", b"0123")], ("removetree", "d")),
    ([("D", "d"), ("F", "d/a", b"0123")], ("movedir", "d", "e", True)),
    ([("D", "d"), ("F", "d/a", b"0123")], ("removedir", "d")),
    ([("D", "d")], ("remove", "d")),
    ([("F", "a", b"x")], ("removedir", "a")),
    ([("F", "a", b"x")], ("listdir", "a")),
    ([("F", "a", b"x")], ("readbytes", "a/b")),
    ([("D", "d")], ("readbytes", "d")),
    ([("F", "a", b"x")], ("isfile", "a/a")),
    ([("F", "a", b"x")], ("getsize", "a/a")),
    ([("F", "a", b"x")], ("exists", "a/b")),
    ([("D", "d"), ("F", "d/a", b"x")], ("exists", "d/a/a")),
]


def directed_steps(counts=None, kinds=KINDS, hid0=5 * 10 ** 6):
    steps, hid = [], hid0
    for kind in kinds:
        for tree, op in DIRECTED:
            steps.append(one_step(kind, tree, op, hid, 0, counts))
            hid += 1
    return steps


def run_ref_level(rep, drv, rng, judge, prop, n_hist, n_ops, n_exh):
    """histories + sampled exhaustive small scope + directed cases on both FTP variants, every step judged by the
    property's own Ref-level judge unless it is an instance of an open FTPFS finding; plus the disk cross-check
    and the odd-name cases.  Returns the steps."""
    import time

    t0 = time.time()
    counts = {}
    steps = collect(n_hist, n_ops, rng, counts)
    steps += exhaustive_sample(rng, n_exh, counts)
    steps += directed_steps(counts)
    kc_of = known_class if prop == "C01" else known_class_c06
    nk = 0
    for s, m in S.with_model(drv, steps):
        rep.count("ftp/steps")
        why = disk_mismatch(s)
        if why and prop == "C01":
            rep.violation(H.step_case(s), "%s.%s%r from tree %r — %s" % (s.kind, s.op[0], s.op[1:], [e[:2] for e in s.pre][:10], why),
                          found_input=True, signature="C01/%s/%s/disk" % (s.kind, s.op[0]))
        if s.note:
            rep.count("ftp/" + s.note.split(":")[0])
        kc = kc_of(s, m)
        if kc:
            nk += 1
            rep.evaluations += 1
            rep.count("ftp/known:" + kc)
            rep.nontrivial(s.kind, s.op, H.enc_tree(s.pre))
            rep.violation(H.step_case(s, model=[list(m[0]), m[1] if prop == "C01" else m[3]]),
                          "%s.%s%r from tree %r: %s vs reference %s" % (s.kind, s.op[0], s.op[1:], [e[:2] for e in s.pre][:10], s.impl[:2], m[0]),
                          found_input=True, signature="%s/known/ftpfs-%s" % (prop, kc))
            continue
        judge(rep, s, m)
    rep.extra["ftp_seconds"] = round(time.time() - t0, 1)
    rep.extra["ftp_steps"] = len(steps)
    rep.extra["ftp_steps_in_known_finding_classes"] = nk
    rep.extra["ftp_connection_errors_retried"] = counts.get("connection-error-retried", 0)
    if prop == "C06":
        rep.extra["ftp_name_cases"] = directed_name_cases(rep, prop, [n for n in ODD_NAMES if "\n" in n or "\r" in n])
    return steps
