"""C07 -- an I/O failure at any point of a move loses no source data.

Correspondence = fault enumeration on the real code.

``FaultFS`` instruments the filesystem classes involved in a move (``FS``, ``MemoryFS``, ``OSFS``
and a pure base-class filesystem ``BaseOnlyFS``), every file object they return and the ``os``
level calls the library makes directly (``os.rename``, ``os.remove``, ``os.rmdir``,
``shutil.copy2``).  Each such call is a *primitive step*.  An un-faulted run numbers the steps
the real code performs -- that numbering, not the model's, defines ``k`` -- then the move is
re-run once per ``k`` and per kind:

  fserr   the step raises ``fs.errors.OperationFailed`` instead of executing
  oserr   the step raises ``OSError(EIO)`` instead of executing
  crash   the process is considered stopped when step ``k`` is reached: the state of both
          filesystems at that moment is what is judged (no handler, no ``finally`` has run)

After each run
  (a) the oracle **NoLoss** is evaluated on the real trees (a failure => found_input=True);
  (b) the failure must have reached the caller (or the move must be complete nevertheless);
  (c) the observed outcome must be one the Lean model (``fault.sweep``) produces for the phase
      the step falls in: 0 = before the copy is complete, 1 = copy complete / source untouched,
      2 = source (partly) removed.  Compared by phase and outcome, not by step trace.
"""
from __future__ import annotations

import errno
import os
import shutil
import tempfile
import threading

import fsharness as H
import vlib
from vlib import hx

EXTRA_PROOF_MODULES = ()
LEANCHECKER_MODULES = ("FsModel.Fault", "FsProofs.Lemmas.FaultLemmas", "FsProofs.Lemmas.FaultMoveLemmas", "FsProofs.C07")

KINDS = ("fserr", "oserr")
MB = 1024 * 1024

# ------------------------------------------------------------------------------------------ FaultFS

FS_PRIMS = (
    "exists", "getinfo", "scandir", "listdir", "isdir", "isfile", "isempty", "getsize", "gettype",
    "openbin", "open", "upload", "download", "makedir", "makedirs", "remove", "removedir",
    "removetree", "setinfo", "copy", "copydir", "move", "movedir", "readbytes", "writebytes",
)
FILE_PRIMS = ("read", "readinto", "readline", "write", "writelines", "close", "flush", "truncate")
REMOVAL = ("remove", "removedir", "removetree", "os.remove", "os.rmdir")


class _Crash(BaseException):
    """never raised through library code: 'crash' is judged from a snapshot (see module doc)"""


class FaultFile(object):
    """Proxy around a file object returned by an instrumented filesystem."""

    def __init__(self, raw, ffs, role, path):
        object.__setattr__(self, "_raw", raw)
        object.__setattr__(self, "_ffs", ffs)
        object.__setattr__(self, "_role", role)
        object.__setattr__(self, "_path", path)
        ffs.files.append(raw)

    def __getattr__(self, name):
        return getattr(self._raw, name)

    def __setattr__(self, name, value):
        setattr(self._raw, name, value)

    def __enter__(self):
        return self

    def __exit__(self, *exc):
        self.close()

    def __iter__(self):
        return iter(self._raw)

    def read(self, *a):
        self._ffs.step("read", self._role, self._path)
        return self._raw.read(*a)

    def readinto(self, b):
        self._ffs.step("readinto", self._role, self._path)
        return self._raw.readinto(b)

    def readline(self, *a):
        self._ffs.step("readline", self._role, self._path)
        return self._raw.readline(*a)

    def write(self, data):
        self._ffs.step("write", self._role, self._path)
        return self._raw.write(data)

    def writelines(self, seq):
        self._ffs.step("writelines", self._role, self._path)
        return self._raw.writelines(seq)

    def flush(self):
        self._ffs.step("flush", self._role, self._path)
        return self._raw.flush()

    def truncate(self, *a):
        self._ffs.step("truncate", self._role, self._path)
        return self._raw.truncate(*a)

    def close(self):
        self._ffs.step("close", self._role, self._path)
        return self._raw.close()


class FaultFS(object):
    """Fault-injecting instrumentation of the source and destination filesystems.

    ``mode``:  "record"  number the steps;
               "fault"   raise at step ``k`` (kind fserr/oserr), after snapshotting;
               "crash"   snapshot at *every* step (one run gives every crash point).
    """

    def __init__(self, roles, observe, mode="record", k=None, kind=None, perturb=None):
        self.perturb = perturb  # random.Random: tiny sleeps at step boundaries vary the worker schedule
        self.roles = roles  # id(fs) -> "src" | "dst" | "both"
        self.observe = observe  # () -> observation of both trees (does not go through hooks)
        self.mode, self.k, self.kind = mode, k, kind
        self.lock = threading.RLock()
        self.tls = threading.local()
        self.count = 0
        self.trace = []  # (idx, name, role, path, thread)
        self.snaps = {}  # idx -> observation when the step was reached
        self.hit = None
        self.files = []
        self._undo = []

    # -- the hook -------------------------------------------------------------------------
    def exempt(self):
        return getattr(self.tls, "exempt", 0) > 0

    def step(self, name, role, path, oslevel=False):
        if self.exempt():
            return
        if self.perturb is not None:
            with self.lock:
                nap = self.perturb.random() < 0.25
            if nap:
                import time

                time.sleep(0.0004)
        with self.lock:
            idx = self.count
            self.count += 1
            self.trace.append((idx, name, role, path, threading.current_thread().name))
            if self.mode == "crash" or (self.mode == "fault" and idx == self.k):
                self.tls.exempt = getattr(self.tls, "exempt", 0) + 1
                try:
                    self.snaps[idx] = self.observe()
                finally:
                    self.tls.exempt -= 1
            if self.mode == "fault" and idx == self.k:
                self.hit = (idx, name, role, path)
                if self.kind == "oserr" or oslevel:
                    raise OSError(errno.EIO, "injected I/O error at step %d (%s)" % (idx, name))
                import fs.errors

                raise fs.errors.OperationFailed(path=str(path), msg="injected failure at step %d (%s)" % (idx, name))

    # -- installation ---------------------------------------------------------------------
    def _role_of(self, obj):
        return self.roles.get(id(obj), "other")

    def _wrap_method(self, cls, name):
        orig = cls.__dict__[name]
        ffs = self

        def wrapper(self_, *a, **kw):
            if ffs.exempt():
                return orig(self_, *a, **kw)
            path = a[0] if a else kw.get("path", kw.get("src_path", ""))
            role = ffs._role_of(self_)
            ffs.step(name, role, path)
            res = orig(self_, *a, **kw)
            if name in ("openbin", "open") and not isinstance(res, FaultFile):
                res = FaultFile(res, ffs, role, path)
            return res

        wrapper.__name__ = name
        wrapper.__doc__ = getattr(orig, "__doc__", None)
        setattr(cls, name, wrapper)
        self._undo.append((cls, name, orig))

    def _wrap_os(self, mod, name, label):
        orig = getattr(mod, name)
        ffs = self

        def wrapper(*a, **kw):
            if not ffs.exempt():
                ffs.step(label, "os", a[0] if a else "", oslevel=True)
            return orig(*a, **kw)

        setattr(mod, name, wrapper)
        self._undo.append((mod, name, orig))

    def __enter__(self):
        import fs.base
        import fs.memoryfs
        import fs.osfs

        classes = [fs.base.FS, fs.memoryfs.MemoryFS, fs.osfs.OSFS, BaseOnlyFS()._cls()]
        for cls in classes:
            for name in FS_PRIMS:
                if name in cls.__dict__:
                    self._wrap_method(cls, name)
        self._wrap_os(os, "rename", "os.rename")
        self._wrap_os(os, "remove", "os.remove")
        self._wrap_os(os, "rmdir", "os.rmdir")
        self._wrap_os(shutil, "copy2", "shutil.copy2")
        return self

    def __exit__(self, *exc):
        for obj, name, orig in reversed(self._undo):
            setattr(obj, name, orig)
        self._undo = []
        return False

    def close_leftovers(self):
        """what the garbage collector does to handles a failed call left open"""
        self.tls.exempt = getattr(self.tls, "exempt", 0) + 1
        try:
            for raw in self.files:
                try:
                    raw.close()
                except Exception:
                    pass
        finally:
            self.tls.exempt -= 1


_BASEONLY = {}


class BaseOnlyFS(object):
    """factory for a filesystem that implements only the seven essential methods (delegating to
    a MemoryFS), so that every other method is the default of ``fs/base.py``"""

    def _cls(self):
        if "cls" in _BASEONLY:
            return _BASEONLY["cls"]
        from fs.base import FS
        from fs.memoryfs import MemoryFS

        class _BaseOnlyFS(FS):
            _meta = {"thread_safe": True, "case_insensitive": False, "invalid_path_chars": "\0", "network": False,
                     "read_only": False, "supports_rename": False, "unicode_paths": True, "virtual": True}

            def __init__(self):
                super(_BaseOnlyFS, self).__init__()
                self.inner = MemoryFS()

            def getinfo(self, path, namespaces=None):
                return self.inner.getinfo(path, namespaces)

            def listdir(self, path):
                return self.inner.listdir(path)

            def makedir(self, path, permissions=None, recreate=False):
                self.inner.makedir(path, permissions, recreate)
                return self.opendir(path)

            def openbin(self, path, mode="r", buffering=-1, **options):
                return self.inner.openbin(path, mode, buffering, **options)

            def remove(self, path):
                self.inner.remove(path)

            def removedir(self, path):
                self.inner.removedir(path)

            def setinfo(self, path, info):
                self.inner.setinfo(path, info)

        _BASEONLY["cls"] = _BaseOnlyFS
        return _BaseOnlyFS

    def new(self):
        return self._cls()()


# ------------------------------------------------------------------------------------------ reading trees
# without going through any lock or hook of the filesystem under test


def _mem_entry(m, path):
    entry = m.root
    for comp in [c for c in path.split("/") if c]:
        d = getattr(entry, "_dir", None)
        if d is None:
            return None
        entry = d.get(comp)
        if entry is None:
            return None
    return entry


def raw_read(f, path):
    """bytes of file ``path`` of filesystem ``f`` or None (missing / a directory)"""
    inner = getattr(f, "inner", None)
    if inner is not None:
        f = inner
    if hasattr(f, "root") and hasattr(f.root, "_dir"):
        e = _mem_entry(f, path)
        if e is None or e.is_dir:
            return None
        return e._bytes_file.getvalue()
    root = f.root_path
    sp = os.path.join(root, *[c for c in path.split("/") if c])
    try:
        if os.path.isdir(sp):
            return None
        with open(sp, "rb") as fh:
            return fh.read()
    except (IOError, OSError):
        return None


def raw_tree(f):
    """[("D", path) | ("F", path, bytes)] of the whole filesystem (parents first)"""
    out = []
    inner = getattr(f, "inner", None)
    if inner is not None:
        f = inner
    if hasattr(f, "root") and hasattr(f.root, "_dir"):
        def rec(entry, prefix):
            for name, e in list(entry._dir.items()):
                p = prefix + "/" + name if prefix else name
                if e.is_dir:
                    out.append(("D", p))
                    rec(e, p)
                else:
                    out.append(("F", p, e._bytes_file.getvalue()))
        rec(f.root, "")
        return out
    root = f.root_path
    for dirpath, dirnames, filenames in os.walk(root):
        dirnames.sort()
        rel = os.path.relpath(dirpath, root)
        rel = "" if rel == "." else rel.replace(os.sep, "/")
        for d in dirnames:
            out.append(("D", (rel + "/" + d) if rel else d))
        for n in sorted(filenames):
            p = (rel + "/" + n) if rel else n
            with open(os.path.join(dirpath, n), "rb") as fh:
                out.append(("F", p, fh.read()))
    out.sort(key=lambda e: (e[1].count("/"), e[1]))
    return out


def enc_store(entries):
    parts = []
    for e in entries:
        if e[0] == "D":
            parts.append("D" + hx(e[1]))
        else:
            parts.append("F" + hx(e[1]) + ":" + hx(e[2]))
    return "S" + ";".join(parts)


# ------------------------------------------------------------------------------------------ scenarios

TREES = {
    # a single file (bytes chosen so that prefixes are distinguishable)
    "single": [("F", "x", b"0123456789abcdef")],
    "empty": [("F", "x", b"")],
    # 3 levels, 6 files, two of them empty
    "tree6": [("F", "a", b"alpha"), ("F", "z", b""), ("D", "e"), ("F", "e/b", b"beta-beta"), ("F", "e/n", b""),
              ("D", "e/g"), ("F", "e/g/c", b"gamma"), ("F", "e/g/d", b"delta-delta-delta"), ("D", "h")],
    # more files than the copier's queue has slots (queue size = number of workers <= 4)
    "many": [("F", "f%02d" % i, (b"%02d-" % i) * (i + 1)) for i in range(9)] + [("D", "s"), ("F", "s/in", b"inner")],
    # three chunks of copy_file_data
    "big": [("F", "x", b"A" * MB + b"B" * MB + b"C" * 7)],
}


class Scenario(object):
    __slots__ = ("op", "src", "dst", "same", "tree", "workers", "pt", "cl", "ow", "cr", "dst_pre")

    def __init__(self, op, src, dst=None, same=False, tree="single", workers=0, pt=False, cl=True, ow=True, cr=True,
                 dst_pre="none"):
        self.op, self.src, self.dst, self.same = op, src, (src if same else dst), same
        self.tree, self.workers, self.pt, self.cl, self.ow, self.cr, self.dst_pre = tree, workers, pt, cl, ow, cr, dst_pre

    def key(self):
        return "%s %s->%s%s tree=%s w=%d pt=%d cl=%d ow=%d cr=%d dst=%s" % (
            self.op, self.src, self.dst, "(same)" if self.same else "", self.tree, self.workers, self.pt, self.cl,
            self.ow, self.cr, self.dst_pre)

    def to_json(self):
        return {k: getattr(self, k) for k in self.__slots__}

    @classmethod
    def from_json(cls, d):
        s = cls(d["op"], d["src"], d.get("dst"), d.get("same", False))
        for k in cls.__slots__:
            if k in d:
                setattr(s, k, d[k])
        return s

    # paths: single-file ops move "d/x" -> "t/y"; directory ops move "d" -> "t" ; move_fs "/" -> "/"
    @property
    def is_file_op(self):
        return self.op in ("move_file", "fs.move")

    @property
    def src_root(self):
        return "" if self.op == "move_fs" else ("d/x" if self.is_file_op else "d")

    @property
    def dst_root(self):
        return "" if self.op == "move_fs" else ("t/y" if self.is_file_op else "t")


def _new_fs(kind):
    from fs.memoryfs import MemoryFS
    from fs.osfs import OSFS

    if kind == "mem":
        return MemoryFS(), None
    if kind == "base":
        return BaseOnlyFS().new(), None
    os.makedirs(H.SCRATCH_ROOT, exist_ok=True)
    d = tempfile.mkdtemp(dir=H.SCRATCH_ROOT)
    return OSFS(d), d


def build(scn):
    """fresh filesystems for one run -> (src_fs, dst_fs, cleanup)"""
    src, sdir = _new_fs(scn.src)
    if scn.same:
        dst, ddir = src, None
    else:
        dst, ddir = _new_fs(scn.dst)
    base = "" if scn.op == "move_fs" else "d"
    if base:
        src.makedir(base)
    for e in TREES[scn.tree]:
        p = (base + "/" + e[1]) if base else e[1]
        if e[0] == "D":
            src.makedir(p)
        else:
            src.writebytes(p, e[2])
    if base:
        src.writebytes("keep", b"unrelated")
    # destination side
    if scn.op != "move_fs":
        if scn.is_file_op:
            dst.makedir("t")
            if scn.dst_pre == "file":
                dst.writebytes("t/y", b"old destination content")
        else:
            if scn.dst_pre == "dir":
                dst.makedir("t")
                dst.writebytes("t/old", b"old")
            elif scn.dst_pre == "none" and not scn.cr:
                dst.makedir("t")

    def cleanup():
        for f in (src, dst):
            try:
                f.close()
            except Exception:
                pass
        for d in (sdir, ddir):
            if d:
                shutil.rmtree(d, ignore_errors=True)

    return src, dst, cleanup


def call(scn, src, dst):
    import fs.move

    if scn.op == "move_file":
        fs.move.move_file(src, scn.src_root, dst, scn.dst_root, preserve_time=scn.pt, cleanup_dst_on_error=scn.cl)
    elif scn.op == "move_dir":
        fs.move.move_dir(src, scn.src_root, dst, scn.dst_root, workers=scn.workers, preserve_time=scn.pt)
    elif scn.op == "move_fs":
        fs.move.move_fs(src, dst, workers=scn.workers, preserve_time=scn.pt)
    elif scn.op == "fs.move":
        src.move(scn.src_root, scn.dst_root, overwrite=scn.ow, preserve_time=scn.pt)
    elif scn.op == "fs.movedir":
        src.movedir(scn.src_root, scn.dst_root, create=scn.cr, preserve_time=scn.pt)
    else:
        raise ValueError(scn.op)


def src_files(scn):
    """source path -> (bytes, destination path) for every file of the moved subtree"""
    out = {}
    for e in TREES[scn.tree]:
        if e[0] != "F":
            continue
        if scn.is_file_op:
            out[scn.src_root] = (e[2], scn.dst_root)
        else:
            sp = (scn.src_root + "/" + e[1]) if scn.src_root else e[1]
            dp = (scn.dst_root + "/" + e[1]) if scn.dst_root else e[1]
            out[sp] = (e[2], dp)
    return out


class Obs(object):
    """the observables of C07 on the real trees"""
    __slots__ = ("src_intact", "dst_complete", "no_loss", "lost")

    def __init__(self, files, src, dst):
        self.src_intact = self.dst_complete = self.no_loss = True
        self.lost = []
        for sp, (data, dp) in files.items():
            at_src = raw_read(src, sp) == data
            at_dst = raw_read(dst, dp) == data
            self.src_intact &= at_src
            self.dst_complete &= at_dst
            if not (at_src or at_dst):
                self.no_loss = False
                self.lost.append(sp)

    @property
    def phase(self):
        return 2 if not self.src_intact else (1 if self.dst_complete else 0)

    def tup(self):
        return (int(self.src_intact), int(self.dst_complete), int(self.no_loss))


def exc_class(e):
    import fs.errors

    if e is None:
        return "ok"
    if isinstance(e, fs.errors.FSError):
        return type(e).__name__
    if isinstance(e, OSError):
        return "OSError"
    return "other:" + type(e).__name__


class RunResult(object):
    __slots__ = ("exc", "obs", "ffs", "hung")


def run_once(scn, mode, k=None, kind=None, perturb=None):
    src, dst, cleanup = build(scn)
    files = src_files(scn)
    roles = {id(src): "both" if scn.same else "src", id(dst): "both" if scn.same else "dst"}
    for f, r in ((src, "src"), (dst, "dst")):
        inner = getattr(f, "inner", None)
        if inner is not None:
            roles[id(inner)] = roles[id(f)]
    res = RunResult()
    res.hung = False
    ffs = FaultFS(roles, lambda: Obs(files, src, dst), mode, k, kind, perturb)
    res.ffs = ffs
    pre = (raw_tree(src), [] if scn.same else raw_tree(dst))
    try:
        with ffs:
            try:
                H.with_watchdog(lambda: call(scn, src, dst), 30)
                res.exc = None
            except H.Timeout:
                res.exc = None
                res.hung = True
            except Exception as e:  # noqa: BLE001 - whatever reaches the caller is the observation
                res.exc = e
        ffs.close_leftovers()
        res.obs = Obs(files, src, dst)
    finally:
        cleanup()
    return res, pre


# ------------------------------------------------------------------------------------------ model side


_PROBE = {}


def probe_pt_after_atomic():
    """does the real code still call copy_modified_time(src, ...) after an atomic move (rename /
    re-link), i.e. when the source is gone?  Selects the model variant (Cfg.ptAfterAtomic)."""
    if "pta" not in _PROBE:
        from fs.memoryfs import MemoryFS
        import fs.errors

        m = MemoryFS()
        m.writebytes("a", b"x")
        try:
            m.move("a", "b", preserve_time=True)
            _PROBE["pta"] = False
        except fs.errors.ResourceNotFound:
            _PROBE["pta"] = True
        finally:
            m.close()
    return _PROBE["pta"]


def model_cfg(scn):
    op = {"move_file": "movefile", "move_dir": "movedir", "move_fs": "movefs"}.get(scn.op)
    if scn.op == "fs.move":
        op = "memmove" if scn.src == "mem" else "fsmove"
    if scn.op == "fs.movedir":
        op = "memmovedir" if scn.src == "mem" else "fsmovedir"
    same = scn.same or scn.op in ("fs.move", "fs.movedir")
    return ",".join([
        "op=" + op, "same=%d" % int(same), "src=" + scn.src, "dst=" + scn.dst, "pt=%d" % int(scn.pt),
        "cl=%d" % int(scn.cl), "ow=%d" % int(scn.ow), "cr=%d" % int(scn.cr), "pta=%d" % int(probe_pt_after_atomic()),
        "chunk=%d" % MB,
        "sp=" + hx(scn.src_root), "dp=" + hx(scn.dst_root)])


class Model(object):
    """what ``fault.sweep`` says: the un-faulted outcome and, per (phase, kind), the set of
    outcomes (out class, src_intact, dst_complete) of a failure injected in that phase"""

    def __init__(self, line):
        if not line.startswith("ok "):
            raise vlib.Infra("fault.sweep: " + line[:200])
        parts = line.split(" ")
        kv = dict(p.split("=", 1) for p in parts[1:6])
        self.base_out = kv["base"]
        self.base_obs = (int(kv["src_intact"]), int(kv["dst_complete"]), int(kv["no_loss"]))
        self.n = int(kv["n"])
        self.allowed = {}
        self.steps = []
        self.bad = []
        body = parts[6] if len(parts) > 6 else ""
        for rec in body.split(";") if body else []:
            k, kind, name, side, ph, out, hit, si, dc, nl = self._split(rec)
            ph, si, dc, nl = int(ph), int(si), int(dc), int(nl)
            outc = "raised" if out.startswith("raised") else out
            self.allowed.setdefault((ph, kind), set()).add((outc, si, dc if ph > 0 or outc != "raised" else None))
            if kind == "crash":
                self.steps.append((int(k), name, side, ph))
            if not nl:
                self.bad.append(rec)

    @staticmethod
    def _split(rec):
        # "raised:<Class>" contains a colon: k:kind:name:side:phase:raised:<Class>:hit:si:dc:nl
        f = rec.split(":")
        # name may itself contain no colon; out is f[5] (+ f[6] when raised)
        if f[5] == "raised":
            return f[0], f[1], f[2], f[3], f[4], "raised:" + f[6], f[7], f[8], f[9], f[10]
        return f[0], f[1], f[2], f[3], f[4], f[5], f[6], f[7], f[8], f[9]


def ask_model(drv, scn, pre):
    req = "fault.sweep %s %s %s" % (model_cfg(scn), enc_store(pre[0]), enc_store(pre[1]))
    return Model(drv.batch([req])[0])


# ------------------------------------------------------------------------------------------ judging


def classify(exc):
    return "ok" if exc is None else "raised"


_SEEN_SIG = {}
MAX_PER_SIGNATURE = 4


class _Capped(object):
    """report at most MAX_PER_SIGNATURE violations per (signature, scenario); count the rest"""

    def __init__(self, rep):
        self._rep = rep

    def __getattr__(self, name):
        return getattr(self._rep, name)

    def __setattr__(self, name, value):
        if name == "_rep":
            object.__setattr__(self, name, value)
        else:
            setattr(self._rep, name, value)

    def violation(self, case, note, found_input=True, signature=None):
        key = (signature, (case.get("scenario") or {}).get("op") if isinstance(case, dict) else None)
        n = _SEEN_SIG.get(key, 0)
        _SEEN_SIG[key] = n + 1
        if n >= MAX_PER_SIGNATURE and self._rep.violations:
            self._rep.count("suppressed-repeat:" + str(signature))
            return False
        return self._rep.violation(case, note, found_input=found_input, signature=signature)


def judge_scenario(rep, drv, scn, stride=1, offset=0, counters=None, perturb=None):
    rep = _Capped(rep)
    return _judge_scenario(rep, drv, scn, stride, offset, counters, perturb)


def _judge_scenario(rep, drv, scn, stride=1, offset=0, counters=None, perturb=None):
    """baseline + crash sweep + fault sweep of one scenario.  Returns number of injected runs."""
    key = scn.key()
    case0 = {"scenario": scn.to_json()}
    injected = 0

    # -- un-faulted run: numbers the steps
    base, pre = run_once(scn, "record")
    n = base.ffs.count
    trace = base.ffs.trace
    rep.programs += 1
    rep.count("scenario:" + scn.op)
    model = ask_model(drv, scn, pre)
    rep.disagreements_checked += 1
    if model.bad:
        rep.violation(dict(case0, model_records=model.bad[:5]),
                      "the Lean model itself loses data in %s (theorem move_*_fault_safe would be false): %s" % (key, model.bad[:2]),
                      found_input=False, signature="C07/model-noloss")
    if base.hung:
        rep.violation(case0, "un-faulted %s did not return within 30 s" % key, found_input=True, signature="C07/hang")
        return 0
    # the un-faulted real run and the un-faulted model run must agree
    real_base = ("ok" if base.exc is None else "raised:" + exc_class(base.exc), base.obs.tup())
    want_base = (model.base_out, model.base_obs)
    if not base.obs.no_loss:
        rep.violation(dict(case0, lost=base.obs.lost), "un-faulted %s loses %s" % (key, base.obs.lost),
                      found_input=True, signature="C07/noloss-unfaulted")
    if (classify(base.exc), real_base[1]) != (("ok" if want_base[0] == "ok" else "raised"), want_base[1]) or (
            base.exc is not None and want_base[0] != real_base[0]):
        rep.violation(dict(case0, real=repr(real_base), model=repr(want_base)),
                      "un-faulted run of %s: real %r, model %r" % (key, real_base, want_base), found_input=False,
                      signature="C07/base-mismatch")
    rep.nontrivial("base", key, real_base)

    # -- crash points: one un-faulted run, the state is judged every time a step is reached
    crash, _ = run_once(scn, "crash", perturb=perturb)
    for idx in sorted(crash.ffs.snaps):
        o = crash.ffs.snaps[idx]
        rep.evaluations += 1
        injected += 1
        rep.count("crash:phase%d" % o.phase)
        step = crash.ffs.trace[idx]
        if not o.no_loss:
            rep.violation(dict(case0, k=idx, kind="crash", step=list(step[1:4]), lost=o.lost),
                          "process stopped at step %d (%s %s %r) of %s: %s neither intact at the source nor complete at the destination"
                          % (idx, step[1], step[2], step[3], key, o.lost), found_input=True, signature="C07/noloss-crash")
        allowed = model.allowed.get((o.phase, "crash"))
        if allowed is None:
            rep.violation(dict(case0, k=idx, kind="crash", step=list(step[1:4]), phase=o.phase),
                          "a step of %s is reached in phase %d (%s) which the model never reaches at a step boundary: %s"
                          % (key, o.phase, o.tup(), step[1:4]), found_input=False, signature="C07/phase-unknown")
        rep.nontrivial("crash", key, o.phase, step[1], step[2])

    # -- injected failures: one run per (k, kind)
    ks = [k for k in range(n) if (k + offset) % stride == 0]
    for k in ks:
        for kind in KINDS:
            name = trace[k][1]
            if (name.startswith("os.") or name.startswith("shutil.")) and kind == "fserr":
                continue  # os-level calls fail with OSError only
            r, _ = run_once(scn, "fault", k, kind, perturb=perturb)
            injected += 1
            rep.evaluations += 1
            case = dict(case0, k=k, kind=kind)
            if r.hung:
                rep.violation(case, "%s with step %d (%s) failing did not return within 30 s" % (key, k, name),
                              found_input=True, signature="C07/hang")
                continue
            if r.ffs.hit is None:
                # only possible with worker threads (the schedule changed the number of steps)
                rep.count("not-reached")
                continue
            hit = r.ffs.hit
            o0 = r.ffs.snaps[hit[0]]
            phase = o0.phase
            rep.count("%s:phase%d:%s" % (kind, phase, exc_class(r.exc)))
            case["step"] = list(hit[1:])
            # (a) the property itself
            if not r.obs.no_loss:
                rep.violation(dict(case, lost=r.obs.lost, raised=exc_class(r.exc)),
                              "%s with step %d (%s on %s %r) raising %s: %s neither intact at the source nor complete at the destination (call %s)"
                              % (key, k, hit[1], hit[2], hit[3], kind, r.obs.lost,
                                 "returned" if r.exc is None else "raised " + exc_class(r.exc)),
                              found_input=True, signature="C07/noloss")
                continue
            # (b) the failure reaches the caller, or the move is complete nevertheless
            if r.exc is None and not r.obs.dst_complete:
                rep.violation(dict(case, obs=r.obs.tup()),
                              "%s: the failure of step %d (%s on %s %r, %s) was swallowed: the call returned although the move is incomplete"
                              % (key, k, hit[1], hit[2], hit[3], kind), found_input=True, signature="C07/swallowed")
                continue
            # the property demands that the failure is *reported*: a swallowed failure of a step on a
            # file object (read / write / close) is a violation even when this backend happens to hold
            # the complete data (on a real filesystem a failed close means the data may not be there).
            # The one documented exception is the rename attempt, whose failure falls back to a copy.
            if r.exc is None and hit[1] in ("read", "write", "close", "readinto", "flush"):
                rep.violation(dict(case, obs=r.obs.tup()),
                              "%s: the failure of step %d (%s on %s %r, %s) was not reported: the call returned normally"
                              % (key, k, hit[1], hit[2], hit[3], kind), found_input=True, signature="C07/not-reported")
                continue
            if r.exc is not None and exc_class(r.exc).startswith("other:"):
                rep.count("foreign-exception:" + exc_class(r.exc))
            # (c) the outcome is one the model produces for this phase
            outc = classify(r.exc)
            obs = (outc, int(r.obs.src_intact), int(r.obs.dst_complete) if (phase > 0 or outc != "raised") else None)
            # os.remove / os.rmdir run inside OSFS's convert_os_errors: their OSError surfaces as an
            # FSError of the enclosing FS call, which is the step the model has
            mkind = "fserr" if hit[1] in ("os.remove", "os.rmdir") else kind
            allowed = model.allowed.get((phase, mkind))
            if allowed is None or obs not in allowed:
                rep.violation(dict(case, phase=phase, observed=repr(obs), allowed=repr(sorted(allowed, key=repr) if allowed else None)),
                              "%s: step %d (%s on %s %r) failing with %s in phase %d gave %r; the model allows %r"
                              % (key, k, hit[1], hit[2], hit[3], kind, phase, obs, sorted(allowed, key=repr) if allowed else None),
                              found_input=False, signature="C07/outcome-not-in-model")
            rep.nontrivial("fault", key, kind, phase, hit[1], hit[2], obs)
    if counters is not None:
        counters["steps"] = counters.get("steps", 0) + n
        counters["model_steps"] = counters.get("model_steps", 0) + model.n
    return injected


# ------------------------------------------------------------------------------------------ composite backends
# MultiFS (a writable layer shadowing stale copies in a lower layer), MountFS (two mounts), SubFS views and
# WrapFS: the primitives of the MEMBERS are the steps (the hooks sit on FS / MemoryFS / OSFS); the Lean
# model has no composites, so this phase is decided by the property's oracle alone (NoLoss; a failure is
# reported unless the move is complete nevertheless).  workers = 0: the observation goes through the
# composite's own read path, which takes its locks.

OLD = b"STALE copy in the lower layer"
CDATA = {"d/x": b"x" * 70000, "d/s/y": b"why", "d/z": b""}


def _comp_read(f, path):
    try:
        return f.readbytes(path)
    except Exception:  # noqa
        return None


class CObs(object):
    def __init__(self, files, src, dst):
        self.src_intact = self.dst_complete = self.no_loss = True
        self.lost = []
        for sp, (data, dp) in files.items():
            a, b = _comp_read(src, sp) == data, _comp_read(dst, dp) == data
            self.src_intact &= a
            self.dst_complete &= b
            if not (a or b):
                self.no_loss = False
                self.lost.append(sp)

    def tup(self):
        return (int(self.src_intact), int(self.dst_complete), int(self.no_loss))


def _composite_configs(quick):
    import fs.move
    from fs.memoryfs import MemoryFS
    from fs.multifs import MultiFS
    from fs.mountfs import MountFS
    from fs.wrapfs import WrapFS

    def fill(f, base=""):
        f.makedirs(base + "d/s", recreate=True)
        for q, data in CDATA.items():
            f.writebytes(base + q, data)
        f.makedirs(base + "t", recreate=True)

    def multi():
        lower, upper, other = MemoryFS(), MemoryFS(), MemoryFS()
        lower.makedirs("d/s")
        for q in CDATA:
            lower.writebytes(q, OLD)
        fill(upper)
        m = MultiFS()
        m.add_fs("lower", lower, priority=1)
        m.add_fs("upper", upper, write=True, priority=9)
        other.makedir("t")
        return m, other, [lower, upper, other, m]

    def mount():
        a, b = MemoryFS(), MemoryFS()
        fill(a)
        b.makedir("t")
        mf = MountFS()
        mf.mount("m1", a)
        mf.mount("m2", b)
        return mf, mf, [a, b, mf]

    def sub(kind):
        def mk():
            parent, d = _new_fs(kind)
            parent.makedirs("A")
            parent.makedirs("B/t")
            fill(parent, "A/")
            return parent.opendir("A"), parent.opendir("B"), [parent], d
        return mk

    def wrap():
        inner, other = MemoryFS(), MemoryFS()
        fill(inner)
        other.makedir("t")
        return WrapFS(inner), WrapFS(other), [inner, other]

    files_dir = lambda sroot, droot: {(sroot + q[1:]): (data, droot + q[1:]) for q, data in CDATA.items()}  # noqa: E731
    cfgs = []
    # (name, builder, [(opname, call(src,dst), files)])
    cfgs.append(("multi-shadow", multi, [
        ("FS.move", lambda s, d: s.move("d/x", "t/y"), {"d/x": (CDATA["d/x"], "t/y")}, "same"),
        ("FS.move+pt", lambda s, d: s.move("d/x", "t/y", preserve_time=True), {"d/x": (CDATA["d/x"], "t/y")}, "same"),
        ("FS.movedir", lambda s, d: s.movedir("d", "t2", create=True), files_dir("d", "t2"), "same"),
        ("move_file", lambda s, d: fs.move.move_file(s, "d/x", d, "t/y"), {"d/x": (CDATA["d/x"], "t/y")}, "other"),
        ("move_dir", lambda s, d: fs.move.move_dir(s, "d", d, "t"), files_dir("d", "t"), "other"),
    ]))
    cfgs.append(("mount", mount, [
        ("FS.move across mounts", lambda s, d: s.move("m1/d/x", "m2/t/y"), {"m1/d/x": (CDATA["d/x"], "m2/t/y")}, "same"),
        ("FS.move inside a mount", lambda s, d: s.move("m1/d/x", "m1/t/y"), {"m1/d/x": (CDATA["d/x"], "m1/t/y")}, "same"),
        ("FS.movedir across mounts", lambda s, d: s.movedir("m1/d", "m2/t"), files_dir("m1/d", "m2/t"), "same"),
        ("move_dir across mounts", lambda s, d: fs.move.move_dir(s, "m1/d", d, "m2/t"), files_dir("m1/d", "m2/t"), "same"),
    ]))
    for kind in (("mem",) if quick else ("mem", "os")):
        cfgs.append(("sub-" + kind, sub(kind), [
            ("move_file between views", lambda s, d: fs.move.move_file(s, "d/x", d, "t/y"), {"d/x": (CDATA["d/x"], "t/y")}, "other"),
            ("move_dir between views", lambda s, d: fs.move.move_dir(s, "d", d, "t"), files_dir("d", "t"), "other"),
            ("FS.move in a view", lambda s, d: s.move("d/x", "t/y"), {"d/x": (CDATA["d/x"], "t/y")}, "same"),
            ("FS.movedir in a view", lambda s, d: s.movedir("d", "t"), files_dir("d", "t"), "same"),
        ]))
    cfgs.append(("wrap", wrap, [
        ("FS.move", lambda s, d: s.move("d/x", "t/y"), {"d/x": (CDATA["d/x"], "t/y")}, "same"),
        ("FS.movedir", lambda s, d: s.movedir("d", "t"), files_dir("d", "t"), "same"),
        ("move_file", lambda s, d: fs.move.move_file(s, "d/x", d, "t/y"), {"d/x": (CDATA["d/x"], "t/y")}, "other"),
    ]))
    return cfgs


def _composite_run(builder, fn, files, where, mode, k=None, kind=None):
    built = builder()
    src, dst, members = built[0], built[1], built[2]
    scratch = built[3] if len(built) > 3 else None
    if where == "same":
        dst = src
    ffs = FaultFS({}, lambda: CObs(files, src, dst), mode, k, kind)
    exc = None
    hung = False
    try:
        with ffs:
            try:
                H.with_watchdog(lambda: fn(src, dst), 30)
            except H.Timeout:
                hung = True
            except Exception as e:  # noqa
                exc = e
        ffs.close_leftovers()
        obs = CObs(files, src, dst)
    finally:
        for f in members:
            try:
                f.close()
            except Exception:  # noqa
                pass
        if scratch:
            shutil.rmtree(scratch, ignore_errors=True)
    return ffs, exc, obs, hung


def composite_phase(rep, quick, only=None):
    n = 0
    for cname, builder, ops in _composite_configs(quick):
        for opname, fn, files, where in ops:
            if only and only != [cname, opname]:
                continue
            base, exc0, obs0, hung = _composite_run(builder, fn, files, where, "record")
            case0 = {"composite": [cname, opname]}
            rep.programs += 1
            rep.count("composite:" + cname)
            if hung or exc0 is not None or not obs0.dst_complete:
                rep.violation(dict(case0, raised=exc_class(exc0), obs=obs0.tup()),
                              "un-faulted %s on %s: %s, observables %s" % (opname, cname, "hung" if hung else exc_class(exc0), obs0.tup()),
                              found_input=True, signature="C07/composite/base")
                continue
            for k in range(base.count):
                for kind in KINDS:
                    name = base.trace[k][1]
                    if (name.startswith("os.") or name.startswith("shutil.")) and kind == "fserr":
                        continue
                    ffs, exc, obs, hung = _composite_run(builder, fn, files, where, "fault", k, kind)
                    n += 1
                    rep.evaluations += 1
                    if ffs.hit is None:
                        rep.count("not-reached")
                        continue
                    hit = ffs.hit
                    case = dict(case0, k=k, kind=kind, step=[str(x) for x in hit[1:]])
                    rep.nontrivial("composite", cname, opname, kind, hit[1], exc_class(exc), obs.tup())
                    rep.count("composite:%s:%s" % (kind, exc_class(exc)))
                    what = "%s on %s with step %d (%s %r) raising %s" % (opname, cname, k, hit[1], hit[3], kind)
                    if hung:
                        rep.violation(case, what + ": did not return within 30 s", found_input=True, signature="C07/composite/hang")
                    elif not obs.no_loss:
                        rep.violation(dict(case, lost=obs.lost, raised=exc_class(exc)),
                                      "%s: %s neither intact at the source nor complete at the destination (call %s)"
                                      % (what, obs.lost, "returned" if exc is None else "raised " + exc_class(exc)),
                                      found_input=True, signature="C07/composite/noloss")
                    elif exc is None and not obs.dst_complete:
                        rep.violation(dict(case, obs=obs.tup()), what + ": the failure was swallowed, the call returned although the move is incomplete",
                                      found_input=True, signature="C07/composite/swallowed")
                    elif exc is None and hit[1] in ("read", "write", "close", "readinto", "flush"):
                        rep.violation(dict(case, obs=obs.tup()), what + ": the failure was not reported, the call returned normally",
                                      found_input=True, signature="C07/composite/not-reported")
    rep.extra["composite_injected_runs"] = n
    return n


# ------------------------------------------------------------------------------------------ scenario lists

PAIRS = [("mem", "mem", False), ("os", "os", False), ("mem", "os", False), ("os", "mem", False), ("mem", None, True),
         ("os", None, True), ("base", "mem", False), ("base", None, True)]


def all_scenarios(tier):
    quick = tier == "quick"
    out = []
    # ---- move_file ------------------------------------------------------------------------
    for src, dst, same in PAIRS:
        for pt in (False, True):
            for cl in (True, False):
                if same and not cl:
                    continue
                for tree in ("single", "empty"):
                    out.append(Scenario("move_file", src, dst, same, tree=tree, pt=pt, cl=cl))
        out.append(Scenario("move_file", src, dst, same, tree="single", dst_pre="file"))
    out.append(Scenario("move_file", "mem", "mem", False, tree="big"))
    out.append(Scenario("move_file", "mem", "os", False, tree="big", pt=True))
    # ---- FS.move --------------------------------------------------------------------------
    for kind in ("mem", "os", "base"):
        for pt in (False, True):
            for ow in (True, False):
                out.append(Scenario("fs.move", kind, None, True, tree="single", pt=pt, ow=ow))
        out.append(Scenario("fs.move", kind, None, True, tree="single", ow=True, dst_pre="file"))
        out.append(Scenario("fs.move", kind, None, True, tree="single", ow=False, dst_pre="file"))
        out.append(Scenario("fs.move", kind, None, True, tree="empty"))
    out.append(Scenario("fs.move", "base", None, True, tree="big"))
    # ---- move_dir / move_fs ---------------------------------------------------------------
    for src, dst, same in PAIRS:
        for tree in ("tree6", "many"):
            for workers in (0, 1, 2, 4):
                for pt in (False, True):
                    out.append(Scenario("move_dir", src, dst, same, tree=tree, workers=workers, pt=pt))
        out.append(Scenario("move_dir", src, dst, same, tree="tree6", dst_pre="dir"))
        if not same:
            for workers in (0, 2):
                out.append(Scenario("move_fs", src, dst, False, tree="tree6", workers=workers))
            out.append(Scenario("move_fs", src, dst, False, tree="many", workers=4, pt=True))
    # ---- FS.movedir -----------------------------------------------------------------------
    for kind in ("mem", "os", "base"):
        for pt in (False, True):
            out.append(Scenario("fs.movedir", kind, None, True, tree="tree6", pt=pt))
        out.append(Scenario("fs.movedir", kind, None, True, tree="tree6", dst_pre="dir"))
        out.append(Scenario("fs.movedir", kind, None, True, tree="many", cr=False))
    return out


QUICK_CORE = [
    # exhaustive in quick: one of each code path
    Scenario("move_file", "mem", "mem", False, tree="single", pt=True, cl=True),
    Scenario("move_file", "mem", "os", False, tree="single", cl=False),
    Scenario("move_file", "os", "mem", False, tree="single", cl=True),
    Scenario("move_file", "os", "os", False, tree="single", pt=True),
    Scenario("move_file", "mem", None, True, tree="single"),
    Scenario("move_file", "os", None, True, tree="single"),
    Scenario("move_file", "base", "mem", False, tree="empty"),
    Scenario("fs.move", "mem", None, True, tree="single", ow=False),
    Scenario("fs.move", "os", None, True, tree="single", pt=True),
    Scenario("fs.move", "base", None, True, tree="single", ow=True, dst_pre="file"),
    Scenario("fs.movedir", "mem", None, True, tree="tree6"),
]
QUICK_SAMPLED = [
    # (scenario, stride): stride-sampled k in quick (exhaustive in thorough)
    (Scenario("move_dir", "mem", "mem", False, tree="tree6", workers=0, pt=True), 1),
    (Scenario("move_dir", "os", "mem", False, tree="tree6", workers=2), 1),
    (Scenario("move_dir", "mem", "os", False, tree="many", workers=4), 1),
    (Scenario("move_dir", "os", "os", False, tree="tree6", workers=1, pt=True), 1),
    (Scenario("move_dir", "base", "mem", False, tree="tree6", workers=0), 2),
    (Scenario("move_dir", "mem", None, True, tree="tree6", workers=0), 1),
    (Scenario("move_fs", "mem", "os", False, tree="tree6", workers=2), 1),
    (Scenario("fs.movedir", "os", None, True, tree="tree6", pt=True), 1),
    (Scenario("fs.movedir", "base", None, True, tree="tree6", dst_pre="dir"), 3),
    (Scenario("fs.movedir", "mem", None, True, tree="many", dst_pre="dir"), 2),
    (Scenario("move_file", "base", None, True, tree="big"), 1),
]


def known_regression(rep):
    """the open known finding: a same-filesystem directory move onto an ancestor with a name clash
    loses data without any fault (theorem move_dir_same_fs_clash_counterexample)"""
    from fs.memoryfs import MemoryFS

    m = MemoryFS()
    m.makedirs("a/a")
    m.writebytes("a/a/x", b"data")
    try:
        m.movedir("a", "/")
        raised = None
    except Exception as e:  # noqa: BLE001
        raised = type(e).__name__
    lost = raw_read(m, "a/a/x") != b"data" and raw_read(m, "a/x") != b"data"
    rep.evaluations += 1
    if lost:
        rep.violation({"backend": "mem", "pre_tree": [["D", "a"], ["D", "a/a"], ["F", "a/a/x", "data"]],
                       "op": ["movedir", "a", "", False], "raised": raised},
                      "movedir('a', '/') with a/a/x present loses a/a/x without any fault", found_input=True,
                      signature="C07/known/movedir-dst-ancestor-of-src-name-clash")


def _load_proposed_findings(rep):
    """open findings proposed by this package (findings/known_findings_additions.json) count as
    known until they are merged into known_findings.json"""
    import json

    path = os.path.join(vlib.VERIF, "findings", "known_findings_additions.json")
    if os.path.exists(path):
        have = set(f["signature"] for f in rep.open_findings)
        for f in json.load(open(path)):
            if f.get("property") == rep.prop_id and f["signature"] not in have:
                rep.open_findings.append(f)


def run(rep, tier, seed, deep=False):
    _load_proposed_findings(rep)
    drv = vlib.Driver()
    rng = vlib.rng_for(seed, "c07")
    quick = tier == "quick" and not deep
    rep.rule = ("every primitive call (FS methods %s; file-object %s; os.rename/os.remove/os.rmdir/shutil.copy2) of an un-faulted run of "
                "move_file / move_dir / move_fs / FS.move / FS.movedir is failed once with OperationFailed, once with OSError, and judged once as a "
                "crash point; backends mem/os/base-class-only, pairs %s, trees %s, workers 0/1/2/4, preserve_time, cleanup_dst_on_error, "
                "overwrite, existing destination; quick: exhaustive k on the small scenarios, stride-sampled k (seed-dependent offset) on the "
                "directory scenarios; thorough: exhaustive k everywhere; distinct = distinct (scenario, kind, phase, step name, role, outcome)"
                % ("/".join(FS_PRIMS[:6]) + "/...", "/".join(FILE_PRIMS[:4]) + "/...",
                   ["%s->%s" % (a, b or a + "(same)") for a, b, _ in PAIRS], sorted(TREES)))
    rep.assumptions = [
        "a failed primitive has no effect (atomic failure); the late-failure variant is proved separately in Lean "
        "(move_file_late_failure_cleanup_counterexample) and not injected on the real code",
        "os.rename is atomic; durability (fsync, page cache) is out of scope: a crash point is the state visible through the OS at that moment",
        "with workers > 0 the Lean theorem takes C09's bulk_error_never_hidden as hypothesis; the real runs compare against the workers=0 model by phase",
        "source and destination are not two views of one storage beyond disjoint SubFS views (aliased roots are C05's)",
        "composite backends (MultiFS with a shadowed lower layer, MountFS, SubFS views, WrapFS) are outside the Lean model: "
        "every member-level primitive of their moves is failed once per kind (workers=0) and judged by the oracle alone",
    ]
    counters = {}
    injected = 0
    try:
        known_regression(rep)
        injected += composite_phase(rep, quick)
        if quick:
            for scn in QUICK_CORE:
                injected += judge_scenario(rep, drv, scn, counters=counters)
            for scn, stride in QUICK_SAMPLED:
                injected += judge_scenario(rep, drv, scn, stride=stride, offset=rng.randrange(stride), counters=counters)
        else:
            scns = all_scenarios(tier)
            budget = 40000 * (3 if deep else 1)
            for scn in QUICK_CORE + [s for s, _ in QUICK_SAMPLED]:
                injected += judge_scenario(rep, drv, scn, counters=counters)
            rng.shuffle(scns)
            seen = set(s.key() for s in QUICK_CORE + [s for s, _ in QUICK_SAMPLED])
            for scn in scns:
                if injected >= budget:
                    break
                if scn.key() in seen:
                    continue
                seen.add(scn.key())
                injected += judge_scenario(rep, drv, scn, counters=counters)
                if scn.workers > 0 and rng.random() < 0.5:
                    # the same sweep again under a perturbed worker schedule
                    rep.count("perturbed-schedule-sweeps")
                    injected += judge_scenario(rep, drv, scn, stride=2, offset=rng.randrange(2), counters=counters,
                                               perturb=vlib.rng_for(seed, "c07-perturb-" + scn.key()))
        rep.extra["injected_runs"] = injected
        rep.extra["real_steps_numbered"] = counters.get("steps", 0)
        rep.extra["model_steps"] = counters.get("model_steps", 0)
        rep.sample({"scenario": QUICK_CORE[0].key(), "steps": "numbered from the real un-faulted run"})
    finally:
        H.cleanup_scratch()


def replay(rep, case):
    _load_proposed_findings(rep)
    c = case["case"]
    if "composite" in c:
        try:
            composite_phase(rep, False, only=list(c["composite"]))
        finally:
            H.cleanup_scratch()
        return 1 if rep.violations else 0
    if "scenario" not in c:
        known_regression(rep)
        return 1 if rep.violations else 0
    drv = vlib.Driver()
    scn = Scenario.from_json(c["scenario"])
    try:
        if "k" not in c:
            judge_scenario(rep, drv, scn)
        elif c["kind"] == "crash":
            r, _ = run_once(scn, "crash")
            o = r.ffs.snaps.get(c["k"])
            print("crash point %s of %s: step %s observables(src_intact,dst_complete,no_loss)=%s" % (
                c["k"], scn.key(), r.ffs.trace[c["k"]][1:4] if c["k"] < len(r.ffs.trace) else None, o.tup() if o else None))
            if o is not None and not o.no_loss:
                rep.violation(c, "replayed: data lost at crash point %s: %s" % (c["k"], o.lost), found_input=True)
        else:
            r, _ = run_once(scn, "fault", c["k"], c["kind"])
            print("%s step %s kind %s: hit=%s call %s; observables(src_intact,dst_complete,no_loss)=%s" % (
                scn.key(), c["k"], c["kind"], r.ffs.hit, "returned" if r.exc is None else "raised " + exc_class(r.exc), r.obs.tup()))
            if not r.obs.no_loss:
                rep.violation(c, "replayed: data lost: %s" % r.obs.lost, found_input=True)
            elif r.exc is None and not r.obs.dst_complete:
                rep.violation(c, "replayed: failure swallowed", found_input=True)
            else:
                judge_scenario(rep, drv, scn)
    finally:
        H.cleanup_scratch()
    return 1 if rep.violations else 0
